(* C02 - No accepted operation yields a constraint-violating metamodel object.
   Only statements here; every theorem is closed by [exact <lemma>].
   The definitions named gen.* are regenerated from /repo's source on every run (tie T);
   the well-formedness predicates (model/ConstraintsSpec.v) are written from the constraint
   texts, not from the code. *)
From Coq Require Import List ZArith Bool.
From Basyx Require Import model.ConstraintsBase gen.Gen_RefChecks gen.Gen_IntRanges gen.Gen_StrConstraints
  model.ConstraintsModel model.ConstraintsSpec proofs.ConstraintsRegexProofs proofs.ConstraintsRefProofs
  proofs.ConstraintsStrProofs proofs.ConstraintsListProofs proofs.ConstraintsSmallProofs.
Import ListNotations.
Local Open Scope Z_scope.

(* ===== references: AASd-121 ... AASd-128, for ALL key chains ============================= *)

(* ExternalReference(key) completes iff the chain satisfies AASd-121, -122, -124 *)
Theorem C02_ext_ref_accept : forall ks, ext_ref_check ks = None <-> wf_ext_ref ks.
Proof. exact ext_ref_accept_iff. Qed.

(* ... and otherwise raises ValueError for the empty chain, else the AASConstraintViolation
   of the first violated constraint in the order 122, 124 *)
Theorem C02_ext_ref_reject : forall ks e, ext_ref_check ks = Some e ->
  (ks = [] /\ e = EValue) \/
  (ks <> [] /\ ~ S122 ks /\ e = EAASd 122) \/
  (S122 ks /\ ~ S124 ks /\ e = EAASd 124).
Proof. exact ext_ref_reject. Qed.

(* ModelReference(key, type_) completes iff the chain satisfies AASd-121, -123, -125 ... -128 *)
Theorem C02_model_ref_accept : forall ks, model_ref_check ks = None <-> wf_model_ref ks.
Proof. exact model_ref_accept_iff. Qed.

(* ... and otherwise raises the violation of a constraint that really is violated, in the order
   123, 125, 126, then 127/128 at the first offending adjacent pair *)
Theorem C02_model_ref_reject : forall ks e, model_ref_check ks = Some e ->
  (ks = [] /\ e = EValue) \/
  (ks <> [] /\ ~ S123 ks /\ e = EAASd 123) \/
  (S123 ks /\ ~ S125 ks /\ e = EAASd 125) \/
  (S123 ks /\ S125 ks /\ ~ S126 ks /\ e = EAASd 126) \/
  (S123 ks /\ S125 ks /\ S126 ks /\ ((~ S127 ks /\ e = EAASd 127) \/ (~ S128 ks /\ e = EAASd 128))).
Proof. exact model_ref_reject. Qed.

Theorem C02_refs_no_index_error : forall ks,
  ext_ref_check ks <> Some EIndex /\ model_ref_check ks <> Some EIndex.
Proof. exact ref_checks_no_index_error. Qed.

(* the SDK's key-type predicates are the metamodel's enumerations *)
Theorem C02_keytype_predicates : forall t,
  is_aas_identifiable t = memb t AasIdentifiables /\
  is_generic_globally_identifiable t = memb t GenericGloballyIdentifiables /\
  is_generic_fragment_key t = memb t GenericFragmentKeys /\
  is_aas_submodel_element t = memb t AasSubmodelElements /\
  is_fragment_key_element t = memb t FragmentKeys /\
  is_globally_identifiable t = memb t GloballyIdentifiables.
Proof.
  intro t.
  exact (conj (pred_aas_identifiable t) (conj (pred_generic_globally t) (conj (pred_generic_fragment t)
        (conj (pred_submodel_element t) (conj (pred_fragment_key t) (pred_globally t)))))).
Qed.

(* non-vacuity: a five-key chain through a list and a file fragment is accepted; the chain
   with an inner FragmentReference (accepted by the pinned tree before the fix of AASd-126;
   minimal length 5, beyond the 22^4 bound of the quantifier) is rejected with 126 *)
Example C02_ref_example_accepted :
  model_ref_check [mkKey KT_SUBMODEL false; mkKey KT_SUBMODEL_ELEMENT_LIST false; mkKey KT_SUBMODEL_ELEMENT_COLLECTION true;
                   mkKey KT_FILE false; mkKey KT_FRAGMENT_REFERENCE false] = None.
Proof. vm_compute. reflexivity. Qed.
Example C02_ref_example_126 :
  model_ref_check [mkKey KT_SUBMODEL false; mkKey KT_FILE false; mkKey KT_FRAGMENT_REFERENCE false;
                   mkKey KT_FILE false; mkKey KT_FRAGMENT_REFERENCE false] = Some (EAASd 126).
Proof. vm_compute. reflexivity. Qed.

(* ===== constrained string types ============================================================ *)

(* AASd-130: the character class of the SDK's pattern is exactly the XML Char production *)
Theorem C02_aasd130 : forall s, matchb AASD130_RE s = true <-> Forall xml_char s.
Proof. exact aasd130_matches. Qed.

Theorem C02_string_types : forall s,
  (check_content_type s = None <-> str_ok 1 100 s) /\
  (check_identifier s = None <-> str_ok 1 2000 s) /\
  (check_label_type s = None <-> str_ok 1 64 s) /\
  (check_message_topic_type s = None <-> str_ok 1 255 s) /\
  (check_name_type s = None <-> str_ok 1 128 s) /\
  (check_path_type s = None <-> str_ok 1 2000 s) /\
  (check_qualifier_type s = None <-> str_ok 1 128 s) /\
  (check_short_name_type s = None <-> str_ok 1 64 s) /\
  (check_value_type_iec61360 s = None <-> str_ok 1 2000 s).
Proof. exact plain_string_types. Qed.

Theorem C02_version_type : forall s, check_version_type s = None <-> str_ok 1 4 s /\ version_syntax s.
Proof. exact check_version_type_spec. Qed.
Theorem C02_revision_type : forall s, check_revision_type s = None <-> str_ok 1 4 s /\ version_syntax s.
Proof. exact check_revision_type_spec. Qed.

(* the per-text limits of the five constrained language string sets *)
Theorem C02_lang_string_texts : forall s,
  (lss_check_MultiLanguageNameType s = None <-> str_ok 1 64 s) /\
  (lss_check_MultiLanguageTextType s = None <-> str_ok 1 1023 s) /\
  (lss_check_DefinitionTypeIEC61360 s = None <-> str_ok 1 1023 s) /\
  (lss_check_PreferredNameTypeIEC61360 s = None <-> str_ok 1 255 s) /\
  (lss_check_ShortNameTypeIEC61360 s = None <-> str_ok 1 18 s).
Proof. exact lang_string_text_types. Qed.

(* every rejection by a string check is a ValueError *)
Theorem C02_string_errors : forall s e,
  (check_content_type s = Some e \/ check_identifier s = Some e \/ check_label_type s = Some e \/
   check_message_topic_type s = Some e \/ check_name_type s = Some e \/ check_path_type s = Some e \/
   check_qualifier_type s = Some e \/ check_revision_type s = Some e \/ check_short_name_type s = Some e \/
   check_value_type_iec61360 s = Some e \/ check_version_type s = Some e \/
   lss_check_MultiLanguageNameType s = Some e \/ lss_check_MultiLanguageTextType s = Some e \/
   lss_check_DefinitionTypeIEC61360 s = Some e \/ lss_check_PreferredNameTypeIEC61360 s = Some e \/
   lss_check_ShortNameTypeIEC61360 s = Some e) -> e = EValue.
Proof. exact string_checks_raise_ValueError. Qed.

(* AASd-002 + NameType: validate_id_short accepts exactly the ASCII identifiers of length
   1..128; [isalpha] is Python's str.isalpha, of which only the ASCII part matters (premise,
   validated on all 128 code points by the check) *)
Theorem C02_id_short : forall (isalpha : Z -> bool),
  (forall c, 0 <= c < 128 -> isalpha c = ascii_letter_b c) ->
  forall s, validate_id_short isalpha s = None <-> (1 <= len s <= 128 /\ idshort_syntax s).
Proof. exact validate_id_short_spec. Qed.
Theorem C02_id_short_errors : forall isalpha s e, validate_id_short isalpha s = Some e ->
  e = EValue \/ e = EAASd 2 \/ (e = EIndex /\ s = []).
Proof. exact validate_id_short_errors. Qed.

Example C02_string_example :
  check_version_type [49; 48] = None /\ check_version_type [48; 49] = Some EValue /\
  check_name_type [65; 55296] = Some EValue /\ check_name_type [65; 57344] = None.
Proof. vm_compute. repeat split; reflexivity. Qed.

(* ===== the 13 XSD integer types (bounds as literals) ====================================== *)
Theorem C02_int_ranges : forall z,
  (in_range_Integer z = true) /\
  (in_range_Long z = true <-> -9223372036854775808 <= z <= 9223372036854775807) /\
  (in_range_Int z = true <-> -2147483648 <= z <= 2147483647) /\
  (in_range_Short z = true <-> -32768 <= z <= 32767) /\
  (in_range_Byte z = true <-> -128 <= z <= 127) /\
  (in_range_NonPositiveInteger z = true <-> z <= 0) /\
  (in_range_NegativeInteger z = true <-> z <= -1) /\
  (in_range_NonNegativeInteger z = true <-> 0 <= z) /\
  (in_range_PositiveInteger z = true <-> 1 <= z) /\
  (in_range_UnsignedLong z = true <-> 0 <= z <= 18446744073709551615) /\
  (in_range_UnsignedInt z = true <-> 0 <= z <= 4294967295) /\
  (in_range_UnsignedShort z = true <-> 0 <= z <= 65535) /\
  (in_range_UnsignedByte z = true <-> 0 <= z <= 255).
Proof. exact int_ranges. Qed.

(* ===== ConstrainedList + Entity (AASd-014) + AssetInformation (AASd-131) + HasSemantics (AASd-118) == *)
(* model/ConstraintsModel.v part A: state (entity type, globalAssetId, specificAssetId list),
   resp. for owner OSem (semantic_id present?, supplemental_semantic_id list);
   operations: append, insert, extend, +=, pop, remove, clear, __setitem__/__delitem__ with int
   and slice, the list-valued setter (list or one-shot iterator argument), both attribute
   setters.  [effect] is what the call does when no hook objects; [step] adds the hooks. *)

(* constructors: accepted => well-formed with exactly the given attributes; rejected =>
   ValueError for an invalid globalAssetId or the class's constraint number, the latter only
   if the arguments are ill-formed *)
Theorem C02_list_ctor : forall o t g xs, (o = OSem -> g <> GBad) ->
  match ctor o t g xs with
  | (Some s, None) => wf_owner o s /\ s = mkSt t g xs
  | (None, Some e) =>
      (e = EValue /\ g = GBad) \/ (e = EAASd (cnum o) /\ (g = GBad \/ ~ wf_owner o (mkSt t g xs)))
  | _ => False
  end.
Proof. exact ctor_spec. Qed.

(* every accepted call on a well-formed object does what the plain list/attribute operation
   does and yields a well-formed object *)
Theorem C02_list_accept_wf : forall o s p s' v, wf_owner o s -> step o s p = (s', v) -> is_ok v ->
  wf_owner o s' /\ effect o s p = inr (s', v).
Proof. exact step_accept_wf. Qed.

(* every rejected call leaves the object unchanged and raises either the class's constraint
   number - exactly when carrying the call out would give an ill-formed object - or the
   IndexError / ValueError / TypeError Python documents for the list operation itself *)
Theorem C02_list_reject_unchanged : forall o s p s' e, wf_owner o s -> step o s p = (s', Err e) ->
  s' = s /\
  ((e = EAASd (cnum o) /\ exists s2 v, effect o s p = inr (s2, v) /\ ~ wf_owner o s2) \/
   (effect o s p = inl e /\ plain_error o s p e)).
Proof. exact step_reject_unchanged. Qed.

(* all histories, every order of setter and list operations *)
Theorem C02_list_history : forall o t g xs s ops, (o = OSem -> g <> GBad) ->
  ctor o t g xs = (Some s, None) -> wf_owner o (run o s ops).
Proof. exact ctor_run_wf. Qed.

(* non-vacuity: a self-managed entity that loses its last specificAssetId only after it got a
   globalAssetId, becomes co-managed only when both are gone; refusals in between *)
Example C02_list_example :
  let s0 := mkSt true GNone [0%nat; 1%nat] in
  map (fun ops => (snd (step OEntity (run OEntity s0 ops) Clear), items (run OEntity s0 (ops ++ [Clear]))))
      [[]; [SetGaid (GOk 0)]; [SetGaid (GOk 0); Clear; SetType false]; [SetGaid (GOk 0); Clear; SetGaid GNone]]
  = [(Err (EAASd 14), [0%nat; 1%nat]); (OK, []); (OK, []); (OK, [])]
  /\ ctor OEntity true GNone [0%nat; 1%nat] = (Some s0, None)
  /\ etype (run OEntity s0 [SetGaid (GOk 0); Clear; SetType false]) = true
  /\ etype (run OEntity s0 [SetGaid (GOk 0); Clear; SetGaid GNone; SetType false]) = true
  /\ etype (run OEntity s0 [Clear; SetSlice None None []; SetGaid (GOk 0); SetList []; SetGaid GNone; SetType false;
                            SetGaid GNone; IAdd [1%nat]]) = true.
Proof. vm_compute. repeat split; reflexivity. Qed.

(* extended slices: del l[::-1], l[::2], l[::-2] ... go through the same dry run as contiguous
   slices - every selected item is checked against the list as it shrinks *)
Example C02_list_xslice_example :
  map (fun p => snd (step OAsset (mkSt true GNone [0; 1; 2]%nat) p))
      [DelXSlice None None (-1); DelXSlice None None 2; DelXSlice (Some 1) None (-2); DelXSlice None None 0]
  = [Err (EAASd 131); OK; OK; Err EValue]
  /\ items (run OAsset (mkSt true GNone [0; 1; 2]%nat) [DelXSlice None None 2; DelXSlice None None (-1)]) = [1%nat]
  /\ items (run OEntity (mkSt true (GOk 0) [0; 1; 2; 3]%nat) [DelXSlice (Some (-1)) (Some 0) (-2); DelXSlice None None (-1)]) = [].
Proof. vm_compute. repeat split; reflexivity. Qed.

(* AASd-118 on assignment to semantic_id holds for free-standing and for contained objects alike
   (owner OSem: etype = contained in a namespace; the setter is gen.Gen_SemSetter, translated
   with its `self.parent` branches and early returns) *)
Example C02_sem_contained_example :
  map (fun contained => snd (step OSem (mkSt contained (GOk 0) [1%nat]) (SetGaid GNone))) [true; false]
  = [Err (EAASd 118); Err (EAASd 118)]
  /\ run OSem (mkSt false (GOk 0) [1%nat]) [SetType true; SetGaid GNone; Clear; SetGaid GNone; SetType false; Append 2%nat]
     = mkSt false GNone [].
Proof. vm_compute. split; reflexivity. Qed.

(* ===== AdministrativeInformation (AASd-005) ================================================= *)
Theorem C02_adm_ctor : forall v r,
  match actor v r with
  | (Some s, None) => wf_adm s /\ s = mkAdm v r
  | (None, Some e) => (e = EAASd 5 /\ ~ wf_adm (mkAdm v r)) \/ (e = EValue /\ (~ s_valid v \/ ~ s_valid r))
  | _ => False
  end.
Proof. exact actor_spec. Qed.
Theorem C02_adm_accept_wf : forall s p s', wf_adm s -> astep s p = (s', None) -> wf_adm s' /\ s' = aplain s p.
Proof. exact astep_accept_wf. Qed.
Theorem C02_adm_reject_unchanged : forall s p s' e, wf_adm s -> astep s p = (s', Some e) ->
  s' = s /\ ((e = EAASd 5 /\ ~ wf_adm (aplain s p)) \/ (e = EValue /\ ~ s_valid (aarg p))).
Proof. exact astep_reject_unchanged. Qed.
Theorem C02_adm_history : forall ops s, wf_adm s -> wf_adm (arun s ops).
Proof. exact arun_wf. Qed.
(* the history that broke AASd-005 on the pinned tree: version = None while a revision is set *)
Example C02_adm_example :
  astep (mkAdm (SOk 0) (SOk 1)) (SetVersion SNone) = (mkAdm (SOk 0) (SOk 1), Some (EAASd 5)) /\
  arun (mkAdm (SOk 0) (SOk 1)) [SetRevision SNone; SetVersion SNone; SetRevision (SOk 0)] = mkAdm SNone SNone.
Proof. vm_compute. split; reflexivity. Qed.

(* ===== BasicEventElement: direction / max_interval / last_update ========================== *)
(* the three setter conditions are gen.Gen_BeeChecks (translated; `is not None` and truthiness kept apart) *)
Theorem C02_bee_ctor : forall d u m,
  match bctor d u m with
  | (Some s, None) => wf_bee s /\ s = mkBee d m u
  | (None, Some e) => e = EValue /\ ~ wf_bee (mkBee d m u)
  | _ => False
  end.
Proof. exact bctor_spec. Qed.
Theorem C02_bee_accept_wf : forall s p s', wf_bee s -> bstep s p = (s', None) -> wf_bee s' /\ s' = bplain s p.
Proof. exact bstep_accept_wf. Qed.
Theorem C02_bee_reject_unchanged : forall s p s' e, wf_bee s -> bstep s p = (s', Some e) ->
  s' = s /\ e = EValue /\ ~ wf_bee (bplain s p).
Proof. exact bstep_reject_unchanged. Qed.
Theorem C02_bee_history : forall ops s, wf_bee s -> wf_bee (brun s ops).
Proof. exact brun_wf. Qed.
(* a zero-length Duration is falsy but present (PFalsy): it is refused for direction = input
   exactly like a non-zero one, through the constructor and both setters *)
Example C02_bee_example :
  brun (mkBee false PTruthy UUtc) [SetDirection true; SetMaxInterval PNone; SetDirection true; SetMaxInterval PTruthy;
                                   SetMaxInterval PFalsy; SetLastUpdate UOther] = mkBee true PNone UUtc
  /\ bstep (mkBee false PFalsy UNone) (SetDirection true) = (mkBee false PFalsy UNone, Some EValue)
  /\ bctor true UNone PFalsy = (None, Some EValue)
  /\ bctor false UUtc PFalsy = (Some (mkBee false PFalsy UUtc), None).
Proof. vm_compute. repeat split; reflexivity. Qed.

(* ===== category: NameType, AASd-090 (data elements), AASd-100 =============================== *)
Theorem C02_category_accept_wf : forall k a, set_category k a = None -> wf_category k a.
Proof. exact category_accept_wf. Qed.
Theorem C02_category_reject : forall k a e, set_category k a = Some e ->
  ~ wf_category k a /\
  ((e = EValue /\ ~ category_is_name a) \/ (e = EAASd 100 /\ a = CEmpty /\ k <> COther) \/
   (e = EAASd 90 /\ k = CDataElement /\ a <> CNone /\ a <> CAllowed)).
Proof. exact category_reject. Qed.
(* AASd-090 as documented has no exemption: the SDK's exemption of File and Blob refutes the
   full statement (open finding C02:category:File-Blob-exempt); it holds for every other class *)
Theorem C02_category_text_refuted : exists k a, set_category k a = None /\ ~ wf_category_090_text k a.
Proof. exact category_text_refuted. Qed.
Theorem C02_category_text_partial : forall k a, k <> CFileBlob -> set_category k a = None -> wf_category_090_text k a.
Proof. exact category_text_partial. Qed.

(* ===== language string sets ====================================================================== *)
Theorem C02_lss_ctor : forall c kvs,
  match lctor c kvs with
  | (Some l, None) => wf_lss c l /\ l = kvs
  | (None, Some e) => e = EValue /\ ~ wf_lss c kvs
  | _ => False
  end.
Proof. exact lctor_spec. Qed.
(* __setitem__, __delitem__, clear, pop, popitem, setdefault, update: accepted => well-formed
   (in particular never empty); rejected => unchanged with ValueError or KeyError *)
Theorem C02_lss_step : forall c l p l' r, wf_lss c l -> lstep c l p = (l', r) ->
  match r with
  | None => wf_lss c l'
  | Some e => l' = l /\ (e = EValue \/ e = EKey)
  end.
Proof. exact lstep_spec. Qed.
Theorem C02_lss_history : forall c ops l, wf_lss c l -> wf_lss c (lrun c l ops).
Proof. exact lrun_wf. Qed.
Example C02_lss_example :
  lrun true [(0, true)]%nat [LDel 0; LClear; LPopItem; LSet 1 true; LPop 0; LUpdate [(2, true); (4, true)]; LSet 2 false]%nat
  = [(1, true)]%nat.
Proof. vm_compute. reflexivity. Qed.

(* ===== SubmodelElementList._check_constraints (AASd-107/108/109/114/120), pure model ========= *)
(* an accepted new element has no idShort and the list with it - at any position - satisfies
   AASd-107/108/109/114 *)
Theorem C02_sml_accept_wf : forall c e l, wf_list c l -> check_new c e l = None ->
  ehasid e = false /\ forall l1 l2, l = l1 ++ l2 -> wf_list c (l1 ++ e :: l2).
Proof. exact check_new_accept. Qed.
(* a refusal carries the number of a constraint the new element really violates *)
Theorem C02_sml_reject : forall c e l x, wf_list c l -> check_new c e l = Some x ->
  (x = EAASd 120 /\ ehasid e = true) \/
  (ehasid e = false /\ ~ wf_list c (e :: l) /\
   ((x = EAASd 108 /\ type_ok c e = false) \/
    (x = EAASd 107 /\ exists s s', semle c = Some s /\ esem e = Some s' /\ s' <> s) \/
    (x = EAASd 109 /\ prop_or_range c = true /\ vtle c <> Some (evt e)) \/
    (x = EAASd 114 /\ exists y a b, In y l /\ esem e = Some a /\ esem y = Some b /\ b <> a))).
Proof. exact check_new_reject. Qed.
(* every history of single additions (refused ones skipped) from the empty list *)
Theorem C02_sml_history : forall c es l, wf_list c l -> wf_list c (fst (sml_adds c l es)).
Proof. exact sml_adds_wf. Qed.
(* [no semantic id; A; B]: the third element is refused although the FIRST element has no
   semantic id - the check looks at every contained element *)
Example C02_sml_example :
  snd (sml_adds (mkCfg 0 [] true (Some 0%nat) None) []
         [mkElem 0 0 None false; mkElem 0 0 (Some 1%nat) false; mkElem 0 0 (Some 2%nat) false; mkElem 0 1 None false;
          mkElem 1 0 None false; mkElem 0 0 (Some 1%nat) true])
  = [None; None; Some (EAASd 114); Some (EAASd 109); Some (EAASd 108); Some (EAASd 120)].
Proof. vm_compute. reflexivity. Qed.

(* add / append / insert (SAdd), extend / += (SExtend: rolled back on a refusal) and the value
   setter (SSetValue: previous content restored on a refusal): accepted => well-formed;
   rejected => the list is unchanged and the error is one of AASd-107/108/109/114/120 *)
Theorem C02_sml_step : forall c l p l' r, wf_list c l -> sml_step c l p = (l', r) ->
  match r with
  | None => wf_list c l'
  | Some x => l' = l /\ sml_errno x
  end.
Proof. exact sml_step_spec. Qed.
Theorem C02_sml_ops_history : forall c ops l, wf_list c l -> wf_list c (fst (sml_run c l ops)).
Proof. exact sml_run_wf. Qed.
Example C02_sml_ops_example :
  let a := mkElem 0 0 (Some 1%nat) false in let b := mkElem 0 0 (Some 2%nat) false in let n := mkElem 0 0 None false in
  sml_run (mkCfg 0 [] true (Some 0%nat) None) [] [SExtend [n; a]; SExtend [n; b]; SSetValue [b; a]; SSetValue [b; n]]
  = ([b; n], [None; Some (EAASd 114); Some (EAASd 114); None]).
Proof. vm_compute. reflexivity. Qed.
