(* C19 - Supplementary file container never mixes up or loses file contents.
   Only statements here; every theorem is closed by [exact <lemma>]. *)
From Coq Require Import List String ZArith.
From Basyx Require Import model.Files proofs.FilesProofs model.FileStreams proofs.FileStreamsProofs.
Import ListNotations.

(* The bookkeeping invariant (refcounts = number of names per content; content stored
   iff referenced; names unique) holds after every history. *)
Theorem C19_inv : forall ops, Inv (run ops).
Proof. exact Inv_run. Qed.

(* After any history, the container's name map equals the ghost map kept by a client
   that records only (name handed out by add_file -> content, content type supplied) and
   forgets deleted names: nothing is mixed up, lost, or resurrected. *)
Theorem C19_history : forall ops n,
  lookup (run ops) n = snd (exec init (fun _ => None) ops) n.
Proof. exact history_refines. Qed.

(* ... and every public getter answers exactly from that map (KeyError when absent). *)
Theorem C19_getters : forall ops n,
  match lookup (run ops) n with
  | Some (h, t) => write_file (run ops) n = OData h /\ get_content_type (run ops) n = OCtype t /\
                   get_sha256 (run ops) n = OHash h /\ contains (run ops) n = OBool true /\
                   In n (iter_names (run ops))
  | None => write_file (run ops) n = OKeyError /\ get_content_type (run ops) n = OKeyError /\
            get_sha256 (run ops) n = OKeyError /\ contains (run ops) n = OBool false /\
            ~ In n (iter_names (run ops))
  end.
Proof. intros ops n. exact (getters_agree (run ops) n (Inv_run ops)). Qed.

(* add_file in any reachable state: terminates with a name n' (never out of fuel), n' now maps to
   the supplied (content, type), every other name is undisturbed, n' was unused before or already
   held the identical file (then nothing changed), and the requested name itself is returned
   whenever it was free or identical. *)
Theorem C19_add : forall ops name c t,
  let s := run ops in
  exists n', snd (add_file s name c t) = OName n' /\
    lookup (fst (add_file s name c t)) n' = Some (c, t) /\
    (forall m, m <> n' -> lookup (fst (add_file s name c t)) m = lookup s m) /\
    (lookup s n' = None \/ (lookup s n' = Some (c, t) /\ fst (add_file s name c t) = s)) /\
    ((lookup s name = None \/ lookup s name = Some (c, t)) -> n' = name).
Proof. intros ops name c t. exact (add_spec (run ops) name c t (Inv_run ops)). Qed.

(* delete_file in any reachable state: unknown name -> KeyError and no change; known name ->
   that name is gone and no other name is affected (even one sharing its content). *)
Theorem C19_delete : forall ops name,
  let s := run ops in
  (lookup s name = None -> delete_file s name = (s, OKeyError)) /\
  (lookup s name <> None ->
     snd (delete_file s name) = OUnit /\
     lookup (fst (delete_file s name)) name = None /\
     forall m, m <> name -> lookup (fst (delete_file s name)) m = lookup s m).
Proof. intros ops name. exact (del_spec (run ops) name (Inv_run ops)). Qed.

(* The counter-suffixed candidate names are pairwise distinct, which is what makes the
   conflict loop terminate (pigeonhole over |names|+2 candidates). *)
Theorem C19_candidates_distinct : forall name j k, cand name j = cand name k -> j = k.
Proof. exact cand_inj. Qed.

(* Non-vacuity: a concrete history with a name conflict, shared content and a deletion. *)
Example C19_example :
  let ops := [Add "a.pdf" 1 0; Add "a.pdf" 2 0; Add "b/c" 1 0; Del "a.pdf"; Add "a.pdf" 1 1] in
  map (fun n => lookup (run ops) n) ["a.pdf"; "a_0001.pdf"; "b/c"; "zz"]%string
  = [Some (1, 1); Some (2, 0); Some (1, 0); None].
Proof. vm_compute. reflexivity. Qed.

(* The content add_file stores is what the file object's read() yields from its CURRENT position
   (model/FileStreams.v), for every stream state: in any reachable state the name handed out yields the
   token of exactly those bytes (and the supplied type), all clauses of C19_add hold for that content, the
   stream is left exhausted, and for a stream positioned behind a consumed prefix the stored content is not
   the whole buffer (premise: the token function - SHA-256 in the code - does not identify these two byte
   strings).  tok is any function from byte strings to the content tokens of model/Files.v. *)
Theorem C19_stream : forall (tok : list Z -> content) ops name f t,
  let s := run ops in
  let data := skipn (spos f) (sbuf f) in
  let r := add_file_stream tok s name f t in
  let s' := fst (fst r) in
  exists n', snd (fst r) = OName n' /\
    write_file s' n' = OData (tok data) /\ get_content_type s' n' = OCtype t /\
    get_sha256 s' n' = OHash (tok data) /\
    (forall m, m <> n' -> lookup s' m = lookup s m) /\
    (lookup s n' = None \/ (lookup s n' = Some (tok data, t) /\ s' = s)) /\
    ((lookup s name = None \/ lookup s name = Some (tok data, t)) -> n' = name) /\
    (0 < spos f <= List.length (sbuf f) -> (tok data = tok (sbuf f) -> data = sbuf f) ->
       write_file s' n' <> OData (tok (sbuf f))) /\
    fst (read_all (snd r)) = nil.
Proof. intros tok ops name f t. exact (add_stream_spec tok (run ops) name f t (Inv_run ops)). Qed.

(* Non-vacuity: a length-prefixed body whose prefix has been consumed (position 4), then the same payload from a
   fresh stream under the same name (same name back), then the exhausted first stream (no bytes).  The token
   function here is the length, which tells the byte strings involved apart. *)
Example C19_stream_example :
  let tok := @List.length Z in
  let body := mkStream [0; 0; 0; 2; 37; 80]%Z 4 in
  let r1 := add_file_stream tok init "/docs/manual.pdf" body 0 in
  let r2 := add_file_stream tok (fst (fst r1)) "/docs/manual.pdf" (mkStream [37; 80]%Z 0) 0 in
  let r3 := add_file_stream tok (fst (fst r2)) "/empty.bin" (snd r1) 1 in
  (snd (fst r1), snd (fst r2), snd (fst r3),
   map (fun n => lookup (fst (fst r3)) n) ["/docs/manual.pdf"; "/empty.bin"; "/docs/manual_0001.pdf"]%string)
  = (OName "/docs/manual.pdf", OName "/docs/manual.pdf", OName "/empty.bin", [Some (2, 0); Some (0, 1); None]).
Proof. vm_compute. reflexivity. Qed.
