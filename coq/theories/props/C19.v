(* C19 - Supplementary file container never mixes up or loses file contents.
   Only statements here; every theorem is closed by [exact <lemma>]. *)
From Coq Require Import List String.
From Basyx Require Import model.Files proofs.FilesProofs.
Import ListNotations.

(* The bookkeeping invariant (refcounts = number of names per content; content stored
   iff referenced; names unique) holds after every history. *)
Theorem C19_inv : forall ops, Inv (run ops).
Proof. exact Inv_run. Qed.

(* After any history, the container's name map equals the ghost map kept by a client
   that records only (name handed out by add_file -> content, content type supplied) and
   forgets deleted names: nothing is mixed up, lost, or resurrected. *)
Theorem C19_history : forall ops n,
  lookup (run ops) n = snd (exec init (fun _ => None) ops) n.
Proof. exact history_refines. Qed.

(* ... and every public getter answers exactly from that map (KeyError when absent). *)
Theorem C19_getters : forall ops n,
  match lookup (run ops) n with
  | Some (h, t) => write_file (run ops) n = OData h /\ get_content_type (run ops) n = OCtype t /\
                   get_sha256 (run ops) n = OHash h /\ contains (run ops) n = OBool true /\
                   In n (iter_names (run ops))
  | None => write_file (run ops) n = OKeyError /\ get_content_type (run ops) n = OKeyError /\
            get_sha256 (run ops) n = OKeyError /\ contains (run ops) n = OBool false /\
            ~ In n (iter_names (run ops))
  end.
Proof. intros ops n. exact (getters_agree (run ops) n (Inv_run ops)). Qed.

(* add_file in any reachable state: terminates with a name n' (never out of fuel), n' now maps to
   the supplied (content, type), every other name is undisturbed, n' was unused before or already
   held the identical file (then nothing changed), and the requested name itself is returned
   whenever it was free or identical. *)
Theorem C19_add : forall ops name c t,
  let s := run ops in
  exists n', snd (add_file s name c t) = OName n' /\
    lookup (fst (add_file s name c t)) n' = Some (c, t) /\
    (forall m, m <> n' -> lookup (fst (add_file s name c t)) m = lookup s m) /\
    (lookup s n' = None \/ (lookup s n' = Some (c, t) /\ fst (add_file s name c t) = s)) /\
    ((lookup s name = None \/ lookup s name = Some (c, t)) -> n' = name).
Proof. intros ops name c t. exact (add_spec (run ops) name c t (Inv_run ops)). Qed.

(* delete_file in any reachable state: unknown name -> KeyError and no change; known name ->
   that name is gone and no other name is affected (even one sharing its content). *)
Theorem C19_delete : forall ops name,
  let s := run ops in
  (lookup s name = None -> delete_file s name = (s, OKeyError)) /\
  (lookup s name <> None ->
     snd (delete_file s name) = OUnit /\
     lookup (fst (delete_file s name)) name = None /\
     forall m, m <> name -> lookup (fst (delete_file s name)) m = lookup s m).
Proof. intros ops name. exact (del_spec (run ops) name (Inv_run ops)). Qed.

(* The counter-suffixed candidate names are pairwise distinct, which is what makes the
   conflict loop terminate (pigeonhole over |names|+2 candidates). *)
Theorem C19_candidates_distinct : forall name j k, cand name j = cand name k -> j = k.
Proof. exact cand_inj. Qed.

(* Non-vacuity: a concrete history with a name conflict, shared content and a deletion. *)
Example C19_example :
  let ops := [Add "a.pdf" 1 0; Add "a.pdf" 2 0; Add "b/c" 1 0; Del "a.pdf"; Add "a.pdf" 1 1] in
  map (fun n => lookup (run ops) n) ["a.pdf"; "a_0001.pdf"; "b/c"; "zz"]%string
  = [Some (1, 1); Some (2, 0); Some (1, 0); None].
Proof. vm_compute. reflexivity. Qed.
