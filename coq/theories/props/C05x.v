(* C05, XML part - the XML documents the SDK writes have the shape the official XML schema prescribes.
   Statements only.  [xml_schema] (gen/Gen_SchemaXml.v) is regenerated from aasXMLSchema.xsd, [gen_xml_w]
   (gen/Gen_XmlWriter.v) from xml_serialization.py of the current working tree on every run; [xml_meta]
   (model/XmlMeta.v) is the metamodel attribute table of C04, here with the SDK-only value type NormalizedString
   removed from every enumeration (DataTypeDefXsd of the metamodel has 30 literals).
   "Shape" = xvalid leaf_any: element names, nesting, the order of every xs:sequence, minOccurs / maxOccurs, wrapper
   elements, choice alternatives and enumeration literals.  NOT covered by these theorems: the lexical checks of the
   xs:string restrictions (minLength, maxLength, pattern), xs:boolean and xs:base64Binary; they are covered by the
   differential check against lxml (tools/c05.py) and, for the attributes whose bounds are the same in both schemas,
   by the JSON theorems of props/C05.v. *)
From Coq Require Import List Bool String.
From Basyx Require Import model.SchemaBase model.XmlCodec model.XmlMeta model.XmlEntry model.SchemaXml model.SchemaXmlConf
  proofs.SchemaXmlProofs gen.Gen_XmlWriter gen.Gen_SchemaXml.
Import ListNotations.
Local Open Scope string_scope.

Definition c05_meta : meta := restrict ["NormalizedString"] xml_meta.

(* the greatest set of (writer function, class, XSD target) triples closed under the row check, computed from all
   combinations; membership of the roots is checked by C05_xml_env_ok *)
Definition xml_xt : list xtriple :=
  Eval vm_compute in xgfp c05_meta gen_xml_w xml_schema 20 (xcandidates gen_xml_w xml_schema).

(* Generic, proved once by induction on the nesting depth: for ALL writer tables W, metamodel tables M, schema tables XS
   and triple sets XT with xconforms M W XS XT = true, whatever element the interpreted writer function fn returns for
   a well-formed object of class c carries the requested tag and has the shape of its XSD target. *)
Theorem C05_write_xml_generic :
  forall M W XS XT fl, xconforms M W XS XT = true ->
  forall n fn c tgt v tag x,
    xtmem (fn, c, tgt) XT = true -> cls_of v = c -> wfb M n v = true ->
    enc_obj fl W n fn tag v = Ok x ->
    xtag x = tag /\ target_valid XS tgt x = true.
Proof. exact xwrite_shape. Qed.

(* The finite check over the whole generated tables: every writer function, every class it is applied to, every rule
   in emission order against the xs:sequence of the class. *)
Theorem C05_xml_conforms : xconforms c05_meta gen_xml_w xml_schema xml_xt = true.
Proof. vm_compute. reflexivity. Qed.

(* the three top-level lists are optional list parts of environment_t, in the writer's order, and their
   (function, class) pairs are conforming triples *)
Theorem C05_xml_env_ok : xenv_ok xml_schema xml_xt (snd xml_root) xml_tops = true.
Proof. vm_compute. reflexivity. Qed.

(* Hence: every environment document the current XML writer produces for well-formed identifiables has the shape of
   environment_t (C04_xml_store shows that the writer does produce a document for every such store). *)
Theorem C05_write_xml_store_shape :
  forall fl n objs x,
    (forall v, In v objs -> wfb c05_meta n v = true) ->
    write_store fl gen_xml_w xml_tops n objs = Ok x ->
    xvalid leaf_any xml_schema (XCls (snd xml_root)) x = true.
Proof.
  intros fl n objs x.
  exact (xwrite_env c05_meta gen_xml_w xml_schema xml_xt fl C05_xml_conforms (snd xml_root) xml_tops n objs x
                    C05_xml_env_ok).
Qed.

(* The predicate is discriminating: emitting two children of a class in the other order, or renaming an element, is
   rejected. *)
Definition swap_rules (fn a b : string) (W : wtables) : wtables :=
  mkWT (map (fun fr => if String.eqb (fst fr) fn
                       then (fst fr, map (fun cr => (fst cr, map (fun r => if String.eqb (w_tag r) a then
                                                                             match find (fun r' => String.eqb (w_tag r') b) (snd cr) with Some r' => r' | None => r end
                                                                           else if String.eqb (w_tag r) b then
                                                                             match find (fun r' => String.eqb (w_tag r') a) (snd cr) with Some r' => r' | None => r end
                                                                           else r) (snd cr))) (snd fr))
                       else fr) (wt_rules W))
       (wt_disp W) (wt_enum W).
Example C05_xconforms_rejects_swapped_order :
  let W := swap_rules "property_to_xml" "valueType" "value" gen_xml_w in
  xtriple_ok c05_meta W xml_schema xml_xt ("property_to_xml", "Property", TCls "property") = false /\
  xtriple_ok c05_meta gen_xml_w xml_schema xml_xt ("property_to_xml", "Property", TCls "property") = true.
Proof. vm_compute. split; reflexivity. Qed.

(* Non-vacuity: the nested submodel of C04's example is well formed, is written, and the document has the shape of
   environment_t (computed). *)
Definition ex_ref := VObj "ExternalReference" [("key", VList [VObj "Key" [("type", VEnum "GLOBAL_REFERENCE"); ("value", VStr " a ")]]);
                                               ("referred_semantic_id", VNone)].
Definition ex_sme (rest : list (string * value)) (q e : list value) : list (string * value) :=
  [("extension", VList e); ("category", VNone); ("id_short", VStr "p"); ("display_name", VNone); ("description", VNone);
   ("semantic_id", ex_ref); ("supplemental_semantic_id", VList []); ("qualifier", VList q);
   ("embedded_data_specifications", VList [])] ++ rest.
Definition ex_qual := VObj "Qualifier" [("semantic_id", VNone); ("supplemental_semantic_id", VList []);
   ("kind", VEnum "VALUE_QUALIFIER"); ("type", VStr "t"); ("value_type", VEnum "Boolean");
   ("value", VLeaf "Boolean" "false"); ("value_id", VNone)].
Definition ex_prop := VObj "Property" (ex_sme [("value_type", VEnum "Int"); ("value", VLeaf "Int" "0"); ("value_id", VNone)]
                                              [ex_qual] []).
Definition ex_smc := VObj "SubmodelElementCollection" (ex_sme [("value", VList [ex_prop])] [] []).
Definition ex_submodel := VObj "Submodel"
  [("extension", VList []); ("category", VNone); ("id_short", VNone); ("display_name", VNone); ("description", VNone);
   ("administration", VNone); ("id", VStr "urn:x"); ("kind", VEnum "TEMPLATE");
   ("semantic_id", VNone); ("supplemental_semantic_id", VList []); ("qualifier", VList []);
   ("embedded_data_specifications", VList []); ("submodel_element", VList [ex_smc])].
Example C05_xml_example :
  wfb c05_meta 8 ex_submodel = true /\
  match write_store (fun _ _ => false) gen_xml_w xml_tops 8 [ex_submodel] with
  | Ok x => xvalid leaf_any xml_schema (XCls (snd xml_root)) x = true
  | _ => False end.
Proof. vm_compute. split; reflexivity. Qed.
