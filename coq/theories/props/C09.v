(* C09 - Readers isolate damaged input: failsafe never raises, strict as documented.
   Only statements here; every theorem is closed by [exact <lemma>].

   [funs] is gen/Gen_ReaderFlow.v: the exception-flow translation of the *current* source of
   adapter/json/json_deserialization.py and adapter/xml/xml_deserialization.py (rebuilt on every run).
   [exec funs sc m None (SCall f) o]: some run of reader function f (abstract semantics of
   model/ReaderFlow.v: every primitive may succeed or raise any class of its raise-set, every branch may be
   taken, every loop may run any number of times - so every document is covered) in scenario sc and mode m
   (true = failsafe) ends with outcome o. *)
From Coq Require Import List Bool NArith ZArith.
From Basyx Require Import model.ReaderFlow model.ReaderWalk proofs.ReaderFlowProofs proofs.ReaderFlowTables
  proofs.ReaderWalkProofs gen.Gen_ReaderFlow.
Import ListNotations.

(* The analysis is sound for every post-fixpoint table (independent of the generated code). *)
Theorem C09_analysis_sound : forall funs sc m tbl, postfix funs sc m tbl = true ->
  forall f o, exec funs sc m None (SCall f) o -> forall e, o = OExc e -> In e (nth f tbl []).
Proof. exact esc_sound. Qed.

(* Failsafe mode, any well-formed document (scn_document: the parser accepts the input, reading the file
   works, the target store holds no identifier of the document or replace_/ignore_existing is set):
   no exception leaves read_aas_json_file, read_aas_json_file_into, the decoder's object_hook
   (json.loads(cls=AASFromJsonDecoder)), read_aas_xml_file, read_aas_xml_file_into, read_aas_xml_element. *)
Theorem C09_failsafe_total : forall f, In f entries ->
  forall o, exec funs scn_document true None (SCall f) o -> o = ONormal.
Proof. exact failsafe_total. Qed.

(* Strict mode, same scenario: whatever escapes is a KeyError, ValueError, TypeError or
   AASConstraintViolation (or a subclass, e.g. binascii.Error). *)
Theorem C09_strict_documented : forall f, In f entries ->
  forall e, exec funs scn_document false None (SCall f) (OExc e) -> documented e = true.
Proof. exact strict_documented. Qed.

(* Arbitrary bytes (the parser may reject them).  JSON, both modes: only the json module's syntax errors
   (JSONDecodeError, UnicodeDecodeError - both ValueErrors) in failsafe mode ... *)
Theorem C09_bytes_json_failsafe : forall f, In f json_entries ->
  forall e, exec funs scn_bytes true None (SCall f) (OExc e) -> json_syntax_error e = true.
Proof. exact bytes_json_failsafe. Qed.

(* ... XML failsafe: never raises (the result is empty) ... *)
Theorem C09_bytes_xml_failsafe : forall f, In f xml_entries ->
  forall o, exec funs scn_bytes true None (SCall f) o -> o = ONormal.
Proof. exact bytes_xml_failsafe. Qed.

(* ... strict: a documented class or lxml's XMLSyntaxError. *)
Theorem C09_bytes_strict : forall f, In f entries ->
  forall e, exec funs scn_bytes false None (SCall f) (OExc e) -> documented_or_syntax e = true.
Proof. exact bytes_strict. Qed.

(* The one documented failsafe exception: an identifier of the document already exists in the target store
   and neither replace_existing nor ignore_existing is set -> KeyError, nothing else. *)
Theorem C09_conflict_failsafe : forall f, In f entries ->
  forall e, exec funs scn_conflict true None (SCall f) (OExc e) -> e = KeyError.
Proof. exact conflict_failsafe. Qed.

(* Non-vacuity: the semantics does produce exceptions, strict mode can raise KeyError, TypeError and
   ValueError, the conflict scenario raises KeyError. *)
Example C09_semantics_raises :
  exec [SPrim 0%N [KeyError] EnvNone] scn_document true None (SCall 0) (OExc KeyError).
Proof. exact exec_example_raises. Qed.
Example C09_strict_can_raise :
  map (fun e => existsb (fun f => mem e (nth f T_doc_st [])) entries) [KeyError; TypeError; ValueError]
  = [true; true; true].
Proof. exact strict_rows_nonempty. Qed.
Example C09_conflict_can_raise : mem KeyError (nth entry_json_read_aas_json_file_into T_conf_fs []) = true.
Proof. exact conflict_row_nonempty. Qed.

(* ---- the top-level walk (model/ReaderWalk.v: read_aas_json_file_into / read_aas_xml_file_into after parsing),
   over documents abstracted to top-level lists of independently decoded items *)

(* Failsafe never fails on the walk level, provided no identifier conflict with the target store can raise
   (replace_existing or ignore_existing is set, or the store is empty as in read_aas_*_file). *)
Theorem C09_walk_failsafe_total : forall f fl d st, conflict_free fl st = true ->
  exists r, walk f true fl d st = ROk r.
Proof. exact walk_failsafe_total. Qed.

(* Strict either returns exactly what failsafe returns ... *)
Theorem C09_walk_strict_refines : forall f fl d st r,
  walk f false fl d st = ROk r -> walk f true fl d st = ROk r.
Proof. exact walk_strict_refines. Qed.

(* ... or raises KeyError (duplicate / existing identifier, XML: foreign tag), TypeError (wrong list, non-object,
   unknown XML list) or the class raised by the construction of a broken object of the document.  The same
   holds for the one failsafe error (existing identifier, no flag set). *)
Theorem C09_walk_errors : forall f m fl d st e,
  walk f m fl d st = RErr e ->
  e = KeyError \/ e = TypeError \/ exists it, In it (all_items d) /\ strict_exn it = Some e.
Proof. exact walk_errors. Qed.

(* Isolation: d' is d with any number of items replaced by damaged versions.  If neither the original nor the
   damaged version of a replaced item carries identifier k, the failsafe read returns for k exactly what it
   returns for the undamaged document (present with the same content, or absent). *)
Theorem C09_isolation : forall f fl d d' st k, conflict_free fl st = true -> doc_rel k d d' ->
  lookup_result f fl d st k = lookup_result f fl d' st k.
Proof. exact walk_isolation. Qed.

(* Non-vacuity: a document with a broken object, a duplicate identifier, an object in the wrong list, a
   non-object and an unknown list; the expected results of all four readers; and a damaged version of it that is
   related to it by [doc_rel 2]. *)
Example C09_walk_example : walk_example_ok = true.
Proof. exact walk_example_proof. Qed.
Example C09_isolation_example : doc_rel 2 ex_doc ex_doc_damaged.
Proof. exact ex_doc_rel. Qed.
