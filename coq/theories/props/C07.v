(* C07 - References built from elements resolve to exactly those elements.
   Only statements here; every theorem is closed by [exact <lemma>].
   Model: model/Refs.v (hand-written, tied by correspondence) over gen/Gen_RefKeys.v and gen/Gen_RefEqHash.v
   (translated from /repo on every run).  Object identity = (store index, root index, child positions). *)
From Coq Require Import List ZArith String Ascii.
From Basyx Require Import gen.Gen_RefKeys gen.Gen_RefEqHash model.Refs proofs.RefsProofs.
Import ListNotations.
Local Open Scope string_scope.

(* For every provider (list of stores; a lone store = [s]), every identifiable t held in store si at position ri
   whose id is not shadowed by an earlier store, every well-formed tree and EVERY node n of it (position p):
   ModelReference.from_referable(n) succeeds and resolving the result returns exactly n. *)
Theorem C07_resolve_from : forall prov si s ri t p n,
  nth_error prov si = Some s -> nth_error s ri = Some t -> NoDup (ids_of s) ->
  not_shadowed prov si (t_id t) ->
  is_identifiable (t_cls t) = true -> wf_tree t -> addr t p = Some n ->
  exists ks, from_referable t p = Some (Ok (ks, ref_type_of (t_cls n))) /\
             resolve prov ks (ref_type_of (t_cls n)) = Ok (si, ri, p).
Proof. exact resolve_from. Qed.

(* ... as does following its idShort/index path from the root (no identifiable root needed). *)
Theorem C07_path : forall t p n, wf_tree t -> addr t p = Some n ->
  exists ids, id_short_path t p = Some ids /\ get_ref t ids = Ok (p, n).
Proof. exact path_from. Qed.

(* The constructed reference satisfies the reference constraints (the ModelReference constructor, AASd-123,
   125, 126, 127, 128, accepts it), has one key per level starting with the root's id, and its key values are
   the idShort/index path. *)
Theorem C07_constraints : forall t p n, wf_tree t -> is_identifiable (t_cls t) = true -> addr t p = Some n ->
  exists ks ty, from_referable t p = Some (Ok (ks, ty)) /\ model_ref_check ks = None /\
                List.length ks = S (List.length p) /\ hd_error ks = Some (key_type_of (t_cls t), t_id t) /\
                id_short_path t p = Some (map snd (tl ks)).
Proof. exact constraints_from. Qed.

(* Soundness of get_referable, for ANY tree and ANY strings: whatever is returned is addressed by the path
   (`follows`: id_short equality below non-lists, int() = the non-negative position below lists) ... *)
Theorem C07_sound : forall t ids p n, get_ref t ids = Ok (p, n) -> follows t ids p n /\ addr t p = Some n.
Proof. intros t ids p n. exact (get_ref_sound ids t p n). Qed.

(* ... and in a well-formed tree a path addresses at most one element, which is the one returned:
   never a different element. *)
Theorem C07_unique : forall t ids p n, wf_tree t -> follows t ids p n ->
  get_ref t ids = Ok (p, n) /\ forall p' n', follows t ids p' n' -> p' = p /\ n' = n.
Proof.
  intros t ids p n Hwf Hf.
  exact (conj (get_ref_complete t ids p n Hf Hwf)
              (fun p' n' Hf' => follows_functional t ids p' n' p n Hwf Hf' Hf)).
Qed.

(* Soundness of resolve for ANY provider and ANY key list: the result is the first identifiable carrying the
   first key's value (first store that has it), followed along the remaining key values, of the expected type. *)
Theorem C07_resolve_sound : forall prov ks ty si ri p, resolve prov ks ty = Ok (si, ri, p) ->
  exists kt id rest s t n,
    ks = (kt, id) :: rest /\ nth_error prov si = Some s /\ nth_error s ri = Some t /\ t_id t = id /\
    not_shadowed prov si id /\ (forall i' t', (i' < ri)%nat -> nth_error s i' = Some t' -> t_id t' <> id) /\
    follows t (map snd rest) p n /\ addr t p = Some n /\ instance_of (t_cls n) ty = true.
Proof. exact resolve_sound. Qed.

(* Error classes.  pre leads to m; the next key ... *)
(* ... does not exist below m (unknown id_short; index negative or >= len): KeyError *)
Theorem C07_err_dangling : forall t pre p m id rest, wf_tree t -> follows t pre p m ->
  is_namespace (t_cls m) = true ->
  (if is_list (t_cls m)
   then exists z, py_int id = Some z /\ (z < 0 \/ Z.of_nat (List.length (t_ch m)) <= z)%Z
   else forall c, In c (t_ch m) -> t_key c <> Some id) ->
  get_ref t (pre ++ id :: rest)%list = Err KeyError.
Proof. exact err_dangling. Qed.

(* ... m cannot have children: TypeError *)
Theorem C07_err_childless : forall t pre p m id rest, wf_tree t -> follows t pre p m ->
  is_namespace (t_cls m) = false -> get_ref t (pre ++ id :: rest)%list = Err TypeError.
Proof. exact err_childless. Qed.

(* ... m is a list and the key is not an integer literal: ValueError *)
Theorem C07_err_nonnumeric : forall t pre p m id rest, wf_tree t -> follows t pre p m ->
  is_list (t_cls m) = true -> py_int id = None -> get_ref t (pre ++ id :: rest)%list = Err ValueError.
Proof. exact err_nonnumeric. Qed.

(* the first key names no identifiable of any store: KeyError; and errors below a held identifiable pass through *)
Theorem C07_err_unknown_id : forall prov kt id rest ty,
  is_aas_identifiable kt = true -> (forall s, In s prov -> ~ In id (ids_of s)) ->
  resolve prov ((kt, id) :: rest) ty = Err KeyError.
Proof. exact resolve_unknown_id. Qed.

Theorem C07_err_resolve : forall prov kt id rest ty si ri t e,
  is_aas_identifiable kt = true -> mux_lookup prov id 0 = Some (si, ri, t) ->
  get_ref t (map snd rest) = Err e -> resolve prov ((kt, id) :: rest) ty = Err e.
Proof. exact resolve_get_ref_err. Qed.

(* no other error class: get_referable raises KeyError/TypeError/ValueError only; resolve of a constructible
   reference additionally UnexpectedTypeError only *)
Theorem C07_errors_only :
  (forall ids t e, get_ref t ids = Err e -> e = KeyError \/ e = TypeError \/ e = ValueError) /\
  (forall prov ks ty e, model_ref_check ks = None -> resolve prov ks ty = Err e ->
     e = KeyError \/ e = TypeError \/ e = ValueError \/ e = UnexpectedTypeError).
Proof. exact (conj get_ref_errors resolve_errors). Qed.

(* str(position) is read back by int() as that position and passes isnumeric() (AASd-128), for every position *)
Theorem C07_int_of_str : forall i, py_int (index_str i) = Some (Z.of_nat i) /\ isnumeric (index_str i) = true.
Proof. exact (fun i => conj (py_int_index_str i) (isnumeric_index_str i)). Qed.

(* Value objects (Key, Reference, SpecificAssetId), over the translated method bodies: equal objects have equal
   hashes, for any hash function of the hashed attribute tuple and any attribute values whose own equality is
   Leibniz; and __setattr__ lets nothing through for Key and Reference, and for SpecificAssetId only private
   names and parent := None. *)
Theorem C07_value_objects :
  (forall (V H : Type) (veqb : V -> V -> bool), (forall a b, veqb a b = true -> a = b) ->
   forall (hash : list V -> H) c a b, obj_eq V veqb c a b = true -> obj_hash V H hash c a = obj_hash V H hash c b) /\
  setattr_allowed V_Key = [] /\ setattr_allowed V_Reference = [] /\
  (forall name only_none, In (name, only_none) (setattr_allowed V_SpecificAssetId) ->
     (exists r, name = String "_"%char r) \/ (name = "parent" /\ only_none = true)).
Proof. exact (conj eq_implies_hash setattr_closed). Qed.

(* Histories.  The modelled functions read only the tree as it is at the time of the call.  Any mutation that
   replaces the children of one node (list insert/append/pop/del/slice assignment/reorder, add_referable,
   remove_referable: n' = n with other children, same class and id_short) and leaves that node well-formed leaves
   the whole tree well-formed, so every theorem above applies again to every node of the mutated tree; e.g.: *)
Theorem C07_after_mutation : forall t p n n', wf_tree t -> addr t p = Some n -> wf_tree n' ->
  t_cls n' = t_cls n -> t_key n' = t_key n ->
  wf_tree (replace_at t p n') /\ addr (replace_at t p n') p = Some n' /\
  forall q m, addr (replace_at t p n') q = Some m ->
    exists ids, id_short_path (replace_at t p n') q = Some ids /\ get_ref (replace_at t p n') ids = Ok (q, m).
Proof.
  intros t p n n' Hwf Ha Hn' Hc Hk.
  exact (conj (proj1 (wf_replace p t n n' Hwf Ha Hn' Hc Hk))
        (conj (proj2 (wf_replace p t n n' Hwf Ha Hn' Hc Hk))
              (fun q m Hq => path_from _ q m (proj1 (wf_replace p t n n' Hwf Ha Hn' Hc Hk)) Hq))).
Qed.

(* insert at position 0 of the inner list of ex_sm_a (below): the old first item is now referenced by index 1 *)
Example C07_example_mutation :
  let inner' := Node C_SubmodelElementList "" None ""
                  [ Node C_Property "" None "new" []; Node C_Property "" None "" []; Node C_Property "" None "" [] ] in
  let t' := replace_at (Node C_Submodel "urn:a" None ""
                          [ Node C_SubmodelElementList "" (Some "l") ""
                              [ Node C_SubmodelElementList "" None ""
                                  [ Node C_Property "" None "" []; Node C_Property "" None "" [] ] ] ])
                       [0; 0]%nat inner' in
  option_map (fun r => match r with Ok (ks, _) => map snd ks | Err _ => [] end) (from_referable t' [0; 0; 1]%nat)
    = Some ["urn:a"; "l"; "0"; "1"] /\
  get_ref t' ["l"; "0"; "2"] = Ok ([0; 0; 2]%nat, Node C_Property "" None "" []) /\
  get_ref t' ["l"; "0"; "3"] = Err KeyError.
Proof. vm_compute. repeat split; reflexivity. Qed.

(* Non-vacuity: two stores; the first holds a submodel with a collection, a list of lists and an operation,
   the second shadows urn:a and holds urn:b with an entity containing an annotated relationship. *)
Definition ex_sm_a : tree :=
  Node C_Submodel "urn:a" None ""
    [ Node C_SubmodelElementCollection "" (Some "c") "" [ Node C_Property "" (Some "p") "" [] ];
      Node C_SubmodelElementList "" (Some "l") ""
        [ Node C_SubmodelElementList "" None ""
            [ Node C_Property "" None "" []; Node C_Property "" None "" [] ] ];
      Node C_Operation "" (Some "o") "" [ Node C_Property "" (Some "i") "" []; Node C_Range "" (Some "x") "" [] ] ].
Definition ex_sm_b : tree :=
  Node C_Submodel "urn:b" (Some "sm") ""
    [ Node C_Entity "" (Some "e") ""
        [ Node C_AnnotatedRelationshipElement "" (Some "r") "" [ Node C_Blob "" (Some "a") "" [] ] ] ].
Definition ex_prov : list store := [ [ex_sm_a]; [Node C_Submodel "urn:a" None "" []; ex_sm_b] ].

Example C07_example_wf : wf_tree ex_sm_a /\ wf_tree ex_sm_b /\ NoDup (ids_of [ex_sm_a]) /\
  not_shadowed ex_prov 1 "urn:b" /\ addr ex_sm_a [1; 0; 1]%nat = Some (Node C_Property "" None "" []).
Proof.
  split; [exact (wf_treeb_sound ex_sm_a eq_refl)|]. split; [exact (wf_treeb_sound ex_sm_b eq_refl)|].
  split; [exact (nodup_strb_sound (ids_of [ex_sm_a]) eq_refl)|]. split; [|reflexivity].
  intros sj s' Hlt Hn. destruct sj as [|[|sj]]; simpl in Hn.
  - injection Hn as <-. simpl. intros [H|[]]. discriminate H.
  - inversion Hlt as [|? H0]; inversion H0.
  - inversion Hlt as [|? H0]; inversion H0.
Qed.

Example C07_example :
  from_referable ex_sm_a [1; 0; 1]%nat
    = Some (Ok ([(KT_SUBMODEL, "urn:a"); (KT_SUBMODEL_ELEMENT_LIST, "l"); (KT_SUBMODEL_ELEMENT_LIST, "0");
                 (KT_PROPERTY, "1")], RT_Property)) /\
  resolve ex_prov [(KT_SUBMODEL, "urn:a"); (KT_SUBMODEL_ELEMENT_LIST, "l"); (KT_SUBMODEL_ELEMENT_LIST, "0");
                   (KT_PROPERTY, "1")] RT_Property = Ok (0, 0, [1; 0; 1])%nat /\
  resolve ex_prov [(KT_SUBMODEL, "urn:b"); (KT_ENTITY, "e"); (KT_ANNOTATED_RELATIONSHIP_ELEMENT, "r"); (KT_BLOB, "a")]
          RT_Blob = Ok (1, 1, [0; 0; 0])%nat /\
  get_ref ex_sm_a ["o"; "x"] = Ok ([2; 1]%nat, Node C_Range "" (Some "x") "" []) /\
  get_ref ex_sm_a ["l"; "0"; "2"] = Err KeyError /\
  get_ref ex_sm_a ["l"; "-1"] = Err KeyError /\
  get_ref ex_sm_a ["l"; "0"; "x"] = Err ValueError /\
  get_ref ex_sm_a ["c"; "p"; "q"] = Err TypeError /\
  get_ref ex_sm_a ["c"; "P"] = Err KeyError /\
  resolve ex_prov [(KT_SUBMODEL, "urn:zz")] RT_Submodel = Err KeyError /\
  resolve ex_prov [(KT_SUBMODEL, "urn:a"); (KT_PROPERTY, "c")] RT_Property = Err UnexpectedTypeError.
Proof. vm_compute. repeat split; reflexivity. Qed.
