(* C13 - In-memory object stores, provider multiplexer and id generators behave as a map.
   Only statements here; every theorem is closed by [exact <lemma>].
   [idof] (object identity token -> identifier, i.e. x.id) is universally quantified: the theorems
   hold for every pool of objects, in particular for pools where several objects share one id. *)
From Coq Require Import List String Arith Bool.
From Basyx Require Import model.Store proofs.StoreProofs.
Import ListNotations.

(* Representation invariant after every history: the dict's keys are unique and every object is
   filed under its own identifier. *)
Theorem C13_inv : forall idof ops, Inv idof (run idof ops).
Proof. exact Inv_run. Qed.

(* Refinement, state part: after any history of add/discard/remove/pop/clear/update/|=/lookups,
   the store's id -> object function equals the ghost map of a client who applies plain map
   semantics to the same calls (ghost_step; for pop it removes the object that was handed back). *)
Theorem C13_history : forall idof ops i, lookup (run idof ops) i = ghost idof ops i.
Proof. exact history_refines. Qed.

(* Refinement, output part: in every reachable state every call answers what the map prescribes
   (out_spec: KeyError exactly for a clashing add, an absent remove/pop/get_identifiable, the
   default for get, membership by identity / by id, len = number of keys, iteration = each stored
   object exactly once). *)
Theorem C13_outputs : forall idof ops o,
  out_spec idof (lookup (run idof ops)) o (snd (step idof (run idof ops) o)).
Proof. intros idof ops o. exact (out_ok idof (run idof ops) o (Inv_run idof ops)). Qed.

(* A second object with a stored identifier is rejected and the first stays (nothing changes). *)
Theorem C13_duplicate_rejected : forall idof ops x y,
  let s := run idof ops in
  lookup s (idof x) = Some y -> y <> x -> step idof s (Add x) = (s, OKeyError).
Proof. intros idof ops x y. exact (add_duplicate_rejected idof (run idof ops) x y). Qed.

(* Otherwise add succeeds, x is then found under its id, and no other id is affected. *)
Theorem C13_add_accepted : forall idof ops x,
  let s := run idof ops in
  lookup s (idof x) = None \/ lookup s (idof x) = Some x ->
  snd (step idof s (Add x)) = OUnit /\
  lookup (fst (step idof s (Add x))) (idof x) = Some x /\
  forall i, i <> idof x -> lookup (fst (step idof s (Add x))) i = lookup s i.
Proof. intros idof ops x. exact (add_accepted idof (run idof ops) x). Qed.

(* discard / remove: only the named object is affected.  If x itself is stored it is gone
   afterwards; if not (absent, or a different object holds the id) the store is unchanged, and
   remove raises KeyError while discard is silent. *)
Theorem C13_removal : forall idof ops x o,
  let s := run idof ops in
  o = Discard x \/ o = Remove x ->
  (forall i, i <> idof x -> lookup (fst (step idof s o)) i = lookup s i) /\
  (lookup s (idof x) = Some x ->
     lookup (fst (step idof s o)) (idof x) = None /\ snd (step idof s o) = OUnit) /\
  (lookup s (idof x) <> Some x ->
     fst (step idof s o) = s /\
     snd (step idof s o) = match o with Remove _ => OKeyError | _ => OUnit end).
Proof. intros idof ops x o. exact (removal_spec idof (run idof ops) x o). Qed.

(* pop: KeyError on the empty store; otherwise it hands back a stored object and removes exactly it. *)
Theorem C13_pop : forall idof ops,
  let s := run idof ops in
  match snd (step idof s Pop) with
  | OObj x => lookup s (idof x) = Some x /\ lookup (fst (step idof s Pop)) (idof x) = None /\
              forall i, i <> idof x -> lookup (fst (step idof s Pop)) i = lookup s i
  | OKeyError => (forall i, lookup s i = None) /\ fst (step idof s Pop) = s
  | _ => False
  end.
Proof. intros idof ops. exact (pop_spec idof (run idof ops) (Inv_run idof ops)). Qed.

(* clear (the inherited `while True: self.pop()` loop) terminates and empties the store. *)
Theorem C13_clear : forall idof ops, step idof (run idof ops) Clear = ([], OUnit).
Proof. intros idof ops. exact (clear_spec idof (run idof ops) (Inv_run idof ops)). Qed.

(* Construction DictObjectStore(objects) is a bulk update of a NEW empty map (a map value of its own: nothing
   done to it later can show in any other store); constructed from the objects of another store it
   equals that store - same entries, same iteration order. *)
Theorem C13_construct : forall idof xs,
  (forall i, lookup (fst (construct idof xs)) i = fst (g_update idof gempty xs) i) /\
  snd (construct idof xs) = snd (g_update idof gempty xs) /\ Inv idof (fst (construct idof xs)).
Proof. exact construct_refines. Qed.
Theorem C13_construct_copy : forall idof ops,
  construct idof (iter (run idof ops)) = (run idof ops, OUnit).
Proof. intros idof ops. exact (construct_copy idof (run idof ops) (Inv_run idof ops)). Qed.

(* Iteration yields each stored object exactly once, and len counts them. *)
Theorem C13_iteration : forall idof ops,
  let s := run idof ops in
  NoDup (iter s) /\ (forall x, In x (iter s) <-> lookup s (idof x) = Some x) /\
  len s = List.length (iter s).
Proof. intros idof ops. exact (iteration_spec idof (run idof ops) (Inv_run idof ops)). Qed.

(* The multiplexer answers with the first provider that knows the identifier ... *)
Theorem C13_mux_first : forall ps i x,
  mux ps i = Some x <->
  exists l1 p l2, ps = l1 ++ p :: l2 /\ p i = Some x /\ Forall (fun q : provider => q i = None) l1.
Proof. exact mux_some. Qed.
(* ... and raises KeyError exactly when none does. *)
Theorem C13_mux_absent : forall ps i, mux ps i = None <-> Forall (fun q : provider => q i = None) ps.
Proof. exact mux_none. Qed.

(* NamespaceIRIGenerator.generate_id, for ANY generator state g (in particular any stale counter
   cache) and any provider knowing finitely many identifiers: the loop ends within |known|+1
   rounds (never out of fuel), the identifier returned starts with the namespace, the provider
   does not know it, it is the first free candidate from the cached counter on, and the counter
   is cached. *)
Theorem C13_generate_id : forall fuel g knows known proposal,
  (forall i, knows i = true -> In i known) -> fuel > List.length known ->
  let p := quote (match proposal with Some p => p | None => EmptyString end) in
  exists c,
    generate_id fuel g knows proposal
      = (mkGen (g_ns g) (cset p c (g_cache g)), GId (candidate (g_ns g) p c)) /\
    prefix (g_ns g) (candidate (g_ns g) p c) = true /\
    knows (candidate (g_ns g) p c) = false /\
    start_counter g p <= c <= start_counter g p + List.length known /\
    (forall k, start_counter g p <= k < c -> knows (candidate (g_ns g) p k) = true) /\
    start_counter (fst (generate_id fuel g knows proposal)) p = c.
Proof. exact generate_id_spec. Qed.

(* The finiteness premise holds for a multiplexer over dict stores (known = all their keys). *)
Theorem C13_mux_stores_finite : forall (stores : list st) i,
  knows_of (mux (map lookup stores)) i = true -> In i (flat_map (map fst) stores).
Proof. exact mux_stores_known. Qed.

(* Candidates are pairwise distinct in the counter - the reason for termination. *)
Theorem C13_candidates_distinct : forall ns p a b, candidate ns p a = candidate ns p b -> a = b.
Proof. exact candidate_inj. Qed.

(* _quote_iri_segment: the result contains none of the removed or percent-encoded characters,
   and a segment without such characters is left alone. *)
Theorem C13_quote_clean : forall s, forallb clean (chars (quote s)) = true.
Proof. exact quote_clean. Qed.
Theorem C13_quote_id : forall s, forallb clean (chars s) = true -> quote s = s.
Proof. exact quote_clean_id. Qed.

(* Non-vacuity: objects 0 and 1 share the identifier "a".  The duplicate is rejected, discarding
   the duplicate does not evict the original, removing the original makes room for the other. *)
Example C13_example :
  let idof := fun t => nth t ["a"; "a"; "b"]%string ""%string in
  let ops := [Add 0; Add 1; Discard 1; Add 2; Remove 1; Pop; Add 1; Update [2; 0; 1]] in
  (map (fun k => snd (step idof (run idof (firstn k ops)) (nth k ops Len))) (seq 0 8),
   map (lookup (run idof ops)) ["a"; "b"; "c"]%string, iter (run idof ops))
  = ([OUnit; OKeyError; OUnit; OUnit; OKeyError; OObj 0; OUnit; OKeyError],
     [Some 1; Some 2; None], [2; 1]).
Proof. vm_compute. reflexivity. Qed.

(* Non-vacuity for the generator: proposal "p q" (needs escaping), provider knows the plain and
   the _0001 candidate, the counter cache is stale (says 0). *)
Example C13_example_gen :
  let known := ["http://x/p%20q"; "http://x/p%20q_0001"]%string in
  let knows := fun i => existsb (String.eqb i) known in
  generate_id 3 (mkGen "http://x/" [("p%20q", 0)]%string) knows (Some "p q"%string)
  = (mkGen "http://x/" [("p%20q", 2)]%string, GId "http://x/p%20q_0002").
Proof. vm_compute. reflexivity. Qed.
