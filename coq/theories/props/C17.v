(* C17 - update() and commit() reach exactly the right backends with resolvable paths.
   Only statements here; every theorem is closed by [exact <lemma>].
   Model: model/Dispatch.v over the trees of model/Refs.v (hand-written, tied by correspondence).
   Nodes are named by their position from the root.  `run reg k vs` carries out the intended calls vs in order
   and stops at the first source without usable backend. *)
From Coq Require Import List ZArith String.
From Basyx Require Import gen.Gen_RefKeys model.Refs model.Dispatch proofs.RefsProofs proofs.DispatchProofs.
Import ListNotations.
Local Open Scope string_scope.
Local Open Scope list_scope.

(* commit() of ANY node n (position p) of ANY well-formed tree, ANY registry, ANY placement of sources:
   its backend calls (and its exception, if any) are those of carrying out, in this order,
   the sourced strict ancestors nearest first, then the sourced nodes of n's subtree (n first). *)
Theorem C17_commit_calls : forall reg root p n, wf_tree root -> addr root p = Some n ->
  commit reg root p = Some (run reg KCommit (commit_visits root p n)).
Proof. exact commit_is_run. Qed.

(* ... where that list is exactly: every sourced strict ancestor a (position = proper prefix of p) once, with a as
   store object, n as committed object and the segments from a down to n as relative path; and every sourced node m
   of n's subtree (n included) once, with m as store and committed object and an empty path; nothing else. *)
Theorem C17_commit_exactly : forall root p n, addr root p = Some n ->
  (forall v, In v (commit_visits root p n) <->
     (exists k a, (k < List.length p)%nat /\ addr root (firstn k p) = Some a /\ sourced a = true /\
                  v = mkVisit (t_src a) (firstn k p) p (segs a (skipn k p))) \/
     (exists r m, addr n r = Some m /\ sourced m = true /\ v = mkVisit (t_src m) (p ++ r) (p ++ r) [])) /\
  NoDup (map v_store (commit_visits root p n)).
Proof. exact commit_visits_exactly. Qed.

(* update(recursive) of any node: own source, else the closest sourced ancestor; plus, iff recursive, every
   sourced strict descendant. *)
Theorem C17_update_calls : forall reg root p n recursive, wf_tree root -> addr root p = Some n ->
  update reg root p recursive = Some (run reg KUpdate (update_visits root p n recursive)).
Proof. exact update_is_run. Qed.

Theorem C17_update_exactly : forall root p n, addr root p = Some n ->
  (* the first intended call *)
  (sourced n = true -> forall r, hd_error (update_visits root p n r) = Some (mkVisit (t_src n) p p [])) /\
  (sourced n = false -> forall v, nearest root [] (t_key root) p p = Some v ->
     exists k a, (k < List.length p)%nat /\ addr root (firstn k p) = Some a /\ sourced a = true /\
       v_src v = t_src a /\ v_store v = firstn k p /\ v_obj v = p /\
       (forall k' a', (k < k')%nat -> addr root (firstn k' p) = Some a' -> (k' <= List.length p)%nat -> sourced a' = false)) /\
  (sourced n = false -> nearest root [] (t_key root) p p = None ->
     forall k a, addr root (firstn k p) = Some a -> sourced a = false) /\
  (* the rest: the sourced strict descendants, each once, iff recursive *)
  (forall v, In v (self_visits (nodes_list (t_ch n) p 0)) <->
     exists r m, r <> [] /\ addr n r = Some m /\ sourced m = true /\ v = mkVisit (t_src m) (p ++ r) (p ++ r) []) /\
  NoDup (map v_store (self_visits (nodes_list (t_ch n) p 0))).
Proof. exact update_visits_exactly. Qed.

(* if every visited source has a backend: no exception and exactly one call per intended call, in order *)
Theorem C17_no_error_calls : forall reg k vs bs,
  map (backend_of reg) vs = map Some bs ->
  run reg k vs = (map (fun bv => to_call k (fst bv) (snd bv)) (combine bs vs), None).
Proof. exact run_all_ok. Qed.

(* otherwise the first source without backend ends the traversal with its error after the calls before it;
   and an error never has another origin *)
Theorem C17_error_stops :
  (forall reg k pre v post bs e,
     map (backend_of reg) pre = map Some bs -> get_backend reg (v_src v) = inl e ->
     run reg k (pre ++ v :: post) = (map (fun bv => to_call k (fst bv) (snd bv)) (combine bs pre), Some e)) /\
  (forall reg k vs calls e, run reg k vs = (calls, Some e) ->
     exists pre v post bs, vs = pre ++ v :: post /\ map (backend_of reg) pre = map Some bs /\
                           get_backend reg (v_src v) = inl e).
Proof. exact (conj run_stops run_error_inv). Qed.

(* the documented errors: no scheme -> ValueError; scheme without registered backend -> UnknownBackendException;
   otherwise the backend registered for the scheme *)
Theorem C17_get_backend : forall reg url,
  (get_backend reg url = inl BValueError <-> scheme_of url = None) /\
  (get_backend reg url = inl BUnknownBackend <-> exists s, scheme_of url = Some s /\ reg_lookup reg s = None) /\
  (forall b, get_backend reg url = inr b <-> exists s, scheme_of url = Some s /\ reg_lookup reg s = Some b).
Proof. exact get_backend_spec. Qed.

(* Registrations over time (register_backend replaces): in a process that interleaves registrations with commit()/
   update() calls, every call is carried out with the registry as it stands at that moment ... *)
Theorem C17_history : forall reg root pre post p n, wf_tree root -> addr root p = Some n ->
  let reg' := reg_after reg (regs_of pre) in
  exec reg root (pre ++ OCommit p :: post) =
    exec reg root pre ++ Some (run reg' KCommit (commit_visits root p n)) :: exec reg' root post /\
  forall rc, exec reg root (pre ++ OUpdate p rc :: post) =
    exec reg root pre ++ Some (run reg' KUpdate (update_visits root p n rc)) :: exec reg' root post.
Proof. exact exec_history. Qed.

(* ... in which the backend used for a source is the one registered LAST for its scheme at the time of the call
   (however often the same URL was resolved before), and a scheme never registered stays unknown *)
Theorem C17_last_registered :
  (forall reg h url b, get_backend (reg_after reg h) url = inr b <->
     exists s, scheme_of url = Some s /\ last_registered h s (reg_lookup reg s) = Some b) /\
  (forall h s cur k b, last_registered (h ++ [(k, b)]) s cur = if String.eqb k s then Some b else last_registered h s cur) /\
  (forall s cur, last_registered [] s cur = cur).
Proof. exact (conj get_backend_history (conj last_registered_app (fun s cur => eq_refl))). Qed.

(* Time: the outcomes of a process do not depend on clock steps between the calls (update() with the default
   max_age and commit() consult their backends on EVERY call, whatever the clock did since the previous one) *)
Theorem C17_clock_irrelevant : forall ops reg root,
  exec reg root ops = exec reg root (filter (fun o => negb (is_clock o)) ops).
Proof. exact exec_clock_irrelevant. Qed.

(* Edits: after the children of any node were replaced (list insert/delete/assignment in front of an item,
   add/remove_referable) the calls are those of the tree as it is then, and commit's paths lead to the object *)
Theorem C17_after_edit : forall reg t q old new p n, wf_tree t -> addr t q = Some old -> wf_tree new ->
  t_cls new = t_cls old -> t_key new = t_key old -> addr (replace_at t q new) p = Some n ->
  commit reg (replace_at t q new) p = Some (run reg KCommit (commit_visits (replace_at t q new) p n)) /\
  (forall rc, update reg (replace_at t q new) p rc = Some (run reg KUpdate (update_visits (replace_at t q new) p n rc))) /\
  (forall v, In v (commit_visits (replace_at t q new) p n) ->
     path_leads (replace_at t q new) (v_store v) (v_obj v) (v_rel v)).
Proof. exact commit_after_edit. Qed.

(* commit(): in every intended call the relative path leads from the store object to the committed object
   (walking it with get_referable as the Backend docstring prescribes) *)
Theorem C17_commit_paths_lead : forall root p n v, wf_tree root -> addr root p = Some n ->
  In v (commit_visits root p n) -> path_leads root (v_store v) (v_obj v) (v_rel v).
Proof. exact commit_paths_lead. Qed.

(* update(): the FULL statement "the relative path leads from the store object to the updated object" is refuted
   for the call to an ancestor's backend (find_source starts the path with the store object's own id_short) ... *)
(* witness (proofs/DispatchProofs.v ex_upd): Submodel 'smid' (source scheme:x) / collection c / property p;
   p.update() hands the submodel's backend ['smid'; 'c'; 'p'] *)
Theorem C17_update_path_refuted :
  exists root p n v, wf_tree root /\ addr root p = Some n /\ In v (update_visits root p n false) /\
                     ~ path_leads root (v_store v) (v_obj v) (v_rel v).
Proof. exact update_path_refuted. Qed.

(* ... what holds: the path is the store object's own segment followed by a path that does lead to the object
   (and the calls for own sources carry the empty path, which leads trivially: C17_update_exactly) *)
Theorem C17_update_path_partial : forall root p n v, wf_tree root -> addr root p = Some n ->
  nearest root [] (t_key root) p p = Some v ->
  v_rel v <> [] /\ path_leads root (v_store v) (v_obj v) (tl (v_rel v)).
Proof. exact update_path_partial. Qed.

(* Non-vacuity: sources on the root, on a list and on a list child; two schemes, one unknown. *)
Definition ex_reg : registry := [("scheme", 0%nat); ("s3", 1%nat)].
Definition ex_tree : tree :=
  Node C_Submodel "urn:a" (Some "smid") "scheme:root"
    [ Node C_SubmodelElementCollection "" (Some "c") ""
        [ Node C_SubmodelElementList "" (Some "l") "s3://b"
            [ Node C_SubmodelElementCollection "" None "" [ Node C_Property "" (Some "p") "scheme:p" [] ];
              Node C_SubmodelElementCollection "" None "nobackend:x" [] ] ] ].

Example C17_example :
  wf_tree ex_tree /\
  commit ex_reg ex_tree [0; 0; 0]%nat
    = Some ([ mkCall KCommit 1 [0; 0]%nat [0; 0; 0]%nat [Some "0"];
              mkCall KCommit 0 [] [0; 0; 0]%nat [Some "c"; Some "l"; Some "0"];
              mkCall KCommit 0 [0; 0; 0; 0]%nat [0; 0; 0; 0]%nat [] ], None) /\
  update ex_reg ex_tree [0; 0; 0]%nat true
    = Some ([ mkCall KUpdate 1 [0; 0]%nat [0; 0; 0]%nat [Some "l"; Some "0"];
              mkCall KUpdate 0 [0; 0; 0; 0]%nat [0; 0; 0; 0]%nat [] ], None) /\
  update ex_reg ex_tree [0; 0; 0]%nat false
    = Some ([ mkCall KUpdate 1 [0; 0]%nat [0; 0; 0]%nat [Some "l"; Some "0"] ], None) /\
  commit ex_reg ex_tree [0]%nat
    = Some ([ mkCall KCommit 0 [] [0]%nat [Some "c"]; mkCall KCommit 1 [0; 0]%nat [0; 0]%nat [];
              mkCall KCommit 0 [0; 0; 0; 0]%nat [0; 0; 0; 0]%nat [] ], Some BUnknownBackend) /\
  get_backend ex_reg "no scheme" = inl BValueError /\
  (* re-registration of scheme "scheme" between two commits of the same node with the same source URLs *)
  exec ex_reg ex_tree [OCommit [0; 0; 0; 0]%nat; ORegister "scheme" 7%nat; OCommit [0; 0; 0; 0]%nat]
    = [ Some ([ mkCall KCommit 1 [0; 0]%nat [0; 0; 0; 0]%nat [Some "0"; Some "p"];
                mkCall KCommit 0 [] [0; 0; 0; 0]%nat [Some "c"; Some "l"; Some "0"; Some "p"];
                mkCall KCommit 0 [0; 0; 0; 0]%nat [0; 0; 0; 0]%nat [] ], None);
        Some ([ mkCall KCommit 1 [0; 0]%nat [0; 0; 0; 0]%nat [Some "0"; Some "p"];
                mkCall KCommit 7 [] [0; 0; 0; 0]%nat [Some "c"; Some "l"; Some "0"; Some "p"];
                mkCall KCommit 7 [0; 0; 0; 0]%nat [0; 0; 0; 0]%nat [] ], None) ].
Proof.
  split; [exact (wf_treeb_sound ex_tree eq_refl)|]. vm_compute. repeat split; reflexivity.
Qed.
