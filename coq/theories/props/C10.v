(* C10 - HTTP repository answers every request history like a map from id to object.
   Only statements here; every theorem is closed by [exact <lemma>].
   Model: model/Http.v.  The reference repository is the association list [st_objs] read through
   [zlookup] (a map from identifier to object); the theorems say that the handlers create, read,
   replace, delete and list exactly as that map does.  Stated on the submodel repository routes;
   shells and concept descriptions go through the same store functions (store_add, store_remove,
   store_set) and are covered by the invariant theorems and by the correspondence runs. *)
From Coq Require Import List ZArith String.
From Basyx Require Import gen.Gen_HttpRoutes model.Files model.Http proofs.HttpProofs.
Import ListNotations.
Local Open Scope Z_scope.

(* created resources are retrievable at the returned Location *)
Theorem C10_created_then_readable : forall s x, zlookup (sm_id x) (st_objs s) = None ->
  let '(s1, r1) := handle s (post_sm x) in
  status r1 = 201 /\ location r1 = Some (LSm (sm_id x)) /\
  handle s1 (get_sm_rq (sm_id x)) = (s1, {| status := 200; rtype := AccJson; location := None; pay := PVal (VSm x) |}).
Proof. exact created_then_readable. Qed.

(* duplicates conflict (and change nothing) *)
Theorem C10_duplicate_conflicts : forall s x o, zlookup (sm_id x) (st_objs s) = Some o ->
  handle s (post_sm x) = (s, {| status := 409; rtype := AccJson; location := None; pay := PResult "Conflict" |}).
Proof. exact post_duplicate. Qed.

(* unknown resources are not found *)
Theorem C10_unknown_not_found : forall s i, (forall x, zlookup i (st_objs s) <> Some (OSm x)) ->
  handle s (get_sm_rq i) = (s, {| status := 404; rtype := AccJson; location := None; pay := PResult "NotFound" |}).
Proof. exact get_unknown. Qed.

(* known resources are answered with exactly the stored object *)
Theorem C10_read : forall s i x, zlookup i (st_objs s) = Some (OSm x) ->
  handle s (get_sm_rq i) = (s, {| status := 200; rtype := AccJson; location := None; pay := PVal (VSm x) |}).
Proof. exact get_existing. Qed.

(* deleted resources are gone *)
Theorem C10_deleted_then_gone : forall s i x, NoDup (map fst (st_objs s)) ->
  zlookup i (st_objs s) = Some (OSm x) -> sm_id x = i ->
  let '(s1, r1) := handle s (del_sm i) in
  status r1 = 204 /\ status (snd (handle s1 (get_sm_rq i))) = 404 /\ fst (handle s1 (get_sm_rq i)) = s1.
Proof. exact deleted_then_gone. Qed.

(* replaced content is what is read afterwards: the document merged into the stored object by
   update_from (attributes copied, qualifiers and nested elements merged by update_nss_from) - for a document that
   carries the id of the stored object, on in-memory and local-file backed stores alike ... *)
Theorem C10_replaced_then_read : forall s i x x', zlookup i (st_objs s) = Some (OSm x) -> sm_id x' = sm_id x ->
  let '(s1, r1) := handle s (put_sm i x') in
  status r1 = 204 /\
  pay (snd (handle s1 (get_sm_rq i))) =
    PVal (VSm {| sm_id := sm_id x'; sm_ids := sm_ids x'; sm_tok := sm_tok x';
                 sm_quals := merge_quals (sm_quals x) (sm_quals x');
                 sm_ch := update_children (sm_ch x) (sm_ch x') |}).
Proof. exact replaced_then_read. Qed.
(* ... for a document that carries another id, which no stored object has, the PUT re-keys the object as a map does:
   afterwards the old id is not found, the new id holds the updated object, every other id holds what it held ... *)
Theorem C10_rekeyed_then_read : forall s i x x', NoDup (map fst (st_objs s)) ->
  zlookup i (st_objs s) = Some (OSm x) -> sm_id x = i ->
  sm_id x' <> i -> zlookup (sm_id x') (st_objs s) = None ->
  let '(s1, r1) := handle s (put_sm i x') in
  status r1 = 204 /\
  handle s1 (get_sm_rq i) = (s1, {| status := 404; rtype := AccJson; location := None; pay := PResult "NotFound" |}) /\
  handle s1 (get_sm_rq (sm_id x')) =
    (s1, {| status := 200; rtype := AccJson; location := None;
            pay := PVal (VSm {| sm_id := sm_id x'; sm_ids := sm_ids x'; sm_tok := sm_tok x';
                                sm_quals := merge_quals (sm_quals x) (sm_quals x');
                                sm_ch := update_children (sm_ch x) (sm_ch x') |}) |}) /\
  (forall j, j <> i -> j <> sm_id x' -> zlookup j (st_objs s1) = zlookup j (st_objs s)).
Proof. exact rekeyed_then_read. Qed.
(* ... and an id that belongs to another stored object is refused with 409, nothing changed *)
Theorem C10_rekey_conflict : forall s i x x' o, zlookup i (st_objs s) = Some (OSm x) -> sm_id x = i ->
  sm_id x' <> i -> zlookup (sm_id x') (st_objs s) = Some o ->
  handle s (put_sm i x') = (s, {| status := 409; rtype := AccJson; location := None; pay := PResult "Conflict" |}).
Proof. exact rekey_conflict. Qed.
(* the hypotheses are satisfiable: a local-file backed store with the submodels 1 and 5; PUT of 1 with id 2 leaves the
   keys 5, 2; PUT of 1 with id 5 is refused *)
Example C10_rekey_example :
  (NoDup (map fst (st_objs rekey_state)) /\ zlookup 1 (st_objs rekey_state) = Some (OSm example_sm) /\
   zlookup 2 (st_objs rekey_state) = None /\ zlookup 5 (st_objs rekey_state) <> None) /\
  map fst (st_objs (fst (handle rekey_state (put_sm 1 (filter_sm 2 8))))) = [5; 2] /\
  handle rekey_state (put_sm 1 (filter_sm 5 8)) =
    (rekey_state, {| status := 409; rtype := AccJson; location := None; pay := PResult "Conflict" |}).
Proof. exact rekey_example. Qed.

(* every resource is filed under exactly its own identifier, after every request history (shells, submodels and concept
   descriptions; in-memory and local-file backed stores): every PUT of an Identifiable goes through
   WSGIApp._update_identifiable, which files the object anew when its id changes *)
Theorem C10_own_id : forall rs b k o, In (k, o) (st_objs (run (empty b) rs)) -> obj_id o = k.
Proof. exact own_ids_reachable. Qed.
(* e.g. after POST of submodel 1 and PUT of it with a document whose id is 2: the store holds the key 2 only, the old
   id answers 404 (DELETE), the new one is read *)
Example C10_own_id_example : forall b,
  map fst (st_objs (run (empty b) rename_history)) = [2] /\
  status (snd (handle (run (empty b) rename_history) delete_renamed)) = 404 /\
  pay (snd (handle (run (empty b) rename_history) (rq "/submodels/<base64url:submodel_id>" MGet (IdOk 2) BNoCtype))) = PVal (sm_doc 2).
Proof. exact rename_example. Qed.

(* following the paging cursor visits every element of a listing exactly once, for every limit > 0:
   the k-th page is what _get_slice answers for cursor = k*limit, its cursor is the next page's ... *)
Theorem C10_page_is_slice : forall A (l : list A) lim k q,
  q_limit q = QNat lim -> q_cursor q = (match k with O => QAbsent | _ => QNat (k * lim) end) ->
  get_slice q l = Ok (page lim l k, ((k * lim) + lim)%nat).
Proof. exact get_slice_page. Qed.
(* ... and the concatenation of the pages is the listing *)
Theorem C10_paging : forall A (l : list A) lim n, (0 < lim)%nat -> (List.length l <= n * lim)%nat ->
  List.concat (map (page lim l) (seq 0 n)) = l.
Proof. exact paging_complete. Qed.

(* a filter (idShort) is applied to the listing BEFORE it is paged: the k-th page of a filtered listing of submodels /
   shells is the k-th page of the matching objects, and the pages together are exactly the matching objects *)
Theorem C10_filtered_page_submodels : forall s lim k q,
  q_semid q = None ->
  q_limit q = QNat lim -> q_cursor q = (match k with O => QAbsent | _ => QNat (k * lim) end) ->
  get_submodels s q = Ok (page lim (filter (fun x => ids_match (q_idshort q) (sm_ids x)) (sms_of s)) k, ((k * lim) + lim)%nat).
Proof. exact get_submodels_filtered_page. Qed.
Theorem C10_filtered_page_shells : forall s lim k q,
  q_assetids q = [] ->
  q_limit q = QNat lim -> q_cursor q = (match k with O => QAbsent | _ => QNat (k * lim) end) ->
  get_shells s q = Ok (page lim (filter (fun x => ids_match (q_idshort q) (sh_ids x)) (shells_of s)) k, ((k * lim) + lim)%nat).
Proof. exact get_shells_filtered_page. Qed.
Example C10_filtered_page_example :
  (q_semid (filter_query 1) = None) /\
  (map (fun k => match get_submodels filter_state (filter_query k) with Ok (l, c) => (map sm_id l, c) | Exc _ => ([], 0%nat) end) [0; 1; 2]%nat
   = [([1], 1%nat); ([3], 2%nat); ([], 3%nat)]).
Proof. exact filtered_page_example. Qed.
Theorem C10_filtered_paging : forall A (f : A -> bool) (l : list A) lim n, (0 < lim)%nat -> (List.length l <= n * lim)%nat ->
  List.concat (map (page lim (filter f l)) (seq 0 n)) = filter f l.
Proof. exact filtered_paging_complete. Qed.

(* every handler that changes live objects commits them (finite check over the generated call
   table), so on a backed store the change is what the next request reads *)
Theorem C10_mutators_commit : forall fn s s', In fn mutators -> persist fn s s' = s'.
Proof. exact persist_committed. Qed.

Example C10_example_history :
  let rs := [post_sm example_sm; put_sm 1 example_sm; get_sm_rq 1; del_sm 1; get_sm_rq 1] in
  st_objs (run (empty true) rs) = [] /\
  map (fun r => status (snd (handle (run (empty true) [post_sm example_sm]) r))) rs = [409; 204; 200; 204; 200].
Proof. exact example_history. Qed.
