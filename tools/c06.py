"""C06 - XSD simple values keep their value and type through the lexical mapping.

theorems: coq/theories/props/C06.v over gen/Gen_XsdTables.v (tie T: regenerated from datatypes.py on
every run) and the hand-written models model/Xsd*.v (tie C: from_xsd / xsd_repr / constructors run on
the SDK and on the model on the same values and literals); oracle: from_xsd(xsd_repr(v), T) == v, an
independent XSD 1.1 lexical validator written with Python's `re`, rejection of invalid literals and
values, the one-to-one name table, and the value/valueType members of serialised Properties."""
import datetime
import decimal
import json
import math
import os
import re
import struct

import common
from common import coq_str, coq_z

THEOREMS = [
    "C06_names", "C06_names_one_to_one", "C06_int_ranges", "C06_int_bounds",
    "C06_int_roundtrip", "C06_int_print_valid", "C06_int_reject_literal", "C06_int_accept_exact",
    "C06_int_reject_value",
    "C06_boolean", "C06_boolean_reject_literal",
    "C06_zone_offsets", "C06_zone_out_of_range", "C06_zone_subminute_rejected", "C06_zone_whole_minutes",
    "C06_zone_accepted_is_whole", "C06_date_roundtrip", "C06_time_roundtrip", "C06_datetime_roundtrip",
    "C06_microseconds", "C06_date_reject_literal", "C06_time_reject_literal", "C06_datetime_reject_literal",
    "C06_g_value_spaces", "C06_gyear_roundtrip", "C06_gyearmonth_roundtrip", "C06_gmonthday_roundtrip",
    "C06_gday_roundtrip", "C06_gmonth_roundtrip", "C06_g_reject_literal",
    "C06_string_roundtrip", "C06_normalizedstring_roundtrip", "C06_normalizedstring_reject",
    "C06_hex_roundtrip", "C06_hex_reject_literal", "C06_base64_roundtrip",
    "C06_duration_roundtrip", "C06_duration_mixed_signs", "C06_decimal_roundtrip", "C06_decimal_same_number",
    "C06_decimal_reject_literal", "C06_float_roundtrip",
    "C06_base64_reject_literal", "C06_duration_reject_literal", "C06_float_reject_literal",
]

# ---------------------------------------------------------------------------------------------
# the 31 types: id used by model/XsdObs.v, SDK class name, XSD name (XML Schema Part 2)
TYPES = [
    (0, "Integer", "integer"), (1, "Long", "long"), (2, "Int", "int"), (3, "Short", "short"), (4, "Byte", "byte"),
    (5, "NonPositiveInteger", "nonPositiveInteger"), (6, "NegativeInteger", "negativeInteger"),
    (7, "NonNegativeInteger", "nonNegativeInteger"), (8, "PositiveInteger", "positiveInteger"),
    (9, "UnsignedLong", "unsignedLong"), (10, "UnsignedInt", "unsignedInt"), (11, "UnsignedShort", "unsignedShort"),
    (12, "UnsignedByte", "unsignedByte"), (13, "Boolean", "boolean"), (14, "Date", "date"), (15, "Time", "time"),
    (16, "DateTime", "dateTime"), (17, "GYearMonth", "gYearMonth"), (18, "GYear", "gYear"),
    (19, "GMonthDay", "gMonthDay"), (20, "GDay", "gDay"), (21, "GMonth", "gMonth"), (22, "String", "string"),
    (23, "AnyURI", "anyURI"), (24, "NormalizedString", "normalizedString"), (25, "HexBinary", "hexBinary"),
    (26, "Base64Binary", "base64Binary"), (27, "Duration", "duration"), (28, "Decimal", "decimal"),
    (29, "Float", "float"), (30, "Double", "double"),
]
TID = {n: t for t, n, _ in TYPES}
INT_BOUNDS = {
    "Integer": (None, None), "Long": (-2**63, 2**63 - 1), "Int": (-2**31, 2**31 - 1), "Short": (-2**15, 2**15 - 1),
    "Byte": (-128, 127), "NonPositiveInteger": (None, 0), "NegativeInteger": (None, -1),
    "NonNegativeInteger": (0, None), "PositiveInteger": (1, None), "UnsignedLong": (0, 2**64 - 1),
    "UnsignedInt": (0, 2**32 - 1), "UnsignedShort": (0, 2**16 - 1), "UnsignedByte": (0, 255),
}


def D():
    from basyx.aas.model import datatypes
    return datatypes


def cls_of(name):
    return getattr(D(), name)


# ---------------------------------------------------------------------------------------------
# independent XSD 1.1 lexical validator (XML Schema 1.1 Part 2, the regular expressions of 3.3.x)
_TZ = r"(Z|(\+|-)((0[0-9]|1[0-3]):[0-5][0-9]|14:00))"
_YEAR = r"-?([1-9][0-9]{3,}|0[0-9]{3})"
_MON = r"(0[1-9]|1[0-2])"
_DAY = r"(0[1-9]|[12][0-9]|3[01])"
_TOD = r"(([01][0-9]|2[0-3]):[0-5][0-9]:[0-5][0-9](\.[0-9]+)?|(24:00:00(\.0+)?))"
_DUT = r"(T(([0-9]+H)([0-9]+M)?([0-9]+(\.[0-9]+)?S)?|([0-9]+M)([0-9]+(\.[0-9]+)?S)?|([0-9]+(\.[0-9]+)?S)))"
XSD_RE = {
    "integer": r"[\-+]?[0-9]+",
    "boolean": r"true|false|1|0",
    "date": _YEAR + "-" + _MON + "-" + _DAY + _TZ + "?",
    "time": _TOD + _TZ + "?",
    "dateTime": _YEAR + "-" + _MON + "-" + _DAY + "T" + _TOD + _TZ + "?",
    "gYearMonth": _YEAR + "-" + _MON + _TZ + "?",
    "gYear": _YEAR + _TZ + "?",
    "gMonthDay": "--" + _MON + "-" + _DAY + _TZ + "?",
    "gDay": "---" + _DAY + _TZ + "?",
    "gMonth": "--" + _MON + _TZ + "?",
    "duration": r"-?P((([0-9]+Y([0-9]+M)?([0-9]+D)?|([0-9]+M)([0-9]+D)?|([0-9]+D))" + _DUT + "?)|" + _DUT + ")",
    "hexBinary": r"([0-9a-fA-F]{2})*",
    "base64Binary": r"((([A-Za-z0-9+/] ?){4})*(([A-Za-z0-9+/] ?){3}[A-Za-z0-9+/]|([A-Za-z0-9+/] ?){2}"
                    r"[AEIMQUYcgkosw048] ?=|[A-Za-z0-9+/] ?[AQgw] ?= ?=))?",
    "decimal": r"(\+|-)?([0-9]+(\.[0-9]*)?|\.[0-9]+)",
    "float": r"(\+|-)?([0-9]+(\.[0-9]*)?|\.[0-9]+)([Ee](\+|-)?[0-9]+)?|(\+|-)?INF|NaN",
}
XSD_RE["double"] = XSD_RE["float"]
XSD_CRE = {k: re.compile(v) for k, v in XSD_RE.items()}


def collapse(s):
    s = re.sub("[\t\n\r]", " ", s)
    s = re.sub(" +", " ", s)
    return s.strip(" ")


def _leap(y):
    return (y % 4 == 0 and y % 100 != 0) or y % 400 == 0


def py_valid(name, s):
    """is s a literal of XSD type `name` (lexical space incl. the whiteSpace facet and value-space bounds)?"""
    xs = dict((n, x) for _, n, x in TYPES)[name]
    if xs in ("string", "anyURI"):
        return True
    if xs == "normalizedString":
        return not any(c in s for c in "\r\n\t")
    t = collapse(s)
    if name in INT_BOUNDS:
        if not XSD_CRE["integer"].fullmatch(t):
            return False
        lo, hi = INT_BOUNDS[name]
        v = int(t)
        return (lo is None or lo <= v) and (hi is None or v <= hi)
    if not XSD_CRE[xs].fullmatch(t):
        return False
    if xs in ("date", "dateTime"):
        body = t[1:] if t.startswith("-") else t
        y, rest = body.split("-", 1)
        y, m, d = int(y), int(rest[0:2]), int(rest[3:5])
        if m in (4, 6, 9, 11):
            return d <= 30
        if m == 2:
            return d <= (29 if _leap(y) else 28)
    if xs == "gMonthDay":
        m, d = int(t[2:4]), int(t[5:7])
        if m in (4, 6, 9, 11):
            return d <= 30
        if m == 2:
            return d <= 29
    return True


# ---------------------------------------------------------------------------------------------
# observations (canonical lists of integers)

def enc_tz(tzinfo, ref=None):
    if tzinfo is None:
        return [0, 0]
    off = tzinfo.utcoffset(ref)
    secs = off.days * 86400 + off.seconds
    if off.microseconds or secs % 60:
        return [7, secs]          # not representable in the model; such values are never generated
    return [1, secs // 60]


def enc_value(name, v):
    d = D()
    if name in INT_BOUNDS:
        return [int(v)]
    if name == "Boolean":
        return [1 if v else 0]
    if name == "Date":
        return [v.year, v.month, v.day] + enc_tz(v.tzinfo)
    if name == "Time":
        return [v.hour, v.minute, v.second, v.microsecond] + enc_tz(v.tzinfo)
    if name == "DateTime":
        return [v.year, v.month, v.day, v.hour, v.minute, v.second, v.microsecond] + enc_tz(v.tzinfo)
    if name == "GYearMonth":
        return [v.year, v.month] + enc_tz(v.tzinfo)
    if name == "GYear":
        return [v.year] + enc_tz(v.tzinfo)
    if name == "GMonthDay":
        return [v.month, v.day] + enc_tz(v.tzinfo)
    if name == "GDay":
        return [v.day] + enc_tz(v.tzinfo)
    if name == "GMonth":
        return [v.month] + enc_tz(v.tzinfo)
    if name in ("String", "AnyURI", "NormalizedString"):
        return list(str(v).encode("utf-8", "surrogatepass"))
    if name in ("HexBinary", "Base64Binary"):
        return list(bytes(v))
    if name == "Duration":
        return [v.years, v.months, v.days, v.hours, v.minutes, v.seconds, v.microseconds]
    if name == "Decimal":
        sign, digits, exp = v.as_tuple()
        if not isinstance(exp, int):
            return [8]
        return [sign, int("".join(map(str, digits)) or "0"), exp]
    if name in ("Float", "Double"):
        return [1 if math.isnan(v) else 2 if v == math.inf else 3 if v == -math.inf else 0]
    raise AssertionError(name)


def enc_exc(e):
    return [1] if isinstance(e, ValueError) else [2] if isinstance(e, TypeError) else [99, type(e).__name__]


def sdk_parse(name, lit):
    """observation of from_xsd(lit, T); also returns the value (or None)"""
    try:
        v = D().from_xsd(lit, cls_of(name))
    except Exception as e:  # noqa
        return enc_exc(e), None, e
    if name in ("Float", "Double") and math.isinf(v) and "INF" not in lit:
        return [0, 0], v, None      # a number literal beyond the binary64 range: the model only knows "number literal"
    return [0] + enc_value(name, v), v, None


def sdk_print(v):
    try:
        s = D().xsd_repr(v)
    except Exception as e:  # noqa
        return enc_exc(e), None
    return [0] + list(s.encode("utf-8", "surrogatepass")), s


def mk_tz(t):
    """t: None, whole minutes (int), or ("us", n) = an offset of n microseconds (what datetime.timezone can hold)"""
    if t is None:
        return None
    if isinstance(t, tuple):
        return datetime.timezone(datetime.timedelta(microseconds=t[1]))
    return datetime.timezone(datetime.timedelta(minutes=t))


def tz_us(t):
    """the offset in microseconds (None for no zone)"""
    return None if t is None else t[1] if isinstance(t, tuple) else t * 60000000


def tz_in_space(t):
    """XSD: whole minutes from -14:00 to +14:00"""
    u = tz_us(t)
    return u is None or (u % 60000000 == 0 and abs(u) <= 840 * 60000000)


TZ_FIELD = {"Date": 3, "Time": 4, "DateTime": 7, "GYearMonth": 2, "GMonthDay": 2, "GYear": 1, "GDay": 1, "GMonth": 1}


def build_value(name, f):
    """value of type `name` from model-style fields; raises what the SDK constructor raises"""
    d = D()
    c = cls_of(name)
    if name in INT_BOUNDS:
        return c(f[0])
    if name == "Boolean":
        return bool(f[0])
    if name == "Date":
        return d.Date(f[0], f[1], f[2], mk_tz(f[3]))
    if name == "Time":
        return datetime.time(f[0], f[1], f[2], f[3], mk_tz(f[4]))
    if name == "DateTime":
        return datetime.datetime(f[0], f[1], f[2], f[3], f[4], f[5], f[6], mk_tz(f[7]))
    if name in ("GYearMonth", "GMonthDay"):
        return c(f[0], f[1], mk_tz(f[2]))
    if name in ("GYear", "GDay", "GMonth"):
        return c(f[0], mk_tz(f[1]))
    if name in ("String", "AnyURI", "NormalizedString"):
        return c(f[0])
    if name in ("HexBinary", "Base64Binary"):
        return c(f[0])
    if name == "Duration":
        if len(f) == 8:
            # "raw": the fields are assigned on an existing object, as a client may do; nothing normalises them then
            # (hours=25, minutes=90, months=13 stay as they are; days/hours/minutes/seconds may be fractions)
            v = d.Duration()
            v.years, v.months, v.days, v.hours, v.minutes, v.seconds, v.microseconds = f[:7]
            return v
        return d.Duration(years=f[0], months=f[1], days=f[2], hours=f[3], minutes=f[4], seconds=f[5], microseconds=f[6])
    if name == "Decimal":
        return f[0]
    if name in ("Float", "Double"):
        return c(f[0])
    raise AssertionError(name)


def model_args_us(name, f):
    """mode 7 (print with the zone offset in microseconds): fields ++ [flag, offset]"""
    i = TZ_FIELD[name]
    u = tz_us(f[i])
    return list(f[:i]) + ([0, 0] if u is None else [1, u])


def model_args(name, f):
    """the integer arguments of mode 1 (print) for model/XsdObs.run_print"""
    def tz(t):
        return [0, 0] if t is None else [1, t]
    if name in TZ_FIELD and isinstance(f[TZ_FIELD[name]], tuple):
        return None
    if name in INT_BOUNDS or name == "Boolean":
        return [int(f[0])]
    if name in ("Date",):
        return list(f[:3]) + tz(f[3])
    if name == "Time":
        return list(f[:4]) + tz(f[4])
    if name == "DateTime":
        return list(f[:7]) + tz(f[7])
    if name in ("GYearMonth", "GMonthDay"):
        return list(f[:2]) + tz(f[2])
    if name in ("GYear", "GDay", "GMonth"):
        return [f[0]] + tz(f[1])
    if name in ("String", "AnyURI", "NormalizedString"):
        return list(f[0].encode("utf-8", "surrogatepass"))
    if name in ("HexBinary", "Base64Binary"):
        return list(f[0])
    if name == "Duration":
        # the model has integer fields; it applies relativedelta's carrying itself, so raw integer fields are fine
        return list(f[:7]) if all(isinstance(x, int) for x in f[:7]) else None
    if name == "Decimal":
        sign, digits, exp = f[0].as_tuple()
        return [sign, int("".join(map(str, digits)) or "0"), exp]
    return None


# ---------------------------------------------------------------------------------------------
# generators (everything from chk.rng)

TZ_EDGE = [None, None, 0, 1, -1, 59, -59, 60, -60, 90, 330, -570, 719, 720, -720, 721, 779, 780, -780, 839, 840, -840]
TZ_OUT = [841, -841, 900, -900, 1439, -1439]
US_EDGE = [0, 0, 1, 9, 10, 99, 100, 4999, 57, 1001, 8191, 16383, 99999, 100000, 250000, 500000, 999990, 999999,
           # values on which int(float('.%06d' % us) * 1e6) != us on CPython (the pre-repair expression)
           17, 33, 35, 66, 70, 129, 140, 251, 1005, 1009, 2010, 4019, 8193]
YEAR_EDGE = [1, 2, 9, 10, 99, 100, 999, 1000, 1900, 1999, 2000, 2020, 2024, 2100, 2400, 9998, 9999]


# offsets that are no whole number of minutes: seconds and/or microseconds left over, also just beyond +-14:00
_SUB_EXTRA = [1, 500, 999999, 1000000, 30000000, 59000000, 59999999, 1000001, 30000500]
TZ_SUB = sorted({("us", sg * (m * 60000000 + x)) for m in (0, 1, 60, 330, 839, 840, 1439) for x in _SUB_EXTRA
                 for sg in (1, -1) if m * 60000000 + x < 86400000000}, key=lambda t: t[1])
# whole-minute offsets given with microsecond resolution (the same values as the int-minute pool)
TZ_WHOLE_US = [("us", m * 60000000) for m in (0, 1, -1, 60, -570, 840, -840, 841, -841, 1439)]


def gen_tz(rng, allow_out=True):
    r = rng.random()
    if r < 0.50:
        return rng.choice(TZ_EDGE)
    if r < 0.57 and allow_out:
        return rng.choice(TZ_OUT)
    if r < 0.69 and allow_out:
        return rng.choice(TZ_SUB)
    if r < 0.73:
        return rng.choice(TZ_WHOLE_US)
    return rng.randint(-840, 840)


def gen_us(rng):
    return rng.choice(US_EDGE) if rng.random() < 0.5 else rng.randrange(1000000)


def gen_year(rng):
    return rng.choice(YEAR_EDGE) if rng.random() < 0.6 else rng.randint(1, 9999)


def dim(y, m):
    return 29 if m == 2 and _leap(y) else 28 if m == 2 else 30 if m in (4, 6, 9, 11) else 31


def gen_md(rng, y):
    m = rng.randint(1, 12) if rng.random() < 0.7 else rng.choice([1, 2, 2, 12])
    d = rng.choice([1, dim(y, m), rng.randint(1, dim(y, m))])
    return m, d


def gen_int(rng, name):
    lo, hi = INT_BOUNDS[name]
    cand = [0, 1, -1, 9, 10, -10, 127, 128, -128, -129, 255, 256, 2**15, 2**16, 2**31, 2**32 - 1, 2**32, 2**63, -2**63 - 1, 2**64,
            2**64 - 1, -2**31 - 1, 10**18, 10**19, 10**30, -10**30]
    for b in (lo, hi):
        if b is not None:
            cand += [b - 1, b, b + 1] * 3
    r = rng.random()
    if r < 0.6:
        return rng.choice(cand)
    if r < 0.8:
        return rng.randint(-300, 300)
    return rng.randint(-2**70, 2**70)


STR_POOL = ["", "a", "abc", " a b ", "a\tb", "a\nb", "a\rb", "\t", "x" * 40, "\u00e9", "\u20ac", "a\u00a0b", "\U0001f600",
            "\x00", "\x0b\x0c", "<&>\"'", "http://example.com/a?b=c#d", "  ", "1_0", "\ufffe"]


def gen_str(rng):
    if rng.random() < 0.5:
        return rng.choice(STR_POOL)
    alpha = "ab Z09\t\n\r-_:/?#\u00e4\u4e2d\x7f\x01"
    return "".join(rng.choice(alpha) for _ in range(rng.randint(0, 12)))


def gen_bytes(rng):
    n = rng.choice([0, 1, 2, 3, 4, 5, 6, 7, 9, 16, rng.randint(0, 24)])
    if rng.random() < 0.2:
        return bytes([rng.choice([0, 255, 0xfb, 0xff, 0x3e, 0x3f])] * n)
    return bytes(rng.randrange(256) for _ in range(n))


def gen_duration_fields(rng):
    def f(edges, big):
        r = rng.random()
        if r < 0.45:
            return 0
        if r < 0.85:
            return rng.choice(edges)
        return rng.randint(0, big)
    mag = [f([1, 11, 12, 13, 24, 112], 3000), f([1, 11, 12, 13, 1347], 3000), f([1, 30, 31, 365, 2**53 + 1], 10**6),
           f([1, 23, 24, 25, 48], 200), f([1, 59, 60, 61, 120], 5000), f([1, 30, 59, 60, 61, 3600], 100000),
           f(US_EDGE + [1000000, 1000001, 59999999, 60000000], 2 * 10**6)]
    if rng.random() < 0.15:
        mag[0] = rng.choice([2**53 + 1, 2**64, 10**20])
    r = rng.random()
    if r < 0.30:
        # fields assigned after construction: un-normalised integers and fractions of days/hours/minutes/seconds
        raw = [rng.choice([0, 0, 1, 2]), rng.choice([0, 0, 5, 12, 13, 25]), rng.choice([0, 0, 1, 0.5, 1.5, 0.25, 0.1, 40]),
               rng.choice([0, 0, 1, 24, 25, 49, 1.5, 0.5, 0.75, 23.5]), rng.choice([0, 0, 59, 60, 90, 2.25, 0.5, 61.5]),
               rng.choice([0, 0, 59, 60, 3600, 3600.5, 1.25, 0.000001, 86399.999999]), rng.choice([0, 0, 1, 999999, 1000000, 1500000])]
        if rng.random() < 0.08:
            raw[rng.randrange(2)] = rng.choice([0.5, 1.5])           # fractional years/months: ambiguous, must be refused
        sg = rng.random()
        if sg < 0.4:
            raw = [-x for x in raw]
        elif sg < 0.5:
            raw = [x if rng.random() < 0.5 else -x for x in raw]
        return raw + ["raw"]
    if r < 0.45:
        return mag
    if r < 0.85:
        return [-x for x in mag]
    return [x if rng.random() < 0.5 else -x for x in mag]     # mixed signs: must be refused


def gen_decimal(rng):
    r = rng.random()
    if r < 0.08:
        return decimal.Decimal(rng.choice(["NaN", "Infinity", "-Infinity", "sNaN"]))
    sign = rng.randrange(2)
    coef = rng.choice([0, 0, 1, 5, 10, 100, 12345, 999999, 10**20 + 1, rng.randrange(10**9), rng.randrange(10**30)])
    exp = rng.choice([0, 0, -1, 1, -2, 2, -6, 5, -7, -10, 10, 28, -28, 40, -40, rng.randint(-60, 60)])
    digits = tuple(int(c) for c in str(coef))
    return decimal.Decimal((sign, digits, exp))


def gen_float(rng):
    r = rng.random()
    if r < 0.1:
        return rng.choice([math.nan, math.inf, -math.inf])
    if r < 0.4:
        return rng.choice([0.0, -0.0, 1.0, -1.0, 0.1, 5.1, -7.0, 1e-5, 1e16, 1e22, 1e23, 5e-324, 2.2250738585072014e-308,
                           1.7976931348623157e308, 4.9406564584124654e-324, 1e-7, 123456789.123456789, 0.30000000000000004,
                           9007199254740993.0, 1e300, -1e-300, 3.4028234663852886e38, 1.401298464324817e-45])
    if r < 0.7:
        return struct.unpack("<d", struct.pack("<Q", rng.getrandbits(64)))[0]
    if r < 0.8:
        return struct.unpack("<d", struct.pack("<Q", rng.getrandbits(52)))[0]      # subnormals
    return rng.uniform(-1e6, 1e6)


def gen_fields(rng, name):
    """model-style fields of a value of type `name` (mostly inside, sometimes outside the value space)"""
    if name in INT_BOUNDS:
        return [gen_int(rng, name)]
    if name == "Boolean":
        return [rng.randrange(2)]
    if name == "Date":
        y = gen_year(rng)
        m, d = gen_md(rng, y)
        return [y, m, d, gen_tz(rng)]
    if name == "Time":
        return [rng.choice([0, 23, rng.randint(0, 23)]), rng.choice([0, 59, rng.randint(0, 59)]),
                rng.choice([0, 59, rng.randint(0, 59)]), gen_us(rng), gen_tz(rng)]
    if name == "DateTime":
        y = gen_year(rng)
        m, d = gen_md(rng, y)
        return [y, m, d, rng.choice([0, 23, rng.randint(0, 23)]), rng.choice([0, 59, rng.randint(0, 59)]),
                rng.choice([0, 59, rng.randint(0, 59)]), gen_us(rng), gen_tz(rng)]
    if name == "GYearMonth":
        return [gen_year(rng) if rng.random() < 0.85 else rng.choice([0, -5, 10000, 12345]),
                rng.randint(1, 12) if rng.random() < 0.9 else rng.choice([0, 13, -1]), gen_tz(rng)]
    if name == "GYear":
        return [gen_year(rng) if rng.random() < 0.85 else rng.choice([0, -5, 10000, 12345]), gen_tz(rng)]
    if name == "GMonthDay":
        if rng.random() < 0.85:
            m = rng.randint(1, 12)
            return [m, rng.choice([1, dim(2000, m), rng.randint(1, dim(2000, m))]), gen_tz(rng)]
        return rng.choice([[2, 30], [2, 31], [4, 31], [6, 31], [9, 31], [11, 31], [0, 1], [13, 1], [1, 0], [1, 32]]) + [gen_tz(rng)]
    if name == "GDay":
        return [rng.choice([1, 9, 10, 28, 29, 30, 31, rng.randint(1, 31)]) if rng.random() < 0.9 else rng.choice([0, 32, -1]),
                gen_tz(rng)]
    if name == "GMonth":
        return [rng.randint(1, 12) if rng.random() < 0.9 else rng.choice([0, 13, -1]), gen_tz(rng)]
    if name in ("String", "AnyURI", "NormalizedString"):
        return [gen_str(rng)]
    if name in ("HexBinary", "Base64Binary"):
        return [gen_bytes(rng)]
    if name == "Duration":
        return gen_duration_fields(rng)
    if name == "Decimal":
        return [gen_decimal(rng)]
    if name in ("Float", "Double"):
        return [gen_float(rng)]
    raise AssertionError(name)


def in_value_space(name, f):
    """independent statement of the XSD value space (within the domain the property quantifies over)"""
    tz_ok = tz_in_space
    if name in INT_BOUNDS:
        lo, hi = INT_BOUNDS[name]
        return (lo is None or lo <= f[0]) and (hi is None or f[0] <= hi)
    if name in ("Date", "Time", "DateTime"):
        return tz_ok(f[-1])           # the stdlib constructors already refuse bad fields
    if name == "GYearMonth":
        return 1 <= f[1] <= 12 and tz_ok(f[2])
    if name == "GYear":
        return tz_ok(f[1])
    if name == "GMonthDay":
        return 1 <= f[0] <= 12 and 1 <= f[1] <= dim(2000, f[0]) and tz_ok(f[2])
    if name == "GDay":
        return 1 <= f[0] <= 31 and tz_ok(f[1])
    if name == "GMonth":
        return 1 <= f[0] <= 12 and tz_ok(f[1])
    if name == "NormalizedString":
        return not any(c in f[0] for c in "\r\n\t")
    if name == "Duration":
        # the value is what the relativedelta constructor makes of the arguments (it carries overflows upwards)
        try:
            v = build_value(name, f).normalized()
        except ValueError:
            return False          # relativedelta refuses non-integral years/months ("ambiguous")
        nz = [x for x in (v.years, v.months, v.days, v.hours, v.minutes, v.seconds, v.microseconds) if x]
        return all(x > 0 for x in nz) or all(x < 0 for x in nz)
    if name == "Decimal":
        return f[0].is_finite()
    return True


def in_domain(name, f):
    """the domain of the property's quantifier: years 1..9999"""
    if name in ("GYearMonth", "GYear"):
        return 1 <= f[0] <= 9999
    return True


# ---- literals
ALPHA = "0123456789-+:.TZPYMDHSeE_ \n\t=/aAfFgQwxINn"
EXOTIC = ["\u0661\u0662", "\x0c5", "\uff15", "\u00a05", "5\u2009", "1_0", "0x1f", "1e3", "١٢:٠٠:٠٠", "٢٠٢٠", "--٠٧", "P١Y",
          "nan", "NAN", "inf", "Infinity", "-inf", "+INF", "INF", "-INF", "NaN", "1E+5", "1_0.5", "sNaN", "", " ", "\n",
          "TRUE", "True", " true", "true ", "1 ", "P", "PT", "P1YT", "-P", "P-1Y", "PT1.S", "PT.5S", "P1Y2M3DT4H5M6.7S",
          "P0Y", "PT0S", "-PT0.000001S", "PT0.0000005S", "P1M2Y", "PT1H1H", "P1D1M", "P1.5Y", "PT5", "P5",
          "24:00:00", "23:59:60", "00:00:00.", "00:00:00.9999999", "12:00:00+14:01", "12:00:00+15:00", "12:00:00+01:75",
          "12:00:00-14:00", "12:00:00+14:00", "12:00:00-00:00", "12:00:00z", "2000-01-01T24:00:00", "0000-01-01",
          "2000-02-30", "1900-02-29", "2000-02-29", "2100-02-29Z", "12000-01-01", "-2000-01-01", "2000-1-1", "2000-01-01+13:00",
          "2000-01-01\n", "2000-01-01\n\n", " 2000-01-01", "0000", "12345", "24:30:00", "24:00:01", "24:00:00.000001", "24:00:00.0", "24:00:00Z", "24:00:00+14:00", "24:01:00-05:00",
          "2020-01-31T24:30:00", "2020-01-31T24:00:00.5", "2020-01-31T24:00:01", "2020-12-31T24:00:00", "9999-12-31T24:00:00",
          "2020-02-29T24:00:00+14:00", "2020-02-28T24:00:00.000Z", "25:00:00", "2020-01-01T25:00:00",
          "99999999999-01-01", "2147483648-12-31Z", "99999999999-01-01T00:00:00",
          "10000-01-01T12:00:00+01:00", "4294967296", "99999999999-05", "12000-02-30", "100000-01", "-0001", "999", "2020\n", "--02-30", "--02-29",
          "--04-31", "--13-01", "---00", "---32", "---31+14:00", "--00", "--12Z", "--12--", "aGk=", "aGl=", "aGk", "a Gk =",
          "!!aGk=", "aGk=\n", "aQ==", "aR==", "a===", "====", "YWJj", "YWJj YWJj", "=aGk", "ab cd", "AB", "aB", "abc", "0g",
          " abcd ", "ab\ncd", "1.", ".5", ".", "+.5", "-0", "+0", "-0.0", "00012", "1,5", "1 000", "١", "0.1e1", "1e", "e1",
          "1.5E-3", "1E400", "4.9E-324", "5.E3", ".E3", "--5", "+-5", "5-", "+", "-"]


def mutate(rng, s):
    if not s:
        return rng.choice(ALPHA)
    k = rng.randrange(7)
    i = rng.randrange(len(s))
    if k == 0:
        return s[:i] + s[i + 1:]
    if k == 1:
        return s[:i] + rng.choice(ALPHA) + s[i:]
    if k == 2:
        return s[:i] + rng.choice(ALPHA) + s[i + 1:]
    if k == 3:
        return s[:i]
    if k == 4:
        return s + rng.choice(ALPHA)
    if k == 5:
        return rng.choice([" ", "\n", "\t", "\r", "  ", "\x0b", "\x0c"]) + s + rng.choice(["", " ", "\n", "\r\n", "\x0c"])
    j = rng.randrange(len(s))
    i, j = min(i, j), max(i, j)
    return s[:i] + s[j:i:-1] + s[i:i + 1] + s[j + 1:] if j > i else s + s


LONG_YEARS = ["10000", "12000", "99999", "100000", "2147483647", "2147483648", "4294967296", "99999999999", "999999999999",
              "9223372036854775808", "00002020", "000000000001"]
NONASCII_DIGITS = ["\u0660\u0661\u0662\u0663\u0664\u0665\u0666\u0667\u0668\u0669",      # Arabic-Indic
                   "\uff10\uff11\uff12\uff13\uff14\uff15\uff16\uff17\uff18\uff19",      # fullwidth
                   "\u0966\u0967\u0968\u0969\u096a\u096b\u096c\u096d\u096e\u096f"]      # Devanagari


def variants(rng, name, s):
    """other spellings of the same value: XSD-legal ones (blanks, sign, zeros, case) and Python-only ones
    (decimal digits of other scripts, underscores, exotic blanks) - the oracle knows which is which"""
    out = [s + "\n", " " + s + " ", "\t" + s + "\r\n", "\x0c" + s, s + "\u00a0"]
    tbl = rng.choice(NONASCII_DIGITS)
    if any(c.isdigit() for c in s):
        out += ["".join(tbl[int(c)] if c in "0123456789" else c for c in s)]
        i = rng.choice([k for k, c in enumerate(s) if c in "0123456789"])
        out += [s[:i] + tbl[int(s[i])] + s[i + 1:], s[:i + 1] + "_" + s[i + 1:]]
    if name in INT_BOUNDS or name in ("Decimal", "Float", "Double"):
        out += ["+" + s if not s.startswith("-") else s, ("-000" + s[1:]) if s.startswith("-") else "000" + s]
    if name in ("Date", "DateTime", "GYear", "GYearMonth") and re.match(r"\d{4}", s):
        # XSD allows more than four year digits; datetime ends at 9999 - such literals must be refused with ValueError
        out += [y + s[4:] for y in (rng.choice(LONG_YEARS), rng.choice(LONG_YEARS), "0" + s[:4], "-" + s[:4])]
    if name in ("Time", "DateTime"):
        # hour 24: XSD knows exactly 24:00:00(.0+)? (the end of the day = 00:00:00 of the next day); every other
        # time of day with hour 24 is no literal
        m = re.search(r"(\d\d):(\d\d):(\d\d)(\.\d+)?", s)
        if m:
            mm, ss = m.group(2), m.group(3)
            if mm == "00" and ss == "00":
                mm = "30"
            out += [s[:m.start()] + t + s[m.end():] for t in
                    ("24:00:00", "24:00:00.000", "24:%s:%s" % (mm, ss), "24:00:%s" % (ss if ss != "00" else "01"),
                     "24:00:00.5", "24:00:00.000001", "24:59:59.999999", "25:00:00")]
    if name in ("Time", "DateTime") and "." not in s:
        out += [re.sub(r"(\d\d:\d\d:\d\d)", r"\1.5", s, 1), re.sub(r"(\d\d:\d\d:\d\d)", r"\1.0000001", s, 1)]
    if s.endswith("Z"):
        out += [s[:-1] + "+00:00", s[:-1] + "-00:00"]
    if name == "HexBinary":
        out += [s.upper()]
    if name == "Base64Binary" and len(s) >= 4:
        out += [s[:2] + " " + s[2:], " ".join(s)]
    return out


def gen_literal(rng, name, printed):
    r = rng.random()
    if printed and r < 0.30:
        return rng.choice(printed)
    if printed and r < 0.45:
        return rng.choice(variants(rng, name, rng.choice(printed)))
    if printed and r < 0.80:
        s = rng.choice(printed)
        for _ in range(rng.choice([1, 1, 1, 2, 3])):
            s = mutate(rng, s)
        return s
    if r < 0.93:
        return rng.choice(EXOTIC)
    return "".join(rng.choice(ALPHA) for _ in range(rng.randint(0, 14)))


# ---------------------------------------------------------------------------------------------
# Coq case terms

def is_plain(s):
    return all(32 <= ord(c) < 127 for c in s)


def case_term(mode, tid, text, args, obs):
    h = common.zhash_d(obs, 1)
    al = common.coq_list(coq_z(a) for a in args) if args else "(@nil Z)"
    return f"({mode}, {tid}, {coq_str(text)}, {al}, {coq_z(h)})"


def parse_case(tid, lit, obs):
    if is_plain(lit):
        return case_term(0, tid, lit, [], obs)
    return case_term(3, tid, "", list(lit.encode("utf-8", "surrogatepass")), obs)


def valid_case(tid, lit, ok):
    if is_plain(lit):
        return case_term(4, tid, lit, [], [1 if ok else 0])
    return case_term(5, tid, "", list(lit.encode("utf-8", "surrogatepass")), [1 if ok else 0])


PRELUDE = ("From Coq Require Import List ZArith String.\nFrom Basyx Require Import model.XsdObs.\n"
           "Open Scope string_scope.")

# types whose parse / print / recogniser the Coq model covers
MODEL_PARSE = {n for _, n, _ in TYPES}
MODEL_PRINT = {n for _, n, _ in TYPES} - {"Float", "Double"}
MODEL_VALID = {n for _, n, _ in TYPES}


def values_equal(name, a, b):
    if name == "Duration":
        # a relativedelta denotes what normalized() makes of its fields (25 h = 1 d 1 h, 1.5 h = 1 h 30 min);
        # its own == compares the raw fields
        try:
            a, b = a.normalized(), b.normalized()
        except ValueError:
            return False
    if name in ("Float", "Double"):
        return (math.isnan(a) and math.isnan(b)) or (a == b and math.copysign(1, a) == math.copysign(1, b))
    return a == b and not (a != b)


def type_ok(name, v):
    c = cls_of(name)
    if name in ("Boolean", "Integer", "String", "Double", "Decimal", "Duration", "DateTime", "Time"):
        return type(v) is c
    return type(v) is c


# ---------------------------------------------------------------------------------------------

def oracle_names(chk):
    d = D()
    bad = []
    if len(d.XSD_TYPE_NAMES) != len(TYPES) or len(d.XSD_TYPE_CLASSES) != len(TYPES):
        bad.append(f"{len(d.XSD_TYPE_NAMES)} names / {len(d.XSD_TYPE_CLASSES)} classes for {len(TYPES)} types")
    for _, n, xs in TYPES:
        c = cls_of(n)
        if d.XSD_TYPE_NAMES.get(c) != "xs:" + xs:
            bad.append(f"{n} is announced as {d.XSD_TYPE_NAMES.get(c)!r}, expected 'xs:{xs}'")
        if d.XSD_TYPE_CLASSES.get("xs:" + xs) is not c:
            bad.append(f"'xs:{xs}' maps to {d.XSD_TYPE_CLASSES.get('xs:' + xs)!r}, expected {n}")
    if len(set(d.XSD_TYPE_NAMES.values())) != len(d.XSD_TYPE_NAMES):
        bad.append("two types share one name")
    for b in bad:
        chk.fail("C06:name-table", b, {"how": "datatypes.XSD_TYPE_NAMES / XSD_TYPE_CLASSES", "detail": b})
    chk.seen("names", True)


def oracle_property_json(chk, name, v, s):
    """the value + valueType members of a serialised Property carry exactly xsd_repr(v) and the type's name"""
    from basyx.aas import model
    from basyx.aas.adapter.json import AASToJsonEncoder, StrictAASFromJsonDecoder
    xs = dict((n, x) for _, n, x in TYPES)[name]
    try:
        p = model.Property("p", cls_of(name), v)
        doc = json.loads(json.dumps(p, cls=AASToJsonEncoder))
        if doc.get("valueType") != "xs:" + xs or doc.get("value") != s:
            return f"Property JSON carries valueType={doc.get('valueType')!r} value={doc.get('value')!r}, expected xs:{xs} / {s!r}"
        p2 = json.loads(json.dumps(doc), cls=StrictAASFromJsonDecoder)
        if p2.value_type is not cls_of(name) or not values_equal(name, p2.value, v):
            return f"Property read back as {p2.value_type.__name__} {p2.value!r}"
    except Exception as e:  # noqa
        return f"Property JSON round trip raised {type(e).__name__}: {e}"
    return xml_holder_failure("Property", p, name, {"value": s})


def _den_tz(z):
    if not z:
        return [0, 0]
    if z == "Z":
        return [1, 0]
    return [1, (int(z[1:3]) * 60 + int(z[4:6])) * (-1 if z[0] == "-" else 1)]


_ZONE = r"(Z|[+-]\d\d:\d\d)?"
_DEN_RE = {
    "Time": re.compile(r"(\d\d):(\d\d):(\d\d)(\.\d+)?" + _ZONE),
    "DateTime": re.compile(r"(\d{4})-(\d\d)-(\d\d)T(\d\d):(\d\d):(\d\d)(\.\d+)?" + _ZONE),
    "Date": re.compile(r"(\d{4})-(\d\d)-(\d\d)" + _ZONE),
    "GYearMonth": re.compile(r"(\d{4})-(\d\d)" + _ZONE),
    "GYear": re.compile(r"(\d{4})" + _ZONE),
    "GMonthDay": re.compile(r"--(\d\d)-(\d\d)" + _ZONE),
    "GDay": re.compile(r"---(\d\d)" + _ZONE),
    "GMonth": re.compile(r"--(\d\d)" + _ZONE),
}


def xsd_denotation(name, lit):
    """what a VALID literal of the date/time family (or xs:boolean) denotes, as the observation enc_value gives for it;
    written from XML Schema Part 2 independently of the SDK.  None: not evaluated here (other types, years the Python
    types cannot hold).  Fraction digits beyond microseconds are cut off (the Python types end there)."""
    t = collapse(lit)
    if name == "Boolean":
        return [1 if t in ("true", "1") else 0]
    rx = _DEN_RE.get(name)
    m = rx.fullmatch(t) if rx else None
    if not m:
        return None
    g = m.groups()

    def us(fr):
        return int((fr[1:] + "000000")[:6]) if fr else 0
    if name == "Time":
        h, mi, sec = int(g[0]), int(g[1]), int(g[2])
        return [0 if h == 24 else h, mi, sec, us(g[3])] + _den_tz(g[4])       # 24:00:00 is 00:00:00
    if name == "DateTime":
        y, mo, dd, h, mi, sec = (int(x) for x in g[:6])
        if y == 0:
            return None
        if h == 24:                                                          # the first instant of the following day
            try:
                nd = datetime.date(y, mo, dd) + datetime.timedelta(days=1)
            except (ValueError, OverflowError):
                return None
            y, mo, dd, h = nd.year, nd.month, nd.day, 0
        return [y, mo, dd, h, mi, sec, us(g[6])] + _den_tz(g[7])
    return [int(x) for x in g[:-1]] + _den_tz(g[-1])


_XML_CHARS = re.compile("[\t\n\r\x20-\ud7ff\ue000-\ufffd\U00010000-\U0010ffff]*")


def xml_holder_failure(kind, h, tname, lits):
    """the XML side of a typed holder: valueType and value/min/max texts carry the type's name and exactly the
    literals `lits` (slot -> xsd_repr), and reading the element back gives the same type and equal values"""
    import io
    from lxml import etree
    from basyx.aas.adapter.xml import xml_serialization as xs_, xml_deserialization as xd_
    xsname = dict((n, x) for _, n, x in TYPES)[tname]
    ser = {"Property": xs_.property_to_xml, "Range": xs_.range_to_xml, "Qualifier": xs_.qualifier_to_xml,
           "Extension": xs_.extension_to_xml}[kind]
    con = {"Property": xd_.XMLConstructables.PROPERTY, "Range": xd_.XMLConstructables.RANGE,
           "Qualifier": xd_.XMLConstructables.QUALIFIER, "Extension": xd_.XMLConstructables.EXTENSION}[kind]
    try:
        el = ser(h)
        data = etree.tostring(el)
    except ValueError as e:
        if any(not _XML_CHARS.fullmatch(l) for l in lits.values()):
            return None          # a character XML cannot carry: refused by the XML layer (AASd-130 is another property)
        return f"{kind} (xs:{xsname}) cannot be written as XML: ValueError: {e}"
    except Exception as e:  # noqa
        return f"{kind} (xs:{xsname}) cannot be written as XML: {type(e).__name__}: {e}"
    ns = "{https://admin-shell.io/aas/3/0}"
    vt = el.find(ns + "valueType")
    if vt is None or vt.text != "xs:" + xsname:
        return f"{kind} announces xs:{xsname} but its XML carries valueType {None if vt is None else vt.text!r}"
    for sl in (("min", "max") if kind == "Range" else ("value",)):
        e2 = el.find(ns + sl)
        got = None if e2 is None else (e2.text or "")
        if got != lits.get(sl):
            return f"{kind} (xs:{xsname}) writes {sl}={got!r} into XML, expected {lits.get(sl)!r}"
    try:
        h2 = xd_.read_aas_xml_element(io.BytesIO(data), con, failsafe=False)
    except Exception as e:  # noqa
        return f"{kind} (xs:{xsname}): its own XML {data[-120:]!r} cannot be read: {type(e).__name__}: {e}"
    if h2.value_type is not h.value_type:
        return f"{kind} (xs:{xsname}) read back from XML announces {h2.value_type!r}"
    for sl in (("min", "max") if kind == "Range" else ("value",)):
        a, b = getattr(h, sl), getattr(h2, sl)
        if (a is None) != (b is None) or (a is not None and not values_equal(tname, b, a)):
            return f"{kind} (xs:{xsname}): {sl} {a!r} comes back from XML as {b!r}"
    return None


def literal_failure_kind(name, lit):
    """signature class of a failing literal: an exception other than ValueError, or an accepted malformed literal"""
    return "wrong-exception" if sdk_parse(name, lit)[0][0] in (2, 99) else "accepts-malformed"


def shrink_literal(lit, pred):
    cur = lit
    changed = True
    while changed and len(cur) > 1:
        changed = False
        for i in range(len(cur)):
            cand = cur[:i] + cur[i + 1:]
            if pred(cand):
                cur, changed = cand, True
                break
    return cur


def literal_failure(name, lit):
    """oracle on one candidate literal: returns a message if the SDK accepts a malformed literal (or
    coerces an accepted one), else None"""
    obs, v, e = sdk_parse(name, lit)
    if obs[0] == 99:
        return f"from_xsd({lit!r}, {name}) raised {obs[1]} (neither a value nor ValueError)"
    if obs[0] == 2:
        return f"from_xsd({lit!r}, {name}) raised TypeError"
    if obs[0] != 0:
        return None
    if not py_valid(name, lit):
        return f"from_xsd({lit!r}, {name}) accepted a literal outside the lexical/value space of the type: {v!r}"
    if name in INT_BOUNDS and int(v) != int(collapse(lit)):
        return f"from_xsd({lit!r}, {name}) = {v!r}: not the denoted integer"
    den = xsd_denotation(name, lit)
    if den is not None and [0] + den != obs:
        return f"from_xsd({lit!r}, {name}) = {v!r} {obs[1:]}: not the value the literal denotes {den}"
    if not type_ok(name, v):
        return f"from_xsd({lit!r}, {name}) returned a {type(v).__name__}"
    return None


def value_failure(name, f):
    """oracle on one value given by its fields; returns (signature-kind, message) or None"""
    inside = in_value_space(name, f)
    try:
        v = build_value(name, f)
    except ValueError:
        if inside and in_domain(name, f):
            return ("constructor-refuses-valid", f"{name}{tuple(f)!r} is refused although it is in the value space")
        return None
    except OverflowError:
        return None
    except Exception as e:  # noqa
        return ("constructor-other-exception", f"{name}{tuple(f)!r} raised {type(e).__name__}: {e}")
    if not in_domain(name, f):
        return None
    obs, s = sdk_print(v)
    if not inside:
        if obs[0] == 0:
            return ("value-not-rejected", f"{name} value {v!r} outside the XSD value space is neither refused by the "
                                           f"constructor nor by xsd_repr (written as {s!r})")
        if obs[0] != 1:
            return ("print-other-exception", f"xsd_repr({v!r}) raised {obs}")
        return None
    if obs[0] != 0:
        return ("print-raises", f"xsd_repr({v!r}) raised {obs} for a value inside the value space")
    if not py_valid(name, s):
        return ("print-invalid", f"xsd_repr({v!r}) = {s!r} is not a literal of xs:{name}")
    pobs, v2, e = sdk_parse(name, s)
    if pobs[0] != 0:
        return ("roundtrip", f"from_xsd(xsd_repr(v)) raised {type(e).__name__} for v = {v!r} ({s!r})")
    # a duration denotes what relativedelta.normalized() makes of its fields (25 h = 1 d 1 h, 1.5 h = 1 h 30 min)
    want = v.normalized() if name == "Duration" else v
    if not values_equal(name, v2, want) or not type_ok(name, v2):
        return ("roundtrip", f"from_xsd(xsd_repr(v)) = {v2!r} != v = {want!r} ({s!r})")
    return None


# ---------------------------------------------------------------------------------------------
# the mapping as a FUNCTION: the same literal / value gives the same result whenever it is presented, whatever was
# parsed, printed or edited in between (no state kept between calls, no result shared between callers)

MUTABLE = ("HexBinary", "Base64Binary", "Duration", "GYearMonth", "GYear", "GMonthDay", "GDay", "GMonth")


def mutate_in_place(name, v):
    """edit a value object the way a client holding it may; returns False for the immutable types"""
    if name in ("HexBinary", "Base64Binary"):
        v.extend(b"-edited")
    elif name == "Duration":
        v.years += 1
        v.seconds = -v.seconds if v.seconds else 7
    elif name in ("GYearMonth", "GYear"):
        v.year = v.year % 9000 + 1
        v.tzinfo = None if v.tzinfo is not None else datetime.timezone.utc
    elif name == "GMonthDay":
        v.month, v.day = v.month % 12 + 1, 1
    elif name == "GDay":
        v.day = v.day % 28 + 1
    elif name == "GMonth":
        v.month = v.month % 12 + 1
    else:
        return False
    return True


def fresh_copy(name, v):
    """a new object with the present state of v, built through the constructor"""
    d = D()
    c = cls_of(name)
    if name in ("HexBinary", "Base64Binary"):
        return c(bytes(v))
    if name == "Duration":
        w = d.Duration()      # the same raw state (a constructor call would already carry overflows)
        w.years, w.months, w.days, w.hours, w.minutes, w.seconds, w.microseconds = \
            v.years, v.months, v.days, v.hours, v.minutes, v.seconds, v.microseconds
        return w
    if name == "GYearMonth":
        return c(v.year, v.month, v.tzinfo)
    if name == "GYear":
        return c(v.year, v.tzinfo)
    if name == "GMonthDay":
        return c(v.month, v.day, v.tzinfo)
    if name == "GDay":
        return c(v.day, v.tzinfo)
    if name == "GMonth":
        return c(v.month, v.tzinfo)
    return v


def parse_twice_failure(name, lit, others=()):
    """from_xsd(lit, T) - edit the result in place - parse `others` - from_xsd(lit, T) again: the second result must
    be what the first one was.  Returns a message or None."""
    obs1, v1, _ = sdk_parse(name, lit)
    if v1 is not None:
        mutate_in_place(name, v1)
    for n2, l2 in others:
        sdk_parse(n2, l2)
    obs2, v2, _ = sdk_parse(name, lit)
    if obs1[:1] == [99]:
        obs1 = obs1[:1]
    if obs2[:1] == [99]:
        obs2 = obs2[:1]
    if obs1 != obs2:
        return (f"from_xsd({lit!r}, {name}) depends on earlier calls: first {('a value', 'ValueError', 'TypeError')[obs1[0]] if obs1[0] < 3 else 'an error'}"
                f" {obs1[1:12]}, then (after the first result was edited in place) {v2!r} {obs2[1:12]}")
    return None


def print_twice_failure(name, f):
    """xsd_repr(v) - edit v in place - xsd_repr(v): the second text must be the text of the edited value (= the text of a
    fresh object with the same state); and printing an equal fresh value afterwards gives the first text again."""
    try:
        v = build_value(name, f)
    except Exception:  # noqa
        return None
    obs1, s1 = sdk_print(v)
    obs1b, _ = sdk_print(v)
    if obs1 != obs1b:
        return f"xsd_repr({v!r}) gave {s1!r} and then another result for the same unchanged value"
    if mutate_in_place(name, v):
        try:
            want, sw = sdk_print(fresh_copy(name, v))
        except Exception:  # noqa
            return None
        got, sg = sdk_print(v)
        if got != want:
            return f"xsd_repr of a {name} edited in place gives {sg!r} {got[:1]}, a fresh object in the same state gives {sw!r} {want[:1]}"
    obs3, s3 = sdk_print(build_value(name, f))
    if obs3 != obs1:
        return f"xsd_repr of {name}{tuple(f)!r} gave {s1!r} first and {s3!r} for an equal value later"
    return None


def trivial_cast_failure(name, f):
    """trivial_cast(plain Python value, T) yields an equal value of type T, or ValueError outside the value space"""
    d = D()
    if name in INT_BOUNDS and name != "Integer":
        plain, inside = int(f[0]), in_value_space(name, f)
    elif name in ("AnyURI", "NormalizedString"):
        plain, inside = str(f[0]), in_value_space(name, f)
    elif name in ("HexBinary", "Base64Binary"):
        plain, inside = bytes(f[0]), True
    else:
        return None
    try:
        v = d.trivial_cast(plain, cls_of(name))
    except ValueError:
        return f"trivial_cast({plain!r}, {name}) is refused although the value is in the value space" if inside else None
    except Exception as e:  # noqa
        return f"trivial_cast({plain!r}, {name}) raised {type(e).__name__}"
    if not inside:
        return f"trivial_cast({plain!r}, {name}) accepted a value outside the value space"
    if type(v) is not cls_of(name) or v != plain:
        return f"trivial_cast({plain!r}, {name}) = {v!r} of type {type(v).__name__}"
    return None


# ---------------------------------------------------------------------------------------------
# typed holders: Property / Range / Qualifier / Extension keep a value together with its value_type; whatever history of
# assignments, re-typings and refused operations an object has been through, what it announces and what it holds must
# go together: the value is of the announced type, its literal is valid for that type and reads back as the value.

HOLDERS = ("Property", "Range", "Qualifier", "Extension")
FAMILIES = [[n for n in INT_BOUNDS], ["String", "AnyURI", "NormalizedString"], ["HexBinary", "Base64Binary"],
            ["Float", "Double", "Decimal"], ["Date", "DateTime", "Time"], ["GYear", "GYearMonth", "GMonth", "GMonthDay", "GDay"],
            ["Boolean", "Integer", "UnsignedByte"]]
PLAIN_POOL = ["0", "1", "-1", "5", "127", "128", "255", "256", "70000", "-70000", "2**31", "2**63", "-2**63 - 1", "2**64",
              "True", "False", "1.5", "0.0", "-0.0", "float('nan')", "float('inf')", "1e39", "''", "'abc'", "'two\\nlines'",
              "'a\\tb'", "' x '", "b''", "b'abc'", "bytearray(b'xy')", "datetime.date(2020, 2, 29)",
              "datetime.datetime(2020, 2, 29, 12, 30, 15, 250000)", "datetime.time(12, 30)",
              "datetime.datetime(2020, 1, 1, tzinfo=datetime.timezone.utc)", "decimal.Decimal('1.50')", "decimal.Decimal('NaN')",
              "None"]
_EVAL_ENV = {"datetime": datetime, "decimal": decimal, "Decimal": decimal.Decimal, "nan": math.nan, "inf": math.inf,
             "__builtins__": {"float": float, "bytearray": bytearray, "True": True, "False": False, "None": None}}


def type_name_of(cls):
    for _, n, _ in TYPES:
        if cls_of(n) is cls:
            return n
    return None


def gen_valid_fields(rng, name):
    for _ in range(50):
        f = gen_fields(rng, name)
        try:
            if in_value_space(name, f) and in_domain(name, f):
                v = build_value(name, f)
                if not (name == "Decimal" and not v.is_finite()):
                    return f
        except Exception:  # noqa
            pass
    return None


def gen_holder_value(rng, name):
    """descriptor of a value offered to a holder announcing `name`: a valid value of that type, of a related or of any
    other type, or a plain Python value"""
    r = rng.random()
    if r < 0.35:
        tn = name
    elif r < 0.6:
        fam = [f for f in FAMILIES if name in f]
        tn = rng.choice(rng.choice(fam)) if fam else name
    elif r < 0.7:
        tn = rng.choice(TYPES)[1]
    else:
        return {"plain": rng.choice(PLAIN_POOL)}
    f = gen_valid_fields(rng, tn)
    return {"plain": "None"} if f is None else {"t": tn, "f": repr(f)}


def holder_value(desc):
    if "plain" in desc:
        return eval(desc["plain"], dict(_EVAL_ENV))
    return build_value(desc["t"], eval(desc["f"], dict(_EVAL_ENV)))


def gen_holder_script(rng):
    kind = rng.choice(HOLDERS)
    name = rng.choice(TYPES)[1]
    script = [("new", name, gen_holder_value(rng, name))]
    cur = name
    for _ in range(rng.choice([1, 1, 2, 2, 3, 4])):
        if rng.random() < 0.5:
            fam = [f for f in FAMILIES if cur in f]
            nxt = rng.choice(rng.choice(fam)) if fam and rng.random() < 0.7 else rng.choice(TYPES)[1]
            script.append(("type", nxt, None))
            cur = nxt            # (if the re-typing is refused the object keeps its type; the generator need not know)
        else:
            slot = rng.choice(["min", "max"]) if kind == "Range" else "value"
            script.append((slot, None, gen_holder_value(rng, cur)))
    return kind, script


def object_in_value_space(tname, val):
    """the XSD value space, decided on a value object (cf. in_value_space on fields)"""
    if tname == "Decimal":
        return val.is_finite()
    if tname == "Duration":
        try:
            val = val.normalized()
        except ValueError:
            return False
        nz = [x for x in (val.years, val.months, val.days, val.hours, val.minutes, val.seconds, val.microseconds) if x]
        return all(x > 0 for x in nz) or all(x < 0 for x in nz)
    if tname in TZ_FIELD:
        tzinfo = getattr(val, "tzinfo", None)
        if tzinfo is None:
            return True
        off = tzinfo.utcoffset(None)
        if off is None:
            return True
        us = (off.days * 86400 + off.seconds) * 1000000 + off.microseconds
        return us % 60000000 == 0 and abs(us) <= 840 * 60000000
    return True


def holder_state_failure(kind, h):
    """is what the object announces consistent with what it holds and with what it serialises?"""
    from basyx.aas.adapter.json import AASToJsonEncoder
    d = D()
    vt = h.value_type
    slots = [("min", h.min), ("max", h.max)] if kind == "Range" else [("value", h.value)]
    if vt is None:
        bad = [sl for sl, val in slots if val is not None]
        return f"{kind} holds a {bad[0]} without a value_type" if bad else None
    tname = type_name_of(vt)
    if tname is None:
        return f"{kind}.value_type is {vt!r}, none of the XSD types"
    xs = dict((n, x) for _, n, x in TYPES)[tname]
    lits = {}
    for sl, val in slots:
        if val is None:
            continue
        if not isinstance(val, vt) or (isinstance(val, bool) and vt is not bool):
            return f"{kind} announces xs:{xs} but its {sl} is the {type(val).__name__} {val!r}"
        try:
            lit = d.xsd_repr(val)
        except ValueError as e:
            if not object_in_value_space(tname, val):
                continue         # a Python value outside the XSD value space: refused when it is to be written
            return f"{kind} announces xs:{xs}; its {sl} {val!r} cannot be written: ValueError: {e}"
        except Exception as e:  # noqa
            return f"{kind} announces xs:{xs}; its {sl} {val!r} cannot be written: {type(e).__name__}: {e}"
        if not py_valid(tname, lit):
            return f"{kind} announces xs:{xs} but its {sl} {val!r} is written as {lit!r}, no literal of that type"
        try:
            back = d.from_xsd(lit, vt)
        except Exception as e:  # noqa
            return f"{kind} announces xs:{xs}; the literal {lit!r} of its {sl} cannot be read with that type: {type(e).__name__}"
        if not values_equal(tname, back, val.normalized() if tname == "Duration" else val):
            return f"{kind} announces xs:{xs}; its {sl} {val!r} is written as {lit!r}, which reads back as {back!r}"
        lits[sl] = lit
    unwritable = [sl for sl, val in slots if val is not None and sl not in lits]
    try:
        doc = json.loads(json.dumps(h, cls=AASToJsonEncoder))
    except ValueError as e:
        if unwritable:
            return None
        return f"{kind} (xs:{xs}) cannot be serialised: ValueError: {e}"
    except Exception as e:  # noqa
        return f"{kind} (xs:{xs}) cannot be serialised: {type(e).__name__}: {e}"
    if unwritable:
        return f"{kind} (xs:{xs}) serialises although its {unwritable[0]} is outside the value space: {doc}"
    if doc.get("valueType") != "xs:" + xs:
        return f"{kind} announces xs:{xs} but serialises valueType {doc.get('valueType')!r}"
    for sl, _ in slots:
        if doc.get(sl) != lits.get(sl):
            return f"{kind} (xs:{xs}) serialises {sl}={doc.get(sl)!r}, expected {lits.get(sl)!r}"
    return xml_holder_failure(kind, h, tname, lits)


def run_holder_script(kind, script):
    """returns (message or None, number of operations executed, number refused)"""
    from basyx.aas import model
    h = None
    refused = 0
    for i, (op, tname, desc) in enumerate(script):
        expected = (ValueError, TypeError, model.AASConstraintViolation)
        try:
            x = holder_value(desc) if desc is not None else None
        except Exception:  # noqa
            return None, i, refused
        try:
            if op == "new":
                T = cls_of(tname)
                h = {"Property": lambda: model.Property("p", T, x), "Range": lambda: model.Range("r", T, x, None),
                     "Qualifier": lambda: model.Qualifier("q", T, x), "Extension": lambda: model.Extension("e", T, x)}[kind]()
            elif op == "type":
                h.value_type = cls_of(tname)
            else:
                setattr(h, op, x)
                got = getattr(h, op)
                same = got is x or (got == x and not (got != x)) or (isinstance(x, float) and isinstance(got, float)
                                                                      and math.isnan(x) and math.isnan(got))
                if isinstance(x, bool) != isinstance(got, bool):
                    same = False
                if not same:
                    return (f"step {i}: {kind}.{op} = {x!r} (announcing {h.value_type.__name__}) was accepted but the object "
                            f"now holds {got!r}: the value was coerced"), i + 1, refused
        except expected:
            refused += 1
            if h is None:
                return None, i + 1, refused
        except Exception as e:  # noqa
            return f"step {i}: {op} raised {type(e).__name__}: {e}", i + 1, refused
        msg = holder_state_failure(kind, h)
        if msg:
            return f"after step {i} ({op}{' ' + tname if tname else ''}{' ' + str(desc) if desc else ''}): {msg}", i + 1, refused
    return None, len(script), refused


def shrink_holder_script(kind, script):
    cur = list(script)
    changed = True
    while changed:
        changed = False
        for i in range(1, len(cur)):
            cand = cur[:i] + cur[i + 1:]
            if run_holder_script(kind, cand)[0]:
                cur, changed = cand, True
                break
    return cur


def holder_stream(chk, rng, n):
    for _ in range(n):
        kind, script = gen_holder_script(rng)
        msg, nops, refused = run_holder_script(kind, script)
        chk.seen(("holder", kind, repr(script)), nontrivial=nops >= 2)
        chk.count("holder:" + kind)
        chk.count("holder-ops", nops)
        chk.count("holder-refused", refused)
        if msg:
            small = shrink_holder_script(kind, script)
            msg = run_holder_script(kind, small)[0]
            chk.fail(f"C06:holder-inconsistent:{kind}", msg,
                     {"kind": "holder", "holder": kind, "script": [list(st) for st in small],
                      "how": "tools/c06.py run_holder_script(holder, script)"})


def run(chk):
    from py2coq import xsdtables
    rng = chk.rng
    quick = chk.tier == "quick"
    n_values, n_literals = (110, 260) if quick else (1500, 5000)       # per type

    # ---- tie T: regenerate the tables and range checks from the current source
    info = None
    try:
        _, info = xsdtables.regenerate()
    except xsdtables.TranslatorAbort as e:
        chk.tie_broken("translator", str(e))
    except Exception as e:  # noqa
        chk.tie_broken("translator", f"{type(e).__name__}: {e}")

    # ---- theorems (only over a freshly generated Gen_XsdTables.v: after a translator abort the file on disk is
    # stale, so the obligations count as not checked)
    if info is None:
        for n in THEOREMS:
            chk.obligations.append((n, "not-checked", []))
    else:
        chk.theorems("props.C06", THEOREMS, ["theories/props/C06.vo", "theories/model/XsdObs.vo"])
        # supplement about the pre-repair code: uses Coq's primitive floats; Print Assumptions lists those primitives
        ok, log = common.coq_make(["theories/props/C06_OldUs.vo"])
        name = "C06_old_us_expression"
        if not ok:
            chk.tie_broken("proof", {"module": "props.C06_OldUs", "detail": log[-800:]})
            chk.obligations.append((name, "not-checked", []))
        else:
            st, ax, raw = common.print_assumptions("props.C06_OldUs", [name], "C06old")[name]
            foreign = [a for a in ax if not (a.startswith("PrimFloat.") or a.startswith("PrimInt63."))]
            if st == "error" or foreign:
                chk.tie_broken("axioms", {"theorem": name, "detail": foreign or raw[-400:]})
            chk.obligations.append((name, st, ax))
    common.coq_make(["theories/model/XsdObs.vo"])      # the correspondence must run even if a proof broke

    # ---- oracle: names
    oracle_names(chk)
    d = D()
    if info is not None:
        # translator self-validation: the generated table is the dict the interpreter built
        gen = {k: info["prefix"] + v for k, v in info["names"]}
        for k, n in gen.items():
            if d.XSD_TYPE_NAMES.get(getattr(d, k, None)) != n:
                chk.tie_broken("translator-validation", f"generated entry {k} -> {n} is not in XSD_TYPE_NAMES")
        if len(gen) != len(d.XSD_TYPE_NAMES):
            chk.tie_broken("translator-validation", f"{len(gen)} generated entries, {len(d.XSD_TYPE_NAMES)} in the dict")
        if sorted(info["ranges"]) != sorted(n for n in INT_BOUNDS if n != "Integer"):
            chk.tie_broken("translator-validation", f"range-checked int classes: {info['ranges']}")

    terms = []        # Coq case terms
    what = []         # parallel: description for reports

    def add(term, desc):
        terms.append(term)
        what.append(desc)

    # ---- corpus first
    corpus = os.path.join(common.VERIF, "corpus", "C06")
    corpus_cases = []
    if os.path.isdir(corpus):
        for fn in sorted(os.listdir(corpus)):
            corpus_cases.append(json.load(open(os.path.join(corpus, fn))))

    printed = {n: [] for _, n, _ in TYPES}
    printed_values = []      # (type, fields, observation of the first xsd_repr)
    parsed = []              # (type, literal, observation of the first from_xsd, the value object)
    for tid, name, xs in TYPES:
        # ---------------- values: constructor, print, round trip
        for k in range(n_values):
            f = gen_fields(rng, name)
            chk.count("values:" + name)
            fail = value_failure(name, f)
            chk.seen(("v", name, repr(f)), nontrivial=True)
            if fail:
                chk.fail(f"C06:{fail[0]}:{name}", fail[1], {"kind": "value", "type": name, "fields": repr(f),
                                                            "how": "tools/c06.py value_failure(type, fields)"})
            tc = trivial_cast_failure(name, f)
            if tc:
                chk.fail(f"C06:trivial-cast:{name}", tc, {"kind": "value", "type": name, "fields": repr(f), "trivial_cast": True})
            # correspondence: constructor and print on the model
            try:
                v = build_value(name, f)
                cobs = [0]
            except Exception as e:  # noqa
                v, cobs = None, enc_exc(e)
            if name in INT_BOUNDS:
                add(case_term(2, tid, "", [f[0]], [0, f[0]] if cobs == [0] else cobs), ("ctor", name, f))
            elif name in ("GYearMonth", "GMonthDay"):
                add(case_term(2, tid, "", f[:2], cobs), ("ctor", name, f))
            elif name in ("GYear", "GDay", "GMonth"):
                add(case_term(2, tid, "", f[:1], cobs), ("ctor", name, f))
            elif name == "NormalizedString":
                add(case_term(2, tid, "", list(f[0].encode("utf-8", "surrogatepass")), cobs), ("ctor", name, f))
            if v is not None:
                obs, s = sdk_print(v)
                chk.count("print:" + ("ok" if obs[0] == 0 else "ValueError" if obs[0] == 1 else "other"))
                args = model_args(name, f)
                if name in MODEL_PRINT and args is not None and not (name == "Decimal" and not f[0].is_finite()):
                    add(case_term(1, tid, "", args, obs), ("print", name, f))
                if name in TZ_FIELD:
                    add(case_term(7, tid, "", model_args_us(name, f), obs), ("print-us", name, f))
                    chk.count("zone:" + ("none" if f[TZ_FIELD[name]] is None else "whole-minute" if tz_us(f[TZ_FIELD[name]]) % 60000000 == 0
                                         else "sub-minute"))
                printed_values.append((name, f, obs))
                if name in MUTABLE or k % 4 == 0:
                    msg = print_twice_failure(name, f)
                    chk.count("print-twice")
                    if msg:
                        chk.fail(f"C06:print-not-a-function:{name}", msg, {"kind": "print-twice", "type": name, "fields": repr(f)})
                if s is not None:
                    printed[name].append(s)
                    if len(chk.samples) < 8 and k == 3:
                        chk.samples.append({"type": name, "value": repr(v), "xsd_repr": s})
                    if k < 6 and in_value_space(name, f) and in_domain(name, f):
                        msg = oracle_property_json(chk, name, v, s)
                        chk.count("property-json")
                        if msg:
                            chk.fail(f"C06:property-json:{name}", msg, {"kind": "property", "type": name, "fields": repr(f)})
        # ---------------- literals: parse + recogniser
        lits = [c["literal"] for c in corpus_cases if c.get("type") == name] + list(EXOTIC)
        for k in range(n_literals):
            lits.append(gen_literal(rng, name, printed[name]))
        for lit in lits:
            try:
                lit.encode("utf-8")
            except UnicodeEncodeError:
                continue
            obs, v, e = sdk_parse(name, lit)
            ok = py_valid(name, lit)
            chk.count("literal:" + ("accepted" if obs[0] == 0 else "ValueError" if obs[0] == 1 else "other")
                      + ("/valid" if ok else "/invalid"))
            chk.seen(("l", name, lit), nontrivial=len(lit) > 0)
            msg = literal_failure(name, lit)
            if msg:
                kind0 = literal_failure_kind(name, lit)
                small = shrink_literal(lit, lambda c: literal_failure(name, c) is not None and literal_failure_kind(name, c) == kind0)
                chk.fail(f"C06:{kind0}:{name}", literal_failure(name, small),
                         {"kind": "literal", "type": name, "literal": small, "how": "tools/c06.py literal_failure(type, literal)"})
            if obs[0] == 99:
                obs = [99]
            parsed.append((name, lit, obs, v))
            if name in MODEL_PARSE:
                add(parse_case(tid, lit, obs), ("parse", name, lit))
            if name in MODEL_VALID:
                add(valid_case(tid, lit, ok), ("valid", name, lit))

    # ---- directed: the calendar corners with a fixed set of zones, printed by the SDK and by the model
    for name, f in corner_cases(CORNER_ZONES_MODEL):
        try:
            obs = sdk_print(build_value(name, f))[0]
        except Exception as e:  # noqa
            obs = enc_exc(e)
        args = model_args(name, f)
        if args is not None:
            add(case_term(1, TID[name], "", args, obs), ("print", name, f))
        add(case_term(7, TID[name], "", model_args_us(name, f), obs), ("print-us", name, f))
        chk.count("corner-print")

    # ---- the mapping is a function: every literal and every value a second time, in the opposite order, after the
    # results of the first pass have been edited in place by their holders
    for name, lit, obs, v in parsed:
        if v is not None:
            mutate_in_place(name, v)
    nrep = 0
    for name, lit, obs1, v in reversed(parsed):
        obs2 = sdk_parse(name, lit)[0]
        if obs2[:1] == [99]:
            obs2 = [99]
        nrep += 1
        if obs2 != obs1:
            others = [(n2, l2) for n2, l2, _, _ in parsed[:3]]
            msg = parse_twice_failure(name, lit) or parse_twice_failure(name, lit, others) or \
                f"from_xsd({lit!r}, {name}) gave {obs1[:12]} in the first pass and {obs2[:12]} in the second"
            chk.fail(f"C06:parse-not-a-function:{name}", msg, {"kind": "parse-twice", "type": name, "literal": lit})
    for name, f, obs1 in reversed(printed_values):
        try:
            obs2 = sdk_print(build_value(name, f))[0]
        except Exception as e:  # noqa
            obs2 = enc_exc(e)
        nrep += 1
        if obs2 != obs1:
            chk.fail(f"C06:print-not-a-function:{name}", f"xsd_repr of {name}{tuple(f)!r} gave {obs1[:12]} in the first pass and "
                     f"{obs2[:12]} in the second", {"kind": "print-twice", "type": name, "fields": repr(f)})
    chk.cov["second_pass_repetitions"] = nrep
    chk.evaluations += nrep

    # ---- values held by typed objects (Property, Range, Qualifier, Extension): value and value_type stay consistent
    holder_stream(chk, rng, 400 if quick else 6000)

    # ---- the PrimFloat model of the pre-repair expression int(float(frac) * 1e6) against CPython's floats
    for k in range(150 if quick else 3000):
        ds = "".join(rng.choice("0123456789") for _ in range(rng.choice([1, 2, 3, 6, 6, 6, 6, 7, 9, 12])))
        if k < len(US_EDGE):
            ds = "%06d" % US_EDGE[k]
        add(case_term(6, 0, ds, [], [int(float("." + ds) * 1e6)]), ("old-us-float", "Time", ds))
        chk.count("old-us-float")

    # ---- xs:float is a 32-bit type: a value beyond its range must not be written as if it were one
    try:
        big = d.Float(1e39)
        sbig = d.xsd_repr(big)
        chk.fail("C06:value-not-rejected:Float", f"Float(1e39) is accepted and written as {sbig!r}; the value space of "
                 "xs:float ends at 3.4028235E38 (Float is a plain Python float, not a 32-bit float)",
                 {"kind": "value", "type": "Float", "fields": "[1e39]", "float32": True})
    except (ValueError, OverflowError):
        pass
    chk.seen(("float32",), True)

    # ---- exhaustive sweeps on the SDK (thorough): all 10^6 fractions, all offsets, all month/day pairs
    sweep_sdk(chk, full=not quick)

    # ---- tie C: evaluate the model on every case
    bad, errs = common.run_mismatch_shards("C06", PRELUDE, terms, "check_case", shard=1500, timeout=600, jobs=12)
    chk.traces = common.run_mismatch_shards.evaluated - len(bad)
    chk.cov["correspondence_cases"] = len(terms)
    for e in errs:
        chk.tie_broken("correspondence-run", e)
    if bad:
        rows = []
        for i in bad[:5]:
            t = terms[i]
            model = common.coq_eval("C06", PRELUDE, "let '(m, t, s, a, h) := " + t + " in run_case m t s a")
            rows.append({"case": repr(what[i]), "term": t[:300], "model_observation": model[:400]})
        chk.tie_broken("correspondence", {"n_disagreements": len(bad), "first": rows})
        # search: run the oracle on the disagreeing inputs and their neighbours
        for i in bad[:50]:
            kind, name, x = what[i]
            if kind in ("parse", "valid"):
                for cand in [x] + [mutate(rng, x) for _ in range(20)]:
                    msg = literal_failure(name, cand)
                    if msg:
                        chk.fail(f"C06:accepts-malformed:{name}", msg, {"kind": "literal", "type": name, "literal": cand})
                        break
    chk.trusted = [
        "Coq 8.16.1 kernel (coqc; vm_compute for the finite-domain lemmas and the correspondence)",
        "translator tools/py2coq/xsdtables.py (fail-closed; its output is compared with the interpreter's dict and the "
        "generated range checks are evaluated against the class constructors on both sides of every bound)",
        "hand-written models coq/theories/model/Xsd*.v of xsd_repr/from_xsd (incl. the stdlib pieces datetime.isoformat, "
        "int(), Decimal.__format__, relativedelta._fix, bytes.hex/fromhex, base64), tied to datatypes.py only by this "
        "correspondence run",
        "recognisers model/XsdLex.v: a transcription of the regular expressions of XML Schema 1.1 Part 2 (cross-checked on "
        "every literal of the run against the Python `re` transcription in tools/c06.py)",
        "binary floating point: repr(float)/float(str) are Section variables of the float theorems",
        "tools/c06.py (generators, canonicalisers, oracle), tools/common.py",
    ]
    chk.assumptions = ["float(repr(f)) == f and the shape of repr(f) for finite binary64 f (CPython, documented)",
                       "str <-> UTF-8 bytes; lone surrogates are not generated",
                       "CPython's 4300-digit limit of int<->str conversions is not modelled",
                       "tzinfo objects are fixed-offset datetime.timezone instances (any offset with microsecond resolution)"]
    return chk.finish(
        level="proof",
        rule="per type (31): seeded values from both sides of every boundary of the value space (integer bounds +-1, "
             "month/day/hour/zone/microsecond edges, mixed-sign durations, decimals of exponent -60..60, random binary64 "
             "incl. subnormals/NaN/INF, byte strings of length 0..24) -> constructor, xsd_repr, from_xsd; candidate "
             "literals: printed forms, XSD-legal respellings, 1-3 character mutations, a fixed list of exotic spellings, "
             "random strings over a small alphabet; zone offsets: whole minutes -14:00..+14:00 and beyond, and offsets with "
             "seconds/microseconds left over (also 1 us beyond +-14:00); every literal and value a second time in reverse "
             "order after the first results were edited in place (the mapping as a function); seeded histories of "
             "Property/Range/Qualifier/Extension objects (construct, assign, re-type, refused operations) with the "
             "announced type checked against the held and the serialised value after every step; "
             "distinct by (type, value) / (type, literal) / (holder, script); non-trivial = non-empty / at least 2 steps")


# ---------------------------------------------------------------------------------------------

# the corners of the calendar for every type that carries a zone (leap day, month ends, year 1 and 9999, three-digit
# years, midnight and the last microsecond of the day, the day-of-month limits of gMonthDay and gDay)
CORNER_VALUES = {
    "Date": [[2000, 2, 29], [2024, 2, 29], [1900, 2, 28], [1, 1, 1], [9999, 12, 31], [999, 5, 31], [2023, 4, 30]],
    "DateTime": [[2000, 2, 29, 23, 59, 59, 999999], [1, 1, 1, 0, 0, 0, 0], [9999, 12, 31, 23, 59, 59, 1],
                 [1900, 2, 28, 12, 0, 0, 0], [999, 12, 31, 0, 0, 0, 1009]],
    "Time": [[0, 0, 0, 0], [23, 59, 59, 999999], [12, 34, 56, 1009], [0, 0, 0, 1]],
    "GYearMonth": [[2000, 2], [1, 1], [9999, 12], [999, 5], [1900, 2]],
    "GYear": [[1], [999], [2000], [9999]],
    "GMonthDay": [[2, 29], [2, 28], [1, 1], [12, 31], [4, 30], [1, 31], [11, 30], [3, 31]],
    "GDay": [[1], [28], [29], [30], [31]],
    "GMonth": [[1], [2], [11], [12]],
}
CORNER_ZONES_MODEL = [None, 0, 1, -1, 330, -570, 839, 840, -840, 841, -841, ("us", 3600000500), ("us", 50400000001)]


def corner_cases(zones):
    for name, rows in CORNER_VALUES.items():
        for row in rows:
            for z in zones:
                yield name, list(row) + [z]


def sweep_sdk(chk, full):
    """finite domains run on the SDK itself (oracle only); everything but the microsecond sweep is the same in both tiers"""
    d = D()
    # every calendar corner of every zone-bearing type with no zone and with EVERY zone offset -14:00..+14:00
    n = 0
    for name, f in corner_cases([None] + list(range(-840, 841))):
        n += 1
        fail = value_failure(name, f)
        if fail:
            chk.fail(f"C06:{fail[0]}:{name}", fail[1], {"kind": "value", "type": name, "fields": repr(f),
                                                        "how": "tools/c06.py value_failure(type, fields)"})
    chk.cov["sdk_calendar_corners_x_zones"] = n
    chk.evaluations += n
    # every zone offset -14:00..+14:00 on a Date, a Time and a GDay
    n = 0
    for off in range(-840, 841):
        tz = mk_tz(off)
        for name, v in (("Date", d.Date(2000, 2, 29, tz)), ("Time", datetime.time(23, 59, 59, 999999, tz)),
                        ("GDay", d.GDay(31, tz))):
            n += 1
            s = d.xsd_repr(v)
            try:
                back = d.from_xsd(s, cls_of(name))
                ok = back == v and py_valid(name, s) and enc_tz(back.tzinfo) == [1, off]
            except Exception:  # noqa
                ok = False
            if not ok:
                chk.fail(f"C06:roundtrip:{name}", f"zone offset {off} min: {s!r} does not round-trip",
                         {"kind": "value", "type": name, "offset_minutes": off})
    chk.cov["sdk_zone_offsets"] = n
    # every offset of the sub-minute pool (seconds / microseconds left over, also just beyond +-14:00) on all eight types
    # that carry a zone: outside the value space, so it must be refused - never written, never truncated
    n = 0
    for t in TZ_SUB:
        for name, f in (("Date", [2000, 2, 29, t]), ("Time", [23, 59, 59, 999999, t]), ("DateTime", [2020, 1, 24, 15, 25, 17, 0, t]),
                        ("GYear", [2020, t]), ("GYearMonth", [2020, 5, t]), ("GMonthDay", [2, 29, t]), ("GDay", [31, t]),
                        ("GMonth", [12, t])):
            n += 1
            fail = value_failure(name, f)
            if fail:
                chk.fail(f"C06:{fail[0]}:{name}", fail[1], {"kind": "value", "type": name, "fields": repr(f),
                                                            "how": "tools/c06.py value_failure(type, fields)"})
    chk.cov["sdk_subminute_offsets"] = n
    # every month/day pair, without a zone and with five zones
    n = 0
    for m in range(0, 14):
        for dd in range(0, 33):
            n += 1
            valid = 1 <= m <= 12 and 1 <= dd <= dim(2000, m)
            for z in (None, 0, 840, -840, 330, -1):
                fail = value_failure("GMonthDay", [m, dd, z])
                if fail:
                    chk.fail(f"C06:{fail[0]}:GMonthDay", fail[1], {"kind": "value", "type": "GMonthDay", "fields": repr([m, dd, z]),
                                                                    "how": "tools/c06.py value_failure(type, fields)"})
            lit = "--%02d-%02d" % (m, dd)
            msg = literal_failure("GMonthDay", lit)
            if msg:
                chk.fail("C06:accepts-malformed:GMonthDay", msg, {"kind": "literal", "type": "GMonthDay", "literal": lit})
            if valid and sdk_parse("GMonthDay", lit)[0][0] != 0:
                chk.fail("C06:roundtrip:GMonthDay", f"{lit!r} is refused", {"kind": "literal", "type": "GMonthDay", "literal": lit})
    chk.cov["sdk_month_day_pairs"] = n
    # microsecond fractions: all 10^6 (thorough) or a stride plus the known hard values (quick)
    rng_us = range(1000000) if full else list(range(0, 1000000, 97)) + US_EDGE
    bad = 0
    first = None
    t = datetime.time
    for us in rng_us:
        lit = "12:34:56.%06d" % us
        try:
            got = d.from_xsd(lit, d.Time).microsecond
        except Exception:  # noqa
            got = None
        if got != us:
            bad += 1
            first = first if first is not None else us
    chk.cov["sdk_microsecond_values"] = len(rng_us)
    chk.evaluations += len(rng_us)
    if bad:
        chk.fail("C06:roundtrip:Time", f"{bad} of {len(rng_us)} microsecond values change in from_xsd (first: {first})",
                 {"kind": "literal", "type": "Time", "literal": "12:34:56.%06d" % first})


def replay(path):
    r = json.load(open(path))
    rp = r.get("replay") or {}
    if rp.get("kind") == "literal":
        msg = literal_failure(rp["type"], rp["literal"])
        if msg is None and rp["type"] == "Time":
            obs, v, e = sdk_parse("Time", rp["literal"])
            us = int(rp["literal"].split(".")[1][:6].ljust(6, "0")) if "." in rp["literal"] else 0
            msg = None if v is not None and v.microsecond == us else f"{rp['literal']} -> {v!r}"
        print("oracle:", msg)
        return 1 if msg else 0
    if rp.get("float32"):
        try:
            print("oracle: Float(1e39) ->", D().xsd_repr(D().Float(1e39)))
            return 1
        except (ValueError, OverflowError):
            print("oracle: refused")
            return 0
    if rp.get("kind") == "parse-twice":
        msg = parse_twice_failure(rp["type"], rp["literal"]) or parse_twice_failure(rp["type"], rp["literal"], [("Int", "5"), ("String", "x")])
        print("oracle:", msg)
        return 1 if msg else 0
    if rp.get("kind") == "print-twice":
        f = eval(rp["fields"], {"Decimal": decimal.Decimal, "nan": math.nan, "inf": math.inf})
        msg = print_twice_failure(rp["type"], f)
        print("oracle:", msg)
        return 1 if msg else 0
    if rp.get("kind") == "holder":
        msg = run_holder_script(rp["holder"], [tuple(st) for st in rp["script"]])[0]
        print("oracle:", msg)
        return 1 if msg else 0
    if rp.get("trivial_cast"):
        f = eval(rp["fields"], {"Decimal": decimal.Decimal, "nan": math.nan, "inf": math.inf})
        res = trivial_cast_failure(rp["type"], f)
        print("oracle:", res)
        return 1 if res else 0
    if rp.get("kind") == "value" and "fields" in rp:
        f = eval(rp["fields"], {"Decimal": decimal.Decimal, "nan": math.nan, "inf": math.inf}) \
            if isinstance(rp["fields"], str) else rp["fields"]
        res = value_failure(rp["type"], f)
        print("oracle:", res)
        return 1 if res else 0
    if "how" in rp and "XSD_TYPE_NAMES" in rp["how"]:
        class C:
            failures = []

            def fail(self, *a):
                self.failures.append(a)

            def seen(self, *a, **k):
                pass
        c = C()
        oracle_names(c)
        print("oracle:", c.failures)
        return 1 if c.failures else 0
    print(json.dumps(r, indent=1)[:3000])
    return 1
