"""usage: seeded_table.py <round>  - markdown table of the kept seeded changes of one round from seeded/*/meta.json"""
import glob
import json
import re
import sys

rnd = int(sys.argv[1])


def key(d):
    p, n = d.split("/")[-1].split("-")
    return (p, int(n))


rows = []
stats = {"caught": 0, "tie": 0, "escaped": 0, "now_own": 0, "now_owner": 0, "now_missed": 0}
for d in sorted(glob.glob("/verif/seeded/C*-*"), key=key):
    m = json.load(open(d + "/meta.json"))
    if m.get("round", 1) != rnd:
        continue
    first = m.get("first_result", m.get("result", ""))
    if first.startswith("caught: concrete"):
        f = "caught"
        stats["caught"] += 1
    elif first.startswith("caught: tie"):
        f = "tie only"
        stats["tie"] += 1
    else:
        f = "**escaped**"
        stats["escaped"] += 1
    rc = m.get("recheck", {})
    owners = [k[8:] for k in m if k.startswith("recheck_") and "rc=1" in m[k].get("result", "")]
    if "rc=1" in rc.get("result", "") and not rc.get("no_failing_input_found"):
        now = "replay `%s`" % re.sub(r".*replay=", "", rc.get("first", ""))[:80]
        stats["now_own"] += 1
    elif owners:
        o = owners[0]
        now = "%s's clause: replay `%s`" % (o, re.sub(r".*replay=", "", m["recheck_" + o].get("first", ""))[:70])
        stats["now_owner"] += 1
    elif "rc=1" in rc.get("result", ""):
        now = "tie only (*no-failing-input-found*)"
        stats["now_missed"] += 1
    else:
        now = "NOT CAUGHT"
        stats["now_missed"] += 1
    needs = " ".join(m.get("needs_to_manifest", "").split()).replace("|", "/")[:170]
    rows.append(f"| {m['id']} | {needs} | {f} | {now} |")
print("| id | needs, to manifest | first | now |")
print("|---|---|---|---|")
print("\n".join(rows))
print()
print(f"<!-- round {rnd}: {len(rows)} changes; first: {stats['caught']} caught, {stats['tie']} tie only, {stats['escaped']} escaped; "
      f"now: {stats['now_own']} own check, {stats['now_owner']} owner's check, {stats['now_missed']} not with a replay -->")
