"""C09 - damage engine and property oracle (independent of the Coq model).

A *case* = (document, victim identifiable, node inside the victim, damage operator, variant).
The document is written by the SDK's own writers from valid objects, re-parsed with plain
json / lxml (no SDK code), damaged at exactly one node, serialised again and read by the four
readers under test (JSON/XML x failsafe/strict) through the public API.

Oracle (statement of C09):
  O1 failsafe never raises                                     (for well-formed input)
  O2 failsafe returns every identifiable without damage unchanged (canonical form over public
     attributes, compared with the read of the undamaged document) and returns nothing that is not
     in the document
  O3 strict returns what failsafe returns, or raises KeyError/ValueError/TypeError/AASConstraintViolation
  O4 not well-formed input: JSON -> json.JSONDecodeError (UnicodeDecodeError for undecodable bytes)
     in both modes; XML -> failsafe: empty result, strict: lxml.etree.XMLSyntaxError; never anything else
"""
import copy
import io
import json
import logging
import re

from lxml import etree

from basyx.aas import model
from basyx.aas.adapter.json import read_aas_json_file, read_aas_json_file_into, write_aas_json_file
from basyx.aas.adapter.xml import read_aas_xml_file, read_aas_xml_file_into, write_aas_xml_file

import aasgen

NS = "{https://admin-shell.io/aas/3/0}"
JSON_LISTS = ("assetAdministrationShells", "submodels", "conceptDescriptions")
XML_LISTS = (NS + "assetAdministrationShells", NS + "submodels", NS + "conceptDescriptions")
DOCUMENTED = (KeyError, ValueError, TypeError, model.AASConstraintViolation)

OPS = ("delete", "null", "wrongtype", "enum", "empty", "overlong", "forbidden", "xsliteral", "base64",
       "modeltype", "dupid", "wronglist", "harmless", "nsrebind", "xsextreme", "lexeq")
# "harmless" is the 13th operator: it changes the text of the document without changing its content (XML comments,
# processing instructions and white space between elements / inside text; JSON insignificant white space, member
# order, string escapes) - both readers must return exactly the undamaged result


class RawText:
    """a document that is already serialised (text with a particular lexical form)"""
    def __init__(self, data):
        self.data = data

ENUM_KEYS = {"type", "kind", "assetKind", "entityType", "direction", "state", "valueType", "valueTypeListElement",
             "typeValueListElement", "dataType", "orderRelevant"}
XS_KEYS = {"lastUpdate", "minInterval", "maxInterval"}
PATTERN_KEYS = {"idShort": ["1 bad-", "-x", "a b"], "version": ["x", "01", "12345"], "revision": ["x", "-1"],
                "language": ["!!", "e", "en_US_"]}
OTHER_MODELTYPES = ["Capability", "Submodel", "Property", "Range", "AssetAdministrationShell", "ConceptDescription",
                    "Extension", "DataSpecificationIec61360", "SubmodelElementList", "Operation"]
OTHER_TAGS = ["capability", "submodel", "property", "range", "assetAdministrationShell", "conceptDescription",
              "extension", "dataSpecificationIec61360", "submodelElementList", "operation", "key", "reference"]

logging.getLogger("basyx").setLevel(logging.CRITICAL + 1)

# "xsextreme": literals that have the *shape* of their XSD type (or nearly) but an extreme value: the lexical checks let
# them through (or nearly), the constructors behind them (int, float, Decimal, datetime.date/time/datetime, timezone,
# relativedelta, bytes.fromhex, b64decode) may then raise something else than ValueError.  The operator also re-types the
# leaf (sibling valueType), so every parser is reached from every typed leaf.
_N = "9"
_INTS = [_N * 5000, "-" + _N * 4300, _N * 400, "+0", "-0", "\u0663", "\uff11\uff12", "1_000", " 7 ", "0x10", "1e3", "1.0",
         "128", "-129", "256", "32768", "-32769", "65536", "2147483648", "-2147483649", "4294967296",
         "9223372036854775808", "-9223372036854775809", "18446744073709551616", "0", "1", "-1", "--1", "+-1"]
XS_EXTREME = {
    "xs:date": ["99999999999-01-01", "10000-01-01", "12345678901234567890-12-31Z", "-0001-01-01", "0000-01-01", "2020-02-30",
                "2020-13-01", "2020-00-10", "2020-01-32", "2020-01-01+14:00", "2020-01-01+14:01", "2020-01-01+99:99",
                "2020-01-01-24:00", "9999-12-31-14:00", "0001-01-01+14:00", "-99999-01-01"],
    "xs:dateTime": ["99999999999-01-01T00:00:00", "10000-01-01T00:00:00Z", "2020-01-01T24:00:00", "2020-01-01T24:00:01",
                    "2020-12-31T24:00:00", "9999-12-31T24:00:00", "2020-01-01T23:59:60", "2020-01-01T25:00:00",
                    "2020-01-01T00:00:00." + _N * 40, "0000-01-01T00:00:00", "2020-01-01T00:00:00+24:00",
                    "2020-01-01T00:00:00+99:99", "9999-12-31T23:59:59-14:00", "0001-01-01T00:00:00+14:00",
                    "-99999-01-01T00:00:00Z", "2020-02-30T00:00:00"],
    "xs:time": ["24:00:00", "24:00:01", "24:00:00.000001", "23:59:60", "99:99:99", "00:00:00." + _N * 40, "12:00:00+14:01",
                "12:00:00-99:00", "12:00:00+24:00", "24:00:00Z", "24:00:00+14:00"],
    "xs:gYear": [_N * 12, "-" + _N * 12, _N * 5000, "0000", "99999", "2020+99:00", "2020-14:01", "-0000"],
    "xs:gYearMonth": [_N * 12 + "-01", "2020-13", "2020-00", "0000-01", "2020-01+99:00", "-" + _N * 30 + "-12"],
    "xs:gMonth": ["--13", "--00", "--12+15:00", "--99", "--01-99:00"],
    "xs:gDay": ["---32", "---00", "---99", "---31+99:00"],
    "xs:gMonthDay": ["--02-30", "--02-29", "--13-01", "--00-00", "--04-31", "--12-31+99:00"],
    "xs:duration": ["P" + _N * 30 + "Y", "P" + _N * 30 + "M", "P" + _N * 30 + "D", "PT" + _N * 30 + "H", "PT" + _N * 30 + "S",
                    "PT0." + _N * 40 + "S", "-P" + _N * 25 + "M", "P1Y" + _N * 30 + "M", "PT" + _N * 5000 + "H",
                    "P" + _N * 19 + "Y" + _N * 19 + "M" + _N * 19 + "DT" + _N * 19 + "H" + _N * 19 + "M" + _N * 19 + "S",
                    "P0Y", "-PT0S", "PT1.S", "P1.5Y"],
    "xs:decimal": ["1e999999999", "1E+" + _N * 30, _N * 5000 + "." + _N * 5000, "NaN", "Infinity", "sNaN", "-.", ".",
                   "1e" + _N * 30, "+.5", "-0.0", "\u0663.\u0663", "1_0.0", "0." + "0" * 5000 + "1"],
    "xs:double": ["1e99999", "-1e99999", "INF", "-INF", "+INF", "NaN", "nan", "infinity", "inf", "1e-99999", "0x1p3", "1_0",
                  _N * 5000, "\uff11.\uff15", "1e", "e1", " 1.0 ", "-0"],
    "xs:boolean": ["TRUE", "True", "1", "0", " true ", "yes", "00", "01"],
    "xs:base64Binary": ["QUJD" * 300000, "QUJD" * 300000 + "Q", "====", "A===", "AAA", "AA=A", "QUJD\n", "QU JD", "\u00fc\u00fc\u00fc\u00fc",
                        "QUJ", "Q", "QUJD=", "\ud800AAA"],
    "xs:hexBinary": ["0", "zz", "0g", "AB" * 500000, "AB" * 500000 + "A", "a b", "\uff21\uff22", "0x41"],
    "xs:anyURI": [" ", "http://[::1", "a b", "%zz", "x" * 100000],
    "xs:normalizedString": ["a\tb", "a\nb", " a ", "a  b", "\r"],
    "xs:string": ["x" * 1000000],
}
XS_EXTREME["xs:float"] = XS_EXTREME["xs:double"]
for _t in ("integer", "long", "int", "short", "byte", "nonPositiveInteger", "negativeInteger", "nonNegativeInteger",
           "positiveInteger", "unsignedLong", "unsignedInt", "unsignedShort", "unsignedByte"):
    XS_EXTREME["xs:" + _t] = _INTS
XS_EXTREME_PAIRS = [(t, lit) for t in sorted(XS_EXTREME) for lit in XS_EXTREME[t]] + \
                   [("xs:noSuchType", "1"), ("", "1"), ("xs:Int", "1"), ("int", "1")]
XS_FIXED = {"lastUpdate": "xs:dateTime", "minInterval": "xs:duration", "maxInterval": "xs:duration"}


INT_TYPES = {"xs:" + t for t in ("integer", "long", "int", "short", "byte", "nonPositiveInteger", "negativeInteger",
                                 "nonNegativeInteger", "positiveInteger", "unsignedLong", "unsignedInt", "unsignedShort",
                                 "unsignedByte")}


def lexeq_variants(xtype, t, xml):
    """other literals of the lexical space of xtype that denote the *same value* as literal t (XML Schema Part 2);
    white-space variants only for XML (whiteSpace facet `collapse` of every type but xs:string)."""
    import re
    out = []
    # white space around the literal only where the XML schema of the metamodel itself declares the element with that
    # type (orderRelevant and levelType members: xs:boolean, blob value: xs:base64Binary); the typed value / min / max
    # elements are xs:string for the schema, their content is the bare literal
    ws = (lambda x: [" " + x, x + "\n", "\t\r\n " + x + "  "]) if xml == "schema" else (lambda x: [])
    if xtype in INT_TYPES and re.fullmatch(r"[+-]?[0-9]+", t):
        sign, digits = (t[0], t[1:]) if t[0] in "+-" else ("", t)
        out += [sign + "000" + digits]
        if sign == "":
            out += ["+" + digits] if xtype not in ("xs:negativeInteger",) else []
        if digits.strip("0") == "" and xtype in ("xs:integer", "xs:long", "xs:int", "xs:short", "xs:byte",
                                                  "xs:nonPositiveInteger", "xs:nonNegativeInteger"):
            out += ["-0", "+0"]
        out += ws(t)
    elif xtype == "xs:decimal" and re.fullmatch(r"[+-]?([0-9]+(\.[0-9]*)?|\.[0-9]+)", t):
        sign, body = (t[0], t[1:]) if t[0] in "+-" else ("", t)
        out += [sign + "00" + body if not body.startswith(".") else sign + "0" + body,
                sign + (body + "000" if "." in body else body + ".000")]
        if sign == "":
            out.append("+" + body)
        if "." not in body:
            out.append(sign + body + ".")
        out += ws(t)
    elif xtype in ("xs:double", "xs:float") and re.fullmatch(r"[+-]?([0-9]+(\.[0-9]*)?|\.[0-9]+)([eE][+-]?[0-9]+)?", t):
        f = float(t)
        if f == f and f not in (float("inf"), float("-inf")):
            out += [format(f, ".17e") if xtype == "xs:double" else t, t + "E0" if "e" not in t.lower() else t.upper(),
                    "+" + t if t[0] not in "+-" else t]
            if "." not in t and "e" not in t.lower():
                out.append(t + ".0")
        out += ws(t)
    elif xtype == "xs:boolean" and t in ("true", "false", "1", "0"):
        out += [{"true": "1", "false": "0", "1": "true", "0": "false"}[t]] + ws(t)
    elif xtype in ("xs:dateTime", "xs:date", "xs:time", "xs:gYear", "xs:gYearMonth", "xs:gMonth", "xs:gDay", "xs:gMonthDay"):
        if t.endswith("Z"):
            out += [t[:-1] + "+00:00", t[:-1] + "-00:00"]
        elif t.endswith("+00:00"):
            out += [t[:-6] + "Z"]
        m = re.fullmatch(r"(.*T?\d\d:\d\d:\d\d)(\.\d+)?(Z|[+-]\d\d:\d\d)?", t)
        if m and xtype in ("xs:dateTime", "xs:time"):
            frac = m.group(2) or ""
            out += [m.group(1) + (frac + "000" if frac else ".000") + (m.group(3) or "")]
        out += ws(t)
    elif xtype == "xs:duration" and re.fullmatch(r"-?P(\d+Y)?(\d+M)?(\d+D)?(T(\d+H)?(\d+M)?(\d+(\.\d+)?S)?)?", t):
        m = re.fullmatch(r"(-?)P(?:(\d+)Y)?(?:(\d+)M)?(?:(\d+)D)?(?:T(?:(\d+)H)?(?:(\d+)M)?(?:(\d+(?:\.\d+)?)S)?)?", t)
        g = [x or "0" for x in m.groups()[1:]]
        out += [f"{m.group(1)}P{g[0]}Y{g[1]}M{g[2]}DT{g[3]}H{g[4]}M{g[5]}S",
                f"{m.group(1)}P0{g[0]}Y0{g[1]}M0{g[2]}DT0{g[3]}H0{g[4]}M0{g[5]}S"]
        out += ws(t)
    elif xtype == "xs:hexBinary" and re.fullmatch(r"([0-9a-fA-F]{2})*", t):
        out += [t.lower(), t.upper()] + ws(t)
    elif xtype == "xs:base64Binary" and re.fullmatch(r"[A-Za-z0-9+/]*={0,2}", t) and len(t) % 4 == 0:
        if xml == "schema":
            out += ["\n".join(t[i:i + 4] for i in range(0, len(t), 4)) + "\n",
                    " ".join(t[i:i + 8] for i in range(0, len(t), 8)),
                    "\n      " + "\r\n      ".join(t[i:i + 76] for i in range(0, max(len(t), 1), 76)) + "\n    ",
                    t + "\n", "  " + t]
    elif xtype in ("xs:anyURI", "xs:normalizedString"):
        pass
    return [x for x in dict.fromkeys(out) if x != t]


def extreme_pair(key, variant):
    """(type to write into the sibling valueType or None, literal)"""
    if key in XS_FIXED:
        lits = XS_EXTREME[XS_FIXED[key]]
        return None, lits[variant % len(lits)]
    return XS_EXTREME_PAIRS[variant % len(XS_EXTREME_PAIRS)]


# ------------------------------------------------------------------ documents

# members that serialise a Python set of objects whose hash depends on memory addresses (Reference hashes its
# class object, ValueReferencePair has the default hash): the writers emit them in an order that differs from
# process to process.  The documents are test inputs, so the order is fixed here to keep a run reproducible.
SET_MEMBERS = ("isCaseOf", "refersTo", "specificAssetIds", "valueReferencePairs")


def _norm_json(v, top=True):
    if isinstance(v, dict):
        for k, x in v.items():
            _norm_json(x, False)
            if isinstance(x, list) and (k in SET_MEMBERS or (k == "submodels" and not top)):
                x.sort(key=lambda e: json.dumps(e, sort_keys=True))
            elif isinstance(x, list) and x and all(isinstance(e, dict) and "idShort" in e for e in x) and not top:
                # a namespace (submodelElements, statements, annotations, collection value): the examples build some
                # of them from Python sets of objects, whose order differs from process to process
                x.sort(key=lambda e: str(e["idShort"]))
    elif isinstance(v, list):
        for x in v:
            _norm_json(x, False)


def _norm_xml(root):
    for el in list(root.iter()):
        name = _lname(el)
        if name in SET_MEMBERS or (name == "submodels" and el.getparent() is not None
                                   and _lname(el.getparent()) == "assetAdministrationShell"):
            kids = sorted(el, key=lambda e: etree.tostring(e))
            for k in kids:
                el.remove(k)
            for k in kids:
                el.append(k)
        elif name in ("submodelElements", "statements", "annotations", "value") and len(el) > 1 \
                and all(k.find(NS + "idShort") is not None for k in el):
            kids = sorted(el, key=lambda e: e.find(NS + "idShort").text or "")
            for k in kids:
                el.remove(k)
            for k in kids:
                el.append(k)


def write_json(store):
    b = io.StringIO()
    write_aas_json_file(b, store)
    d = json.loads(b.getvalue())
    _norm_json(d)
    return d


def write_xml(store):
    b = io.BytesIO()
    write_aas_xml_file(b, store)
    root = etree.fromstring(b.getvalue(), etree.XMLParser(remove_blank_text=True))
    _norm_xml(root)
    return root


def json_items(doc):
    """[(list name, index, id)] of the identifiables of a JSON document"""
    return [(n, i, it.get("id")) for n in JSON_LISTS for i, it in enumerate(doc.get(n, []))]


def xml_items(root):
    res = []
    for lst in root:
        for i, it in enumerate(lst):
            idel = it.find(NS + "id")
            res.append((lst.tag, i, idel.text if idel is not None else None))
    return res


# ------------------------------------------------------------------ readers under test

def outcome_name(e):
    return type(e).__name__


HOOK = None     # c09_events.Hook installed by the harness (observation only)
SCN = "doc"


# ---- reader variants: every documented way to select the mode of a reader entry point
#   plain       failsafe=<mode>, stripped=<s>
#   cls         decoder=<shipped class for (mode, s)>, failsafe=<mode>
#   cls_contra  decoder=<shipped class for (mode, s)>, failsafe=<not mode>, stripped=<not s>  ("ignored if a decoder class
#               is specified": the mode is what the decoder says)
#   sub_contra  decoder=<trivial subclass of the shipped class>, failsafe=<not mode>
# each through read_aas_*_file or read_aas_*_file_into(<empty DictObjectStore>)
PLAIN = {"kind": "plain", "stripped": False, "into": False}
_SUBCLASSES = {}


def decoder_class(fmt, mode, stripped, subclass=False):
    from basyx.aas.adapter import json as J, xml as X
    table = {("json", True, False): J.AASFromJsonDecoder, ("json", False, False): J.StrictAASFromJsonDecoder,
             ("json", True, True): J.StrippedAASFromJsonDecoder, ("json", False, True): J.StrictStrippedAASFromJsonDecoder,
             ("xml", True, False): X.AASFromXmlDecoder, ("xml", False, False): X.StrictAASFromXmlDecoder,
             ("xml", True, True): X.StrippedAASFromXmlDecoder, ("xml", False, True): X.StrictStrippedAASFromXmlDecoder}
    c = table[(fmt, mode, stripped)]
    if subclass:
        if c not in _SUBCLASSES:
            _SUBCLASSES[c] = type("Custom" + c.__name__, (c,), {})
        c = _SUBCLASSES[c]
    return c


def style_kwargs(fmt, mode, style):
    k, s = style["kind"], style["stripped"]
    if k == "plain":
        return {"failsafe": mode, "stripped": s}
    if k == "cls":
        return {"failsafe": mode, "decoder": decoder_class(fmt, mode, s)}
    if k == "cls_contra":
        return {"failsafe": not mode, "stripped": not s, "decoder": decoder_class(fmt, mode, s)}
    return {"failsafe": not mode, "decoder": decoder_class(fmt, mode, s, subclass=True)}


def style_of(h):
    """deterministic choice of a reader variant from a hash: 60 % plain, the rest spread over the others"""
    kinds = ["plain"] * 6 + ["cls", "cls_contra", "sub_contra", "plain"]
    k = kinds[h % 10]
    stripped = (h % 10 == 9) or (k != "plain" and (h // 10) % 4 == 0)
    return {"kind": k, "stripped": stripped, "into": (h // 40) % 2 == 1}


# ---- logging configurations: the result of a read must not depend on them
def logcfg(n):
    """context manager: 0 basyx logger silent (level above CRITICAL, the harness default), 1 level NOTSET (root default
    WARNING), 2 DEBUG with a stream handler attached, 3 ERROR, 4 logging.disable(CRITICAL), 5 no handler at all
    (root handlers removed, lastResort None), 6 CRITICAL"""
    import contextlib

    @contextlib.contextmanager
    def cm():
        lg, root = logging.getLogger("basyx"), logging.getLogger()
        old = (lg.level, list(lg.handlers), list(root.handlers), logging.lastResort, logging.root.manager.disable)
        h = None
        try:
            if n == 1:
                lg.setLevel(logging.NOTSET)
            elif n == 2:
                lg.setLevel(logging.DEBUG)
                h = logging.StreamHandler(io.StringIO())
                lg.addHandler(h)
            elif n == 3:
                lg.setLevel(logging.ERROR)
            elif n == 4:
                lg.setLevel(logging.NOTSET)
                logging.disable(logging.CRITICAL)
            elif n == 5:
                lg.setLevel(logging.NOTSET)
                for x in list(root.handlers):
                    root.removeHandler(x)
                logging.lastResort = None
                root.manager.emittedNoHandlerWarning = True     # no "No handlers could be found" line on stderr
            elif n == 6:
                lg.setLevel(logging.CRITICAL)
            yield
        finally:
            lg.setLevel(old[0])
            if h is not None:
                lg.removeHandler(h)
            for x in old[2]:
                if x not in root.handlers:
                    root.addHandler(x)
            logging.lastResort = old[3]
            logging.disable(old[4])
    return cm()


def run_reader(fmt, data, failsafe, into=None, style=None, **kw):
    """-> ('ok', store) | ('exc', exception);  `failsafe` is the mode; `style` says how the mode is selected"""
    if HOOK is not None:
        HOOK.begin(failsafe, SCN)
    try:
        if style is not None and style is not PLAIN:
            kw = dict(kw)
            kw.update(style_kwargs(fmt, failsafe, style))
            flag = kw.pop("failsafe")
            if style["into"] and into is None:
                into = model.DictObjectStore()
            return _run_reader(fmt, data, flag, into, **kw)
        return _run_reader(fmt, data, failsafe, into, **kw)
    finally:
        if HOOK is not None:
            HOOK.end()


def _run_reader(fmt, data, failsafe, into=None, **kw):
    try:
        if fmt == "json":
            f = io.StringIO(data) if isinstance(data, str) else io.BytesIO(data)
            if into is not None:
                read_aas_json_file_into(into, f, failsafe=failsafe, **kw)
                return "ok", into
            return "ok", read_aas_json_file(f, failsafe=failsafe, **kw)
        f = io.BytesIO(data)
        if into is not None:
            read_aas_xml_file_into(into, f, failsafe=failsafe, **kw)
            return "ok", into
        return "ok", read_aas_xml_file(f, failsafe=failsafe, **kw)
    except Exception as e:   # noqa  (includes RecursionError raised inside a reader)
        return "exc", e


def canon_of(store):
    res = {}
    for o in store:
        try:
            res[o.id] = json.dumps(aasgen.canon(o), sort_keys=True, default=str)
        except Exception as e:  # noqa  (an object the canonicaliser cannot read is its own canonical form)
            res[o.id] = f"<uncanonical {type(e).__name__}: {e}>"
    return res


# ------------------------------------------------------------------ JSON damage

def _jget(doc, path):
    cur = doc
    for k in path:
        cur = cur[k]
    return cur


def json_nodes(item, base):
    """all paths (tuples) below an identifiable: every member of every object, every list item"""
    out = []

    def go(v, p):
        if isinstance(v, dict):
            for k in v:
                out.append(p + (k,))
                go(v[k], p + (k,))
        elif isinstance(v, list):
            for i, x in enumerate(v):
                out.append(p + (i,))
                go(x, p + (i,))
    go(item, base)
    return out


def json_applicable(doc, path):
    """operators applicable to the node at path (beyond the always applicable ones)"""
    parent = _jget(doc, path[:-1])
    key = path[-1]
    v = parent[key]
    ops = ["delete", "null", "wrongtype"]
    if isinstance(v, str):
        ops += ["empty", "overlong", "forbidden"]
        if key in ENUM_KEYS:
            ops.append("enum")
        if key == "modelType":
            ops.append("modeltype")
        if (isinstance(parent, dict) and key in ("value", "min", "max")
                and ("valueType" in parent or parent.get("modelType") in ("Extension",))) or key in XS_KEYS:
            ops.append("xsliteral")
            ops.append("xsextreme")
            if lexeq_variants(XS_FIXED.get(key) or parent.get("valueType"), v, False):
                ops.append("lexeq")
        if isinstance(parent, dict) and parent.get("modelType") == "Blob" and key == "value":
            ops.append("base64")
        if key == "id" and len(path) == 3:
            ops.append("dupid")
    if isinstance(v, bool) and key in ENUM_KEYS:
        ops.append("enum")
    if isinstance(v, dict) and key == "levelType":
        ops.append("enum")
    if isinstance(v, dict) and len(path) == 2:
        ops.append("wronglist")
        ops.append("harmless")
    if isinstance(v, dict) and "idShort" in v and isinstance(parent, list) and len(parent) > 1 and len(path) > 2:
        ops.append("dupid")
    return ops


def json_damage(doc, path, op, variant, other_id=None):
    """returns a damaged deep copy of doc, or None if not applicable"""
    d = copy.deepcopy(doc)
    if op == "harmless":
        return RawText(json_relex(d, variant))
    if op == "lexeq":
        par = _jget(d, path[:-1])
        alts = lexeq_variants(XS_FIXED.get(path[-1]) or par.get("valueType"), par[path[-1]], False)
        if not alts:
            return None
        par[path[-1]] = alts[variant % len(alts)]
        return d
    parent = _jget(d, path[:-1])
    key = path[-1]
    v = parent[key]
    if op == "delete":
        del parent[key]
    elif op == "null":
        parent[key] = None
    elif op == "wrongtype":
        if isinstance(v, bool):
            alts = ["true", 1, [True]]
        elif isinstance(v, str):
            alts = [17, [v], {"x": v}, True, 1.5, {"modelType": "Property", "valueType": "xs:int"}]
        elif isinstance(v, list):
            alts = [{"x": 1}, "abc", 5, {"modelType": "Capability"}, [], [None], [v], [[]], {"modelType": "Submodel", "id": "urn:w"}]
        elif isinstance(v, dict):
            alts = [[1], "abc", 5, [v], {}, {"modelType": "Capability", "idShort": "c"},
                    {"modelType": "Submodel", "id": "urn:w"}, {"modelType": "Property", "idShort": "p", "valueType": "xs:int"},
                    {"modelType": "ConceptDescription", "id": "urn:w2"}, True]
        else:
            alts = ["1", [v]]
        parent[key] = alts[variant % len(alts)]
    elif op == "enum":
        if isinstance(v, dict):
            v2 = dict(v)
            v2["noSuchLevel"] = True
            parent[key] = v2
        elif isinstance(v, bool):
            parent[key] = "maybe"
        else:
            parent[key] = ["NoSuchLiteral", v.lower() if v.lower() != v else v.upper(), v + " "][variant % 3]
    elif op == "empty":
        parent[key] = ""
    elif op == "overlong":
        parent[key] = [("x" * 2100), v + "y" * 5000][variant % 2]
    elif op == "forbidden":
        alts = [v + "\u0000", "\ufffe" + v, v + "\ud800", "\x0b"]
        alts = PATTERN_KEYS.get(key, []) + alts
        parent[key] = alts[variant % len(alts)]
    elif op == "xsliteral":
        parent[key] = ["abc", "99999999999999999999999999999999999999", "-", "1e9999", "P99999999999999999999Y",
                       "9999-99-99T99:99:99", " 1", "0x10"][variant % 8]
    elif op == "xsextreme":
        t, lit = extreme_pair(key, variant)
        if t is not None and isinstance(parent, dict):
            parent["valueType"] = t
        parent[key] = lit
    elif op == "base64":
        parent[key] = ["abc", "abcde", "üüüü", "====", "QUJD" * 300000, "QUJD" * 300000 + "Q", "QUJD\r\n", "QU JD", "Q",
                       "\ud800AAA"][variant % 10]
    elif op == "modeltype":
        alts = ["Foo", ""] + [m for m in OTHER_MODELTYPES if m != v]
        parent[key] = alts[variant % len(alts)]
    elif op == "dupid":
        if key == "id":
            if other_id is None:
                return None
            parent[key] = other_id
        else:
            sib = parent[(key + 1) % len(parent)]
            if not isinstance(sib, dict) or "idShort" not in sib:
                return None
            v["idShort"] = sib["idShort"]
    elif op == "wronglist":
        lname = path[0]
        others = [n for n in JSON_LISTS if n != lname]
        tgt = others[variant % 2]
        item = parent.pop(key)
        if variant % 3 == 2:
            d["noSuchList"] = [item]
        else:
            d.setdefault(tgt, []).insert(0, item)
    else:
        raise ValueError(op)
    return d


def json_relex(d, variant):
    """another JSON text of the same document"""
    def rev(v):
        if isinstance(v, dict):
            return {k: rev(v[k]) for k in reversed(list(v))}
        if isinstance(v, list):
            return [rev(x) for x in v]
        return v
    k = variant % 10
    if k == 7:
        return json.dumps(d, ensure_ascii=False).encode("utf-16")       # json.load detects UTF-16 / UTF-32 / BOM
    if k == 8:
        return json.dumps(d, ensure_ascii=False).encode("utf-32-le")
    if k == 9:
        return json.dumps(d, ensure_ascii=False).encode("utf-8-sig")
    if k == 0:
        return json.dumps(d, indent=2)
    if k == 1:
        return json.dumps(d, indent="\t", separators=(" ,\r\n ", "  :\t"))
    if k == 2:
        return " \n\t\r " + json.dumps(d) + " \r\n\t "
    if k == 3:
        return json.dumps(rev(d))                      # member order of every object reversed (modelType last ...)
    if k == 4:
        return json.dumps(d, sort_keys=True)
    if k == 5:
        return json.dumps(d, ensure_ascii=False)
    # every string character as a \uXXXX escape
    text = json.dumps(d, ensure_ascii=True)
    out, instr, i = [], False, 0
    while i < len(text):
        c = text[i]
        if instr and c == "\\":
            out.append(text[i:i + 2] if text[i + 1] != "u" else text[i:i + 6])
            i += 2 if text[i + 1] != "u" else 6
            continue
        if c == '"':
            instr = not instr
            out.append(c)
        elif instr:
            out.append("\\u%04x" % ord(c))
        else:
            out.append(c)
        i += 1
    return "".join(out)


# ------------------------------------------------------------------ XML damage

def xml_nodes(item, base):
    """paths (tuples of child indices) of every element below (and including) an identifiable"""
    out = []

    def go(el, p):
        for i, ch in enumerate(el):
            out.append(p + (i,))
            go(ch, p + (i,))
    go(item, base)
    return out


def _xget(root, path):
    cur = root
    for i in path:
        cur = cur[i]
    return cur


def _lname(el):
    return el.tag.split("}", 1)[-1] if isinstance(el.tag, str) else "?"


ENUM_TAGS = ENUM_KEYS
XS_TAGS = XS_KEYS


def xml_leaf_type(el):
    """XSD type of the text of a leaf element, as far as the document itself says it"""
    parent = el.getparent()
    name = _lname(el)
    if len(el) > 0 or el.text is None or parent is None:
        return None
    if name in XS_FIXED:
        return XS_FIXED[name]
    pn = _lname(parent)
    if name == "orderRelevant" or pn == "levelType":
        return "xs:boolean"
    if name == "value" and pn == "blob":
        return "xs:base64Binary"
    if name in ("value", "min", "max") and pn in ("property", "range", "qualifier", "extension"):
        vt = parent.find(NS + "valueType")
        return vt.text if vt is not None else None
    return None


def xml_schema_typed(el):
    parent = el.getparent()
    pn = _lname(parent) if parent is not None else ""
    return "schema" if (_lname(el) == "orderRelevant" or pn == "levelType" or (_lname(el) == "value" and pn == "blob")) \
        else "xml"


def xml_applicable(root, path):
    el = _xget(root, path)
    parent = el.getparent()
    name = _lname(el)
    leaf = len(el) == 0
    ops = ["delete", "null", "wrongtype", "modeltype", "harmless", "nsrebind"]
    if leaf and el.text is not None:
        ops += ["empty", "overlong"]
        if name in PATTERN_KEYS:
            ops.append("forbidden")
        if name in ENUM_TAGS or (parent is not None and _lname(parent) == "levelType"):
            ops.append("enum")
        if (name in ("value", "min", "max") and parent is not None
                and (parent.find(NS + "valueType") is not None or _lname(parent) == "extension")) or name in XS_TAGS:
            ops.append("xsliteral")
            ops.append("xsextreme")
        if xml_leaf_type(el) and lexeq_variants(xml_leaf_type(el), el.text, xml_schema_typed(el)):
            ops.append("lexeq")
        if name == "value" and parent is not None and _lname(parent) == "blob":
            ops.append("base64")
        if name == "id" and len(path) == 3:
            ops.append("dupid")
    if len(path) == 2:
        ops.append("wronglist")
    if (not leaf and el.find(NS + "idShort") is not None and parent is not None and len(parent) > 1
            and len(path) > 2):
        ops.append("dupid")
    return ops


def xml_damage(root, path, op, variant, other_id=None):
    r = copy.deepcopy(root)
    el = _xget(r, path)
    parent = el.getparent()
    name = _lname(el)
    if op == "harmless":
        return xml_relex(r, el, parent, variant)
    if op == "lexeq":
        alts = lexeq_variants(xml_leaf_type(el), el.text, xml_schema_typed(el))
        if not alts:
            return None
        el.text = alts[variant % len(alts)]
        return r
    if op == "nsrebind":
        return xml_nsrebind(r, el, variant)
    if op == "delete":
        parent.remove(el)
    elif op == "null":
        for ch in list(el):
            el.remove(ch)
        el.text = None
    elif op == "wrongtype":
        if len(el) == 0:
            k = variant % 3
            if k == 0:
                etree.SubElement(el, NS + "foo").text = "1"
            elif k == 1:
                etree.SubElement(el, NS + "property")
            else:
                el.text = None
                etree.SubElement(el, NS + "key")
        else:
            for ch in list(el):
                el.remove(ch)
            el.text = ["17", "abc", " "][variant % 3]
    elif op == "enum":
        if parent is not None and _lname(parent) == "levelType":
            if variant % 2:
                el.text = "maybe"
            else:
                el.tag = NS + "noSuchLevel"
        else:
            v = el.text
            el.text = ["NoSuchLiteral", v.lower() if v.lower() != v else v.upper(), v + " "][variant % 3]
    elif op == "empty":
        el.text = ""
    elif op == "overlong":
        el.text = [("x" * 2100), el.text + "y" * 5000][variant % 2]
    elif op == "forbidden":
        alts = PATTERN_KEYS[name]
        el.text = alts[variant % len(alts)]
    elif op == "xsliteral":
        el.text = ["abc", "99999999999999999999999999999999999999", "-", "1e9999", "P99999999999999999999Y",
                   "9999-99-99T99:99:99", " 1", "0x10"][variant % 8]
    elif op == "xsextreme":
        t, lit = extreme_pair(name, variant)
        vt = parent.find(NS + "valueType") if parent is not None else None
        if t is not None:
            if vt is None:
                vt = etree.Element(NS + "valueType")
                el.addprevious(vt)
            vt.text = t
        el.text = lit
    elif op == "base64":
        el.text = ["abc", "abcde", "üüüü", "====", "QUJD" * 300000, "QUJD" * 300000 + "Q", "QUJD\r\n", "QU JD", "Q",
                   "A"][variant % 10]
    elif op == "modeltype":
        alts = [NS + "foo", "{urn:other}" + name, name] + [NS + t for t in OTHER_TAGS if t != name]
        el.tag = alts[variant % len(alts)]
    elif op == "dupid":
        if name == "id":
            if other_id is None:
                return None
            el.text = other_id
        else:
            sibs = [s for s in parent if s is not el and s.find(NS + "idShort") is not None]
            if not sibs:
                return None
            el.find(NS + "idShort").text = sibs[variant % len(sibs)].find(NS + "idShort").text
    elif op == "wronglist":
        ltag = parent.tag
        others = [n for n in XML_LISTS if n != ltag]
        tgt = others[variant % 2]
        parent.remove(el)
        if len(parent) == 0 and variant % 5 == 4:
            r.remove(parent)
        tl = r.find(tgt)
        if variant % 3 == 2:
            tl = etree.SubElement(r, NS + "noSuchLists")
        elif tl is None:
            tl = etree.SubElement(r, tgt)
        tl.insert(0, el)
    else:
        raise ValueError(op)
    return r


AAS3 = NS[1:-1]
OLD_NS = "http://www.admin-shell.io/aas/2/0"


HARMLESS_K = 22      # number of lexical variants of the harmless operator for XML


def _entity_value(t):
    """text -> the literal of an internal general entity whose replacement text, *parsed at the point of the
    reference*, is character data t (XML 1.0 section 4.4: character references in the literal are expanded when the
    declaration is read, general-entity references are bypassed and expanded at the reference)"""
    out = []
    for c in t:
        if c == "&":
            out.append("&amp;")
        elif c == "<":
            out.append("&lt;")
        elif c == ">":
            out.append("&gt;")
        elif c in "%\"'" or not (32 <= ord(c) < 127):
            out.append("&#x%X;" % ord(c))
        else:
            out.append(c)
    return "".join(out)


def _doctype_name(r):
    q = etree.QName(r)
    return (r.prefix + ":" if r.prefix else "") + q.localname


def _tree_shape(e):
    """tag, attributes, character data and children of an element (what the XML information set says about it)"""
    return (e.tag, sorted(e.attrib.items()), e.text or "", e.tail or "", [_tree_shape(c) for c in e])


def _with_entities(r, body, decls, reference_tree=None):
    """the serialised document `body` behind a document type declaration whose internal subset declares the general
    entities decls = [(name, literal)].  With reference_tree, the text is first read by an independent plain parser
    (libxml2 defaults: entities are expanded) and must give the same elements, attributes and character data as
    reference_tree (a _tree_shape); otherwise None."""
    subset = "".join('<!ENTITY %s "%s">' % (n, v) for n, v in decls)
    data = ("<!DOCTYPE %s [%s]>" % (_doctype_name(r), subset) + body).encode()
    if reference_tree is not None:
        try:
            got = _tree_shape(etree.fromstring(data, etree.XMLParser()))
        except etree.XMLSyntaxError:
            return None
        if got[:3] + got[4:] != reference_tree[:3] + reference_tree[4:]:
            return None
    return RawText(data)


def _text_cuts(t, variant):
    """positions at which a comment is put into a text: behind leading / before trailing white space (the parser may
    take white-space-only character data next to markup for indentation), the ends, and a seeded position"""
    lead = len(t) - len(t.lstrip())
    cuts = sorted({lead, len(t.rstrip()), 0, len(t), (variant // HARMLESS_K) % (len(t) + 1)})
    return cuts[(variant // HARMLESS_K) % len(cuts)]


def _retag(text, mapping):
    """textual change of namespace declarations / prefixes of a serialised document (only in markup)"""
    import re
    for a, b in mapping:
        text = re.sub(a, b, text)
    return text


def xml_relex(r, el, parent, variant):
    """inserts a comment / processing instruction / white space at or inside node el, or spells the namespaces
    differently; the content is unchanged"""
    def junk(k):
        return etree.Comment(" note ") if k % 2 == 0 else etree.ProcessingInstruction("verif", "x=1")
    k = variant % HARMLESS_K
    if k in (0, 1):                                    # before the node (between list items / elements)
        el.addprevious(junk(k))
    elif k in (2, 3):                                  # after the node
        el.addnext(junk(k))
    elif k in (4, 5):                                  # inside: first child of a container, inside the text of a leaf
        j = junk(k)
        if len(el) > 0 or not el.text:
            el.insert(0, j)
        else:
            t = el.text
            cut = _text_cuts(t, variant)
            el.text, j.tail = t[:cut], t[cut:]
            el.insert(0, j)
    elif k == 6:                                       # last child / at the end of the text
        el.append(junk(variant // HARMLESS_K))
    elif k == 7:                                       # directly under the root, before the first list
        r.insert(0, junk(variant // HARMLESS_K))
    elif k == 8:                                       # after the last list and around the root element
        r.append(junk(variant // HARMLESS_K))
        r.addprevious(etree.Comment(" before the root "))
        return RawText(etree.tostring(r.getroottree()))
    elif k == 9:                                       # white space between all elements
        return RawText(etree.tostring(r, pretty_print=True))
    elif k == 10:                                      # the AAS namespace as default namespace, no prefix
        return RawText(_retag(etree.tostring(r).decode(), [(r"<aas:", "<"), (r"</aas:", "</"),
                                                           (r"xmlns:aas=", "xmlns=")]).encode())
    elif k == 11:                                      # another prefix for the AAS namespace
        return RawText(_retag(etree.tostring(r).decode(), [(r"<aas:", "<a3:"), (r"</aas:", "</a3:"),
                                                           (r"xmlns:aas=", "xmlns:a3=")]).encode())
    elif k == 12:                                      # the node's subtree declares the AAS namespace as its default
        text = etree.tostring(el, with_tail=False).decode()
        text = _retag(text, [(r"<aas:", "<"), (r"</aas:", "</"), (r"xmlns:aas=", "xmlns=")])
        new = etree.fromstring(text.encode())
        new.tail = el.tail
        if parent is None:
            return RawText(text.encode())
        parent.replace(el, new)
    elif k == 13:                                      # another encoding of the same document
        return RawText(etree.tostring(r, encoding="UTF-16", xml_declaration=True))
    elif k == 14:                                      # ... characters outside Latin-1 become character references
        return RawText(etree.tostring(r, encoding="ISO-8859-1", xml_declaration=True))
    elif k == 15:                                      # the text of a leaf as a CDATA section
        if len(el) == 0 and el.text and "]]>" not in el.text and "\r" not in el.text:
            # (a carriage return cannot be escaped inside CDATA and would be normalised to a line feed)
            el.text = etree.CDATA(el.text)
            # (UTF-8: with the default ASCII output lxml writes character references *inside* the CDATA section)
            return RawText(etree.tostring(r, encoding="UTF-8"))
        else:
            el.addprevious(junk(0))
    elif k == 16:                                      # schema location and further namespace declarations on the root
        text = etree.tostring(r).decode()
        return RawText(text.replace(
            f'xmlns:aas="{AAS3}"', f'xmlns:aas="{AAS3}" xmlns:xsi="http://www.w3.org/2001/XMLSchema-instance" '
            f'xmlns:other="urn:other" xsi:schemaLocation="{AAS3} AAS.xsd"', 1).encode())
    elif k == 17:                                      # attributes the metamodel does not know
        el.set("{http://www.w3.org/XML/1998/namespace}space", "preserve")
        el.set("note", "x")
    elif k == 18:                                      # the text of a leaf spelled with numeric character references
        if len(el) == 0 and el.text:
            t, el.text = el.text, "VERIFMARKVERIF"
            refs = "".join("&#x%X;" % ord(c) for c in t)
            return RawText(etree.tostring(r).decode().replace("VERIFMARKVERIF", refs, 1).encode())
        el.addnext(junk(1))
    elif k == 19:
        # (part of) the text of a leaf is the replacement text of an internal general entity declared in the document's
        # own DOCTYPE (XML 1.0 section 4: a conforming parser includes the replacement text; the content is the same)
        if len(el) == 0 and el.text and "\r" not in el.text:
            ref_tree = _tree_shape(r)
            t, c = el.text, variant // HARMLESS_K
            cut = _text_cuts(t, variant)
            if c % 3 == 0 or cut in (0, len(t)):
                a, e, b = "", t, ""                    # the whole text
            elif c % 3 == 1:
                a, e, b = "", t[:cut], t[cut:]         # a prefix ("&base;/sm/1")
            else:
                a, e, b = t[:cut], t[cut:], ""         # a suffix
            el.text = a + "VERIFMARKVERIF" + b
            body = etree.tostring(r).decode().replace("VERIFMARKVERIF", "&ve;", 1)
            res = _with_entities(r, body, [("unused", "x"), ("ve", _entity_value(e))], ref_tree)
            if res is not None:
                return res
            el.text = t
        el.addprevious(junk(0))
    elif k == 20:
        # a reference to an entity with white-space-only (or empty) replacement text between elements: before / after
        # the node, as first child of a container, directly under the root
        c = variant // HARMLESS_K
        mark = etree.Comment("VERIFMARKVERIF")
        where = c % 4 if parent is not None else 2 + c % 2
        if where == 0 or (where == 2 and len(el) == 0):
            el.addprevious(mark)
        elif where == 1:
            el.addnext(mark)
        elif where == 2:
            el.insert(0, mark)
        else:
            r.insert((c // 4) % (len(r) + 1), mark)
        body = etree.tostring(r).decode().replace("<!--VERIFMARKVERIF-->", "&ws;", 1)
        return _with_entities(r, body, [("ws", ["&#x20;", "&#xA;&#x9;", ""][(c // 4) % 3])])
    else:
        # the node itself (an element with its subtree) is the replacement text of an internal general entity (it
        # declares the namespace prefix itself: libxml2 parses the replacement text without the context of the reference)
        if parent is not None and "\r" not in "".join(el.itertext()):
            ref_tree = _tree_shape(r)
            sub = etree.tostring(el, with_tail=False).decode()
            mark = etree.Comment("VERIFMARKVERIF")
            mark.tail = el.tail
            parent.replace(el, mark)
            body = etree.tostring(r).decode().replace("<!--VERIFMARKVERIF-->", "&node;", 1)
            lit = sub.replace("%", "&#x25;").replace('"', "&#x22;")
            res = _with_entities(r, body, [("node", lit)], ref_tree)
            if res is not None:
                return res
            parent.replace(mark, el)
        el.addnext(junk(0))
    return r


def xml_nsrebind(r, el, variant):
    """damage: binds the prefix `aas` (or the default namespace) to another namespace, e.g. that of an older version
    of the metamodel, on the root or on one element"""
    k = variant % 6
    whole = etree.tostring(r).decode()
    if k == 0:                                         # the whole document is of the old version
        return RawText(whole.replace(f'xmlns:aas="{AAS3}"', f'xmlns:aas="{OLD_NS}"', 1).encode())
    if k == 3:                                         # ... and declares the 3.0 namespace under another prefix
        return RawText(whole.replace(f'xmlns:aas="{AAS3}"', f'xmlns:aas="{OLD_NS}" xmlns:a3="{AAS3}"', 1).encode())
    if k in (1, 4):                                    # one element re-binds the prefix (4: its children bind it back)
        el.set("verifmark", "1")
        if k == 4:
            for ch in el:
                ch.set("verifmark", "2")
        text = etree.tostring(r).decode()
        text = _retag(text, [(r'(<aas:[A-Za-z0-9]+) verifmark="1"', r'\1 xmlns:aas="%s"' % OLD_NS),
                             (r'(<aas:[A-Za-z0-9]+) verifmark="2"', r'\1 xmlns:aas="%s"' % AAS3)])
        return RawText(text.encode())
    text = etree.tostring(el, with_tail=False).decode()
    if k == 2:                                         # the subtree is in the old namespace, as default namespace
        text = _retag(text, [(r"<aas:", "<"), (r"</aas:", "</"), (r'xmlns:aas="[^"]*"', 'xmlns="%s"' % OLD_NS)])
    else:                                              # the subtree is in no namespace
        text = _retag(text, [(r"<aas:", "<"), (r"</aas:", "</"), (r' xmlns:aas="[^"]*"', "")])
    new = etree.fromstring(text.encode())
    new.tail = el.tail
    parent = el.getparent()
    if parent is None:
        return RawText(text.encode())
    parent.replace(el, new)
    return r


def damages_all(op, variant):
    """operators that damage every identifiable of the document"""
    return op == "nsrebind" and variant % 6 in (0, 3)


# ------------------------------------------------------------------ the oracle on one damaged document

def classify(e):
    """exception class -> short name; subclasses of the documented classes keep their own name"""
    return type(e).__name__


def documented(e):
    return isinstance(e, DOCUMENTED)


def oracle(fmt, data, base_canon, damaged_ids, all_ids, dup_rule=None, harmless=False, style=None, out=None):
    """Runs failsafe and strict readers on `data`.
    base_canon: {id: canonical form} of the undamaged read;  damaged_ids: ids of identifiables containing
    the damage (their fate is free);  all_ids: ids present in the undamaged document.
    Returns (obs, failure) with obs = (failsafe outcome, strict outcome) and failure = None | (kind, text)."""
    k1, r1 = run_reader(fmt, data, True, style=style)
    k2, r2 = run_reader(fmt, data, False, style=style)
    fs = "ok" if k1 == "ok" else classify(r1)
    stc = "ok" if k2 == "ok" else classify(r2)
    fail = None
    c1 = None
    if k1 != "ok":
        fail = ("failsafe-raises:" + classify(r1), f"failsafe read raised {type(r1).__name__}: {str(r1)[:300]}")
    else:
        c1 = canon_of(r1)
        for i in all_ids:
            if i in damaged_ids:
                continue
            if i not in c1:
                fail = ("undamaged-dropped", f"identifiable {i!r} contains no damage but is missing from the failsafe result")
                break
            if c1[i] != base_canon[i]:
                fail = ("undamaged-changed", f"identifiable {i!r} contains no damage but was read differently: "
                        + str(aasgen.diff(json.loads(base_canon[i]), json.loads(c1[i]))))
                break
        if fail is None:
            text = data if isinstance(data, str) else data.decode("utf-8", "replace")
            # (an identifier written into the document by the damage itself is not "extra")
            extra = [i for i in c1 if i not in all_ids and i not in (dup_rule or ()) and str(i) not in text]
            if extra:
                fail = ("extra-object", f"failsafe result contains identifiers {extra[:3]!r} that are not in the document")
    if fail is None and harmless and k2 != "ok":
        fail = ("harmless-strict-raises:" + classify(r2), "strict read of a document that differs from a valid one only "
                f"lexically (comment / processing instruction / white space / member order) raised "
                f"{type(r2).__name__}: {str(r2)[:300]}")
    if fail is None:
        if k2 == "ok":
            c2 = canon_of(r2)
            if c1 is not None and c2 != c1:
                diffs = [i for i in set(c1) | set(c2) if c1.get(i) != c2.get(i)]
                fail = ("strict-differs", f"strict read returned without raising but differs from failsafe on {diffs[:3]!r}")
        elif not documented(r2):
            fail = ("strict-raises:" + classify(r2), f"strict read raised undocumented {type(r2).__name__}: {str(r2)[:300]}")
    if out is not None:
        out["failsafe"] = c1
        out["strict"] = canon_of(r2) if k2 == "ok" else None
    return (fs, stc), fail
