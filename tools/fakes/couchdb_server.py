"""A loopback stand-in for a CouchDB server (there is no CouchDB and no network in this sandbox).

Implements, from the CouchDB HTTP API reference (api/database, api/document), the subset the SDK's
client uses, with real MVCC revision checks:

  HEAD|GET /{db}              200 db info {"db_name", "doc_count", ...} | 404 not_found
  PUT      /{db}              201 | 412 file_exists           DELETE /{db}   200 | 404
  GET      /{db}/_all_docs    {"total_rows", "offset", "rows": [{"id","key","value":{"rev"}}]} by ascending id
  GET|HEAD /{db}/{docid}      200 doc incl. _id/_rev, ETag: "rev" | 404 not_found (missing | deleted)
  PUT      /{db}/{docid}      201 {"ok","id","rev"}; the revision comes from body `_rev`, `?rev=` or If-Match;
                              new document: no revision allowed;  existing document: the revision must be
                              the current one, otherwise 409 conflict;  deleted document: no revision or
                              the tombstone's revision
  DELETE   /{db}/{docid}?rev= 200 {"ok","id","rev"} | 404 not_found | 409 conflict (missing or stale rev)

Revisions are "<generation>-<md5>" with the generation growing by one per accepted write, across
deletion.  Basic auth is enforced when credentials are configured (401 unauthorized otherwise).
The Content-Type of a reply is application/json when the request accepts it, else text/plain (as
CouchDB does).  Document ids are the percent-decoded path segment.

Not implemented: attachments, design documents, views, _bulk_docs, _changes, replication,
conflicting revision trees, ICU collation of _all_docs (plain code point order is used).
Document ids starting with an underscore are refused with 400 illegal_docid (as CouchDB does).

Fault injection (per logical request, armed by the harness with `arm`): answer with a given
status and a CouchDB-style JSON error body, answer 200 with a body that is not JSON, or drop the
connection without an answer (every retry of the same request is dropped too).  Such a faulted request
is never processed.  ("lost",): the request IS processed as usual, but the connection is closed instead
of sending the answer (the answer is lost on the wire); a repetition of the request directly after it
is served normally and counted in `repeats` (not as a further logical request).
"""
import base64
import hashlib
import json
import socket
import threading
import urllib.parse
from http.server import BaseHTTPRequestHandler, ThreadingHTTPServer

REASONS = {
    401: ("unauthorized", "Name or password is incorrect."),
    404: ("not_found", "missing"),
    409: ("conflict", "Document update conflict."),
    412: ("file_exists", "The database could not be created, the file already exists."),
    500: ("unknown_error", "injected"),
}


class _Doc:
    __slots__ = ("gen", "rev", "deleted", "body")

    def __init__(self):
        self.gen, self.rev, self.deleted, self.body = 0, None, True, None


class FakeCouchDB:
    def __init__(self, user=None, password=None):
        self.user, self.password = user, password
        self.dbs = {}                      # name -> {docid: _Doc}
        self.lock = threading.RLock()
        self.plan = {}                     # logical request index -> fault
        self.n = 0                         # logical request counter since the last arm()
        self.drops = 0
        self.fault_hits = 0                # arrivals answered by a fault since the last arm()
        self.lost_request = None
        self.repeats = 0
        self.log = []                      # (method, path, status or 'drop') since the last arm()
        self.httpd = None
        self.thread = None

    # ---- life cycle
    def start(self):
        fake = self

        class Handler(_Handler):
            server_state = fake
        self.httpd = ThreadingHTTPServer(("127.0.0.1", 0), Handler)
        self.httpd.daemon_threads = True
        self.thread = threading.Thread(target=self.httpd.serve_forever, kwargs={"poll_interval": 0.05}, daemon=True)
        self.thread.start()
        return self

    def stop(self):
        if self.httpd:
            self.httpd.shutdown()
            self.httpd.server_close()
            self.httpd = None

    @property
    def url(self):
        return "http://127.0.0.1:%d" % self.httpd.server_address[1]

    # ---- harness interface
    def arm(self, plan=None):
        """plan: {logical request index (0-based, counted from now): fault}
        fault = ("status", code) | ("garbage",) | ("garbage", "empty" | "truncated") | ("drop",) | ("lost",)"""
        with self.lock:
            self.plan = dict(plan or {})
            self.n = 0
            self.drops = 0
            self.fault_hits = 0
            self.log = []
            self.lost_request = None       # (method, path) of the request whose answer was lost
            self.repeats = 0               # arrivals that repeat it (same method and path, directly after it)

    def snapshot(self, db):
        """{docid: (generation, deleted, body without _id/_rev)}"""
        with self.lock:
            return {k: (d.gen, d.deleted, d.body) for k, d in self.dbs.get(db, {}).items() if d.gen > 0}

    # ---- MVCC core (documented rules; each returns (status, json-able body, extra headers))
    @staticmethod
    def _newrev(doc, body, deleted):
        h = hashlib.md5(json.dumps([doc.rev, deleted, body], sort_keys=True).encode()).hexdigest()
        return "%d-%s" % (doc.gen + 1, h)

    def put_doc(self, db, docid, body, rev):
        docs = self.dbs[db]
        doc = docs.get(docid)
        if doc is None or doc.gen == 0:
            if rev is not None:
                return 409, None
            doc = docs.setdefault(docid, _Doc())
        elif doc.deleted:
            if rev is not None and rev != doc.rev:
                return 409, None
        elif rev != doc.rev:
            return 409, None
        doc.rev = self._newrev(doc, body, False)
        doc.gen += 1
        doc.deleted, doc.body = False, body
        return 201, {"ok": True, "id": docid, "rev": doc.rev}

    def delete_doc(self, db, docid, rev):
        doc = self.dbs[db].get(docid)
        if doc is None or doc.gen == 0 or doc.deleted:
            return 404, None
        if rev != doc.rev:
            return 409, None
        doc.rev = self._newrev(doc, None, True)
        doc.gen += 1
        doc.deleted, doc.body = True, None
        return 200, {"ok": True, "id": docid, "rev": doc.rev}


class _Handler(BaseHTTPRequestHandler):
    protocol_version = "HTTP/1.1"
    server_state = None

    def log_message(self, *a):
        pass

    def setup(self):
        super().setup()
        self.request.setsockopt(socket.IPPROTO_TCP, socket.TCP_NODELAY, 1)   # no 40 ms Nagle stalls

    # ---- plumbing
    def _reply(self, status, obj=None, headers=None, raw=None, head=False):
        st = self.server_state
        if getattr(self, "_lost", False):          # processed, but the answer never reaches the client
            self._lost = False
            return self._drop()
        if obj is None and raw is None and status >= 400:
            e, r = REASONS.get(status, ("error", "HTTP %d" % status))
            obj = {"error": e, "reason": r}
        data = raw if raw is not None else (json.dumps(obj) + "\n").encode("utf-8")
        ctype = "application/json" if "application/json" in (self.headers.get("Accept") or "") \
            else "text/plain; charset=utf-8"
        self.send_response(status)
        self.send_header("Content-Type", ctype)
        self.send_header("Content-Length", str(len(data)))
        self.send_header("Cache-Control", "must-revalidate")
        for k, v in (headers or {}).items():
            self.send_header(k, v)
        if not head:
            self._headers_buffer.append(b"\r\n" + data)      # headers and body in one segment
            self.flush_headers()
        else:
            self.end_headers()
        st.log.append((self.command, self.path, status))

    def _drop(self):
        self.server_state.log.append((self.command, self.path, "drop"))
        self.close_connection = True
        try:
            self.connection.shutdown(socket.SHUT_RDWR)
        except OSError:
            pass

    def _handle(self):
        st = self.server_state
        head = self.command == "HEAD"
        length = int(self.headers.get("Content-Length") or 0)
        body = self.rfile.read(length) if length else b""
        with st.lock:
            fault = st.plan.get(st.n)
            if fault:
                st.fault_hits += 1
            if fault and fault[0] == "drop":
                st.drops += 1
                if st.drops >= 8:         # a client that keeps retrying: let the next one through
                    st.n += 1
                    st.drops = 0
                return self._drop()
            if not fault and st.lost_request == (self.command, self.path) and st.log and st.log[-1][2] == "drop":
                st.repeats += 1            # the client (its connection pool) sends the same request again: one
                st.n -= 1                  # logical request
            st.n += 1
            self._lost = bool(fault and fault[0] == "lost")
            if self._lost:
                st.lost_request = (self.command, self.path)
            if fault and fault[0] == "status":
                return self._reply(fault[1], head=head)
            if fault and fault[0] == "garbage":
                # a 2xx answer whose body is not JSON: some text, nothing at all, or a truncated document
                raw = {"empty": b"", "truncated": b'{"ok": true, "id": "x", "re'}.get(
                    fault[1] if len(fault) > 1 else "", b"<html>not json</html>")
                return self._reply(200, raw=raw, head=head)
            # ---- authentication
            if st.user is not None:
                want = "Basic " + base64.b64encode(("%s:%s" % (st.user, st.password)).encode()).decode()
                if self.headers.get("Authorization") != want:
                    return self._reply(401, head=head)
            # ---- routing
            path, _, query = self.path.partition("?")
            q = urllib.parse.parse_qs(query)
            segs = [urllib.parse.unquote(s) for s in path.split("/")[1:]]
            if segs and segs[-1] == "" and len(segs) > 1:
                segs = segs[:-1]
            if segs == [""]:
                return self._reply(200, {"couchdb": "Welcome", "version": "fake"}, head=head)
            db = segs[0]
            if len(segs) == 1:
                return self._db(db, head)
            if db not in st.dbs:
                return self._reply(404, {"error": "not_found", "reason": "Database does not exist."}, head=head)
            if len(segs) == 2 and segs[1] == "_all_docs":
                if self.command != "GET":
                    return self._reply(405, {"error": "method_not_allowed", "reason": "Only GET allowed"}, head=head)
                rows = [{"id": k, "key": k, "value": {"rev": d.rev}}
                        for k, d in sorted(st.dbs[db].items()) if d.gen > 0 and not d.deleted]
                return self._reply(200, {"total_rows": len(rows), "offset": 0, "rows": rows})
            if len(segs) != 2:
                return self._reply(400, {"error": "bad_request", "reason": "attachments are not supported by the fake"},
                                   head=head)
            return self._doc(db, segs[1], q, body, head)

    def _db(self, db, head):
        st = self.server_state
        if self.command in ("GET", "HEAD"):
            if db not in st.dbs:
                return self._reply(404, {"error": "not_found", "reason": "Database does not exist."}, head=head)
            docs = st.dbs[db]
            n = sum(1 for d in docs.values() if d.gen > 0 and not d.deleted)
            ndel = sum(1 for d in docs.values() if d.gen > 0 and d.deleted)
            return self._reply(200, {"db_name": db, "doc_count": n, "doc_del_count": ndel,
                                     "update_seq": "0-fake", "purge_seq": 0, "compact_running": False}, head=head)
        if self.command == "PUT":
            if db in st.dbs:
                return self._reply(412)
            st.dbs[db] = {}
            return self._reply(201, {"ok": True})
        if self.command == "DELETE":
            if db not in st.dbs:
                return self._reply(404, {"error": "not_found", "reason": "Database does not exist."})
            del st.dbs[db]
            return self._reply(200, {"ok": True})
        return self._reply(405, {"error": "method_not_allowed", "reason": "Only DELETE,GET,HEAD,PUT allowed"})

    def _doc(self, db, docid, q, body, head):
        st = self.server_state
        docs = st.dbs[db]
        if self.command in ("GET", "HEAD"):
            d = docs.get(docid)
            if d is None or d.gen == 0:
                return self._reply(404, {"error": "not_found", "reason": "missing"}, head=head)
            if d.deleted:
                return self._reply(404, {"error": "not_found", "reason": "deleted"}, head=head)
            out = {"_id": docid, "_rev": d.rev}
            out.update(d.body)
            return self._reply(200, out, {"ETag": '"%s"' % d.rev}, head=head)
        revs = set()
        if "rev" in q:
            revs.add(q["rev"][0])
        if self.headers.get("If-Match"):
            revs.add(self.headers["If-Match"].strip('"'))
        if self.command == "PUT":
            try:
                doc = json.loads(body.decode("utf-8"))
                if not isinstance(doc, dict):
                    raise ValueError()
            except ValueError:
                return self._reply(400, {"error": "bad_request", "reason": "invalid UTF-8 JSON"})
            if "_rev" in doc:
                revs.add(doc["_rev"])
            if "_id" in doc and doc["_id"] != docid:
                return self._reply(400, {"error": "bad_request", "reason": "Document ID must match the ID in the URL"})
            if len(revs) > 1:
                return self._reply(400, {"error": "bad_request", "reason": "Document rev from request body and "
                                                                           "query string have different values"})
            if docid.startswith("_") and not docid.startswith(("_design/", "_local/")):
                return self._reply(400, {"error": "illegal_docid",
                                         "reason": "Only reserved document ids may start with underscore."})
            content = {k: v for k, v in doc.items() if k not in ("_id", "_rev")}
            status, out = st.put_doc(db, docid, content, next(iter(revs), None))
            return self._reply(status, out, {"ETag": '"%s"' % out["rev"]} if out else None)
        if self.command == "DELETE":
            if len(revs) > 1:
                return self._reply(400, {"error": "bad_request", "reason": "conflicting revisions"})
            status, out = st.delete_doc(db, docid, next(iter(revs), None))
            if status == 404:
                return self._reply(404, {"error": "not_found", "reason": "deleted" if docid in docs else "missing"})
            return self._reply(status, out, {"ETag": '"%s"' % out["rev"]} if out else None)
        return self._reply(405, {"error": "method_not_allowed", "reason": "Only DELETE,GET,HEAD,PUT allowed"})

    do_GET = do_HEAD = do_PUT = do_DELETE = do_POST = _handle
