"""Shared machinery for the /verif checks (see DESIGN.md sections 2-4).

A check = (1) theorems: build coq/theories/props/<Cxx>.vo and read `Print Assumptions`;
          (2) tie: regenerate gen/*.v from /repo (tie T) and/or run model vs SDK on the same
              cases (tie C, through a generated cases file evaluated by `vm_compute`);
          (3) property oracle on the SDK itself (search for a concrete failing input);
          (4) verdict + evidence + replay files.
"""
import fcntl
import hashlib
import json
import os
import random
import re
import subprocess
import sys
import time

VERIF = os.path.dirname(os.path.dirname(os.path.abspath(__file__)))
REPO = os.environ.get("VERIF_REPO", "/repo")
COQ = os.path.join(VERIF, "coq")
GEN = os.path.join(COQ, "theories", "gen")
BUILD = os.path.join(COQ, "build")
EVID = os.path.join(VERIF, "evidence")
REPLAYS = os.path.join(VERIF, "replays")
KNOWN_DIR = os.path.join(VERIF, "known_findings")
GUARD = "BASYX_PYTHON_SDK_VERIF"

ALLOWED_AXIOMS = {
    # standard-library axioms a theorem may depend on; each use is reported in the evidence
    "functional_extensionality_dep", "Eqdep.Eq_rect_eq.eq_rect_eq", "JMeq_eq",
    "proof_irrelevance", "classic", "propositional_extensionality",
}

FORBIDDEN = re.compile(r"\b(Admitted|admit|Axiom|Axioms|Parameter|Parameters|Conjecture|"
                       r"Unset\s+Guard|bypass_check|Admit\s+Obligations|type-in-type|impredicative-set)\b")


def env_for_sdk():
    e = dict(os.environ)
    e["PYTHONPATH"] = f"{REPO}/sdk:{REPO}/compliance_tool:{VERIF}/tools"
    e["PYTHONHASHSEED"] = "0"
    e["PIP_NO_INDEX"] = "1"
    e[GUARD] = "1"
    return e


def sh(cmd, timeout=900, cwd=None, env=None):
    p = subprocess.run(cmd, shell=isinstance(cmd, str), cwd=cwd, env=env, timeout=timeout,
                       stdout=subprocess.PIPE, stderr=subprocess.STDOUT, text=True, errors="replace")
    out = "\n".join(l for l in p.stdout.splitlines() if "conda" not in l.lower() or "WARNING" not in l)
    return p.returncode, out


class CoqLock:
    def __enter__(self):
        os.makedirs(COQ, exist_ok=True)
        self.f = open(os.path.join(COQ, ".lock"), "w")
        fcntl.flock(self.f, fcntl.LOCK_EX)
        return self

    def __exit__(self, *a):
        fcntl.flock(self.f, fcntl.LOCK_UN)
        self.f.close()


def write_if_changed(path, text):
    os.makedirs(os.path.dirname(path), exist_ok=True)
    try:
        if open(path).read() == text:
            return False
    except FileNotFoundError:
        pass
    with open(path, "w") as f:
        f.write(text)
    return True


def coq_project_files():
    """All .v files of the development, in no particular order (coqdep sorts them)."""
    res = []
    for sub in ("model", "gen", "proofs", "props"):
        d = os.path.join(COQ, "theories", sub)
        if os.path.isdir(d):
            for fn in sorted(os.listdir(d)):
                if fn.endswith(".v"):
                    res.append(f"theories/{sub}/{fn}")
    return res


def coq_configure():
    txt = ("-Q theories Basyx\n"
           "-arg -w -arg -notation-overridden,-deprecated-hint-without-locality,"
           "-deprecated-instance-without-locality,-ambiguous-paths\n"
           + "\n".join(coq_project_files()) + "\n")
    changed = write_if_changed(os.path.join(COQ, "_CoqProject"), txt)
    if changed or not os.path.exists(os.path.join(COQ, "Makefile")):
        rc, out = sh("coq_makefile -f _CoqProject -o Makefile", cwd=COQ)
        if rc != 0:
            raise RuntimeError("coq_makefile failed:\n" + out)


def coq_make(targets=None, timeout=1500, keep_going=False):
    """Full .vo build (no -vos/-vok) of the given targets (paths relative to coq/), or all.
    Returns (ok, log)."""
    with CoqLock():
        coq_configure()
        t = " ".join(targets) if targets else ""
        k = "-k " if keep_going else ""
        rc, out = sh(f"timeout {timeout} make {k}-j16 {t}", cwd=COQ, timeout=timeout + 30)
    return rc == 0, out


def coqc_scratch(name, text, timeout=600):
    """Compile a scratch .v file (cases / Print Assumptions) against the built theories.
    Returns (rc, stdout)."""
    os.makedirs(BUILD, exist_ok=True)
    name = f"{name}_p{os.getpid()}"       # concurrent runs of the same check must not share scratch files
    path = os.path.join(BUILD, name + ".v")
    with open(path, "w") as f:
        f.write(text)
    rc, out = sh(f"ulimit -s unlimited 2>/dev/null; timeout {timeout} coqc -Q {COQ}/theories Basyx "
                 f"-w -notation-overridden {path}", cwd=BUILD, timeout=timeout + 30)
    for ext in (".v", ".vo", ".vok", ".vos", ".glob"):
        try:
            os.remove(os.path.join(BUILD, name + ext))
        except FileNotFoundError:
            pass
    try:
        os.remove(os.path.join(BUILD, "." + name + ".aux"))
    except FileNotFoundError:
        pass
    return rc, out


def print_assumptions(module, theorems, tag):
    """Returns {theorem: ('closed'|'axioms'|'error', [axiom names], raw)}."""
    lines = [f"From Basyx Require Import {module}."]
    for t in theorems:
        lines.append(f'Goal True. idtac "@@BEGIN {t}". exact I. Qed.')
        lines.append(f"Print Assumptions {t}.")
        lines.append(f'Goal True. idtac "@@END {t}". exact I. Qed.')
    rc, out = coqc_scratch(f"assum_{tag}", "\n".join(lines) + "\n", timeout=300)
    res = {}
    for t in theorems:
        m = re.search(rf"@@BEGIN {re.escape(t)}\n(.*?)@@END {re.escape(t)}", out, re.S)
        if not m:
            res[t] = ("error", [], out[-2000:])
            continue
        body = m.group(1).strip()
        if body.startswith("Closed under the global context"):
            res[t] = ("closed", [], body)
        elif body.startswith("Axioms:"):
            names = re.findall(r"^([A-Za-z_][\w.']*)\s*:", body[len("Axioms:"):], re.M)
            res[t] = ("axioms", names, body)
        else:
            res[t] = ("error", [], body)
    return res


def forbidden_scan():
    """grep the development for Admitted/Axiom/... Returns list of 'file:line: text'."""
    hits = []
    for rel in coq_project_files():
        p = os.path.join(COQ, rel)
        txt = open(p).read()
        # strip comments (non-nested is enough for our sources; nested handled by loop)
        prev = None
        while prev != txt:
            prev = txt
            txt = re.sub(r"\(\*(?:(?!\(\*|\*\)).)*\*\)", lambda m: "\n" * m.group(0).count("\n"), txt, flags=re.S)
        for i, line in enumerate(txt.splitlines(), 1):
            if FORBIDDEN.search(line):
                hits.append(f"{rel}:{i}: {line.strip()}")
    return hits


# ---------------------------------------------------------------- Coq term printing

def coq_str(s):
    """Coq string literal (ASCII only; bytes > 127 are not accepted by the models using this)."""
    assert all(32 <= ord(c) < 127 for c in s), repr(s)
    return '"' + s.replace('"', '""') + '"'


def coq_z(n):
    n = int(n)
    return f"({n})" if n < 0 else str(n)


def coq_list(items):
    return "[" + "; ".join(items) + "]"


def coq_zll(rows):
    return coq_list(coq_list(coq_z(x) for x in r) for r in rows)


def enc_str(s):
    return [ord(c) for c in s]


HP = 2305843009213693951


def _hmix(h, x):
    return (h * 1000003 + x + 7) & HP


def zhash(obj, h=0):
    """Same function as Corr.hash_zl / hash_zll / hash_zlll, by nesting depth of `obj`."""
    def depth(o):
        d = 0
        while isinstance(o, (list, tuple)):
            d += 1
            o = o[0] if o else None
            if o is None:
                break
        return d

    def go(o, h, d):
        if d == 0:
            return _hmix(h, int(o))
        for x in o:
            h = go(x, h, d - 1)
        return _hmix(h, -1 - d)
    return go(obj, h, zhash.depth if getattr(zhash, "depth", None) else depth(obj))


def zhash_d(obj, d, h=0):
    """zhash with explicit nesting depth d (1 = list Z, 2 = list (list Z), 3 = ...)."""
    if d == 0:
        return _hmix(h, int(obj))
    for x in obj:
        h = zhash_d(x, d - 1, h)
    return _hmix(h, -1 - d)


def run_mismatch_shards(tag, prelude, case_terms, eval_fn, shard=250, timeout=900, jobs=8):
    """case_terms: list of Coq terms of some type T; eval_fn: name of a Coq function T -> bool
    (true = model agrees with the expected observation embedded in the case).
    Evaluates every case with vm_compute in parallel shards.
    Returns (list of failing case indices, list of shard errors)."""
    os.makedirs(BUILD, exist_ok=True)
    shards = [case_terms[i:i + shard] for i in range(0, len(case_terms), shard)]
    names = []
    for k, sh_cases in enumerate(shards):
        name = f"cases_{tag}_p{os.getpid()}_{k}"
        body = [prelude, "Import ListNotations.", "Open Scope Z_scope.",
                "Definition cases := ["]
        body.append(";\n".join(sh_cases))
        body.append("].")
        body.append(f"Definition bad := map fst (filter (fun p => negb (snd p)) "
                    f"(combine (seq 0 (List.length cases)) (map {eval_fn} cases))).")
        body.append('Goal True. idtac "@@RESULT". exact I. Qed.')
        body.append("Eval vm_compute in bad.")
        with open(os.path.join(BUILD, name + ".v"), "w") as f:
            f.write("\n".join(body) + "\n")
        names.append(name)
    procs = []
    failing, errors = [], []
    run_mismatch_shards.evaluated = 0
    pending = list(enumerate(names))
    running = []
    retried = set()

    def launch(k, name):
        cmd = (f"ulimit -s unlimited 2>/dev/null; timeout {timeout} coqc -Q {COQ}/theories Basyx "
               f"-w -notation-overridden {name}.v")
        return (k, name, subprocess.Popen(cmd, shell=True, cwd=BUILD, stdout=subprocess.PIPE,
                                          stderr=subprocess.STDOUT, text=True))
    while pending or running:
        while pending and len(running) < jobs:
            k, name = pending.pop(0)
            running.append(launch(k, name))
        k, name, p = running.pop(0)
        out, _ = p.communicate()
        m = re.search(r"@@RESULT\s*=\s*\[(.*?)\]\s*:\s*list nat", out, re.S)
        if p.returncode in (137, -9, 143, -15, 124) and k not in retried:
            # killed from outside (out of memory / time limit on an overloaded machine): evaluate this shard once more, alone at
            # the end; a second kill is reported like any other failure
            retried.add(k)
            pending.append((k, name))
            continue
        if p.returncode != 0 or not m:
            errors.append(f"shard {k}: rc={p.returncode}: {out[-1500:]}")
        else:
            body = m.group(1).strip()
            run_mismatch_shards.evaluated += len(shards[k])
            if body:
                for tok in body.split(";"):
                    tok = tok.strip().replace("%nat", "")
                    failing.append(k * shard + int(tok))
        for ext in (".v", ".vo", ".vok", ".vos", ".glob"):
            try:
                os.remove(os.path.join(BUILD, name + ext))
            except FileNotFoundError:
                pass
        try:
            os.remove(os.path.join(BUILD, "." + name + ".aux"))
        except FileNotFoundError:
            pass
    return sorted(failing), errors


def coq_eval(tag, prelude, term, timeout=300):
    """Evaluate one term with vm_compute and return the printed text (for replays)."""
    txt = (prelude + "\nImport ListNotations.\nOpen Scope Z_scope.\n"
           'Goal True. idtac "@@RESULT". exact I. Qed.\n'
           f"Eval vm_compute in ({term}).\n")
    rc, out = coqc_scratch(f"eval_{tag}", txt, timeout)
    i = out.find("@@RESULT")
    return out[i + 8:].strip() if i >= 0 else out[-1500:]


# ---------------------------------------------------------------- verdict / evidence

class Check:
    def __init__(self, pid, tier, seed):
        self.pid, self.tier, self.seed = pid, tier, seed
        self.t0 = time.time()
        self.rng = random.Random(f"{pid}:{seed}")
        self.obligations = []       # (name, status, axioms)
        self.broken = []            # descriptions of proof obligations / ties that no longer check
        self.failures = []          # dicts: {signature, what, replay(dict)}
        self.cov = {}
        self.samples = []
        self.assumptions = []
        self.trusted = []
        self.notes = []
        self.distinct = set()
        self.evaluations = 0
        self.traces = 0
        self.hist = {}

    def count(self, key, n=1):
        self.hist[key] = self.hist.get(key, 0) + n

    def seen(self, case, nontrivial=True):
        self.evaluations += 1
        if nontrivial:
            self.distinct.add(hashlib.sha1(repr(case).encode()).hexdigest())

    # ---- theorems
    def theorems(self, module, names, vo_targets):
        hits = forbidden_scan()
        if hits:
            self.broken.append({"kind": "forbidden", "detail": hits[:10]})
        ok, log = coq_make(vo_targets)
        if not ok:
            m = re.search(r'File "([^"]+)", line (\d+).*?\n(Error:.*?)(?:\n\n|\Z)', log, re.S)
            det = (f"{m.group(1)}:{m.group(2)}: {m.group(3)[:600]}" if m else log[-1500:])
            self.broken.append({"kind": "proof", "module": module, "detail": det})
            for n in names:
                self.obligations.append((n, "not-checked", []))
            return False
        pa = print_assumptions(module, names, self.pid)
        allok = True
        for n in names:
            st, ax, raw = pa[n]
            if st == "error":
                self.broken.append({"kind": "proof", "theorem": n, "detail": raw[-600:]})
                allok = False
            elif st == "axioms":
                bad = [a for a in ax if a.split(".")[-1] not in {x.split(".")[-1] for x in ALLOWED_AXIOMS}]
                if bad:
                    self.broken.append({"kind": "axioms", "theorem": n, "detail": bad})
                    allok = False
            self.obligations.append((n, st, ax))
        return allok

    def fail(self, signature, what, replay):
        self.failures.append({"signature": signature, "what": what, "replay": replay})

    def tie_broken(self, kind, detail):
        self.broken.append({"kind": kind, "detail": detail})

    # ---- finish
    def finish(self, level="proof", checker_cmd=None, rule="", explanation=None):
        known = []
        try:
            known = json.load(open(os.path.join(KNOWN_DIR, f"{self.pid}.json")))["findings"]
        except FileNotFoundError:
            pass
        open_sigs = {k["signature"]: k for k in known if k["status"] == "open"}
        os.makedirs(REPLAYS, exist_ok=True)
        os.makedirs(EVID, exist_ok=True)
        lines = []
        nviol = 0
        reported_known = set()
        new_by_sig = {}
        for f in self.failures:
            if f["signature"] in open_sigs:
                if f["signature"] not in reported_known:
                    reported_known.add(f["signature"])
                    lines.append(f"KNOWN-FINDING: property={self.pid} {f['signature']}: "
                                 f"{open_sigs[f['signature']]['what']}")
            else:
                new_by_sig.setdefault(f["signature"], f)
        for sig, f in new_by_sig.items():
            nviol += 1
            path = os.path.join(REPLAYS, f"{self.pid}_{re.sub(r'[^A-Za-z0-9_.-]+', '_', sig)[:80]}.json")
            with open(path, "w") as fh:
                json.dump({"property": self.pid, "signature": sig, "what": f["what"],
                           "replay": f["replay"], "seed": self.seed, "tier": self.tier}, fh, indent=1, default=str)
            lines.append(f"VIOLATION property={self.pid} replay={path}")
        if self.broken and not new_by_sig:
            # a proof obligation / tie no longer checks and no concrete failing input was found
            # (failures matching open known findings do not explain a broken obligation)
            nviol += 1
            path = os.path.join(REPLAYS, f"{self.pid}_unchecked.json")
            with open(path, "w") as fh:
                json.dump({"property": self.pid, "no_longer_checks": self.broken,
                           "seed": self.seed, "tier": self.tier}, fh, indent=1, default=str)
            lines.append(f"VIOLATION property={self.pid} replay={path} no-failing-input-found")
        elif self.broken:
            for f in new_by_sig.values():
                pass  # already reported with concrete replays; attach the broken obligations to the first
            path0 = os.path.join(REPLAYS, f"{self.pid}_unchecked.json")
            with open(path0, "w") as fh:
                json.dump({"property": self.pid, "no_longer_checks": self.broken}, fh, indent=1, default=str)
        nobl = len(self.obligations)
        ndis = sum(1 for (_, st, _) in self.obligations if st in ("closed", "axioms"))
        axioms = sorted({a for (_, _, ax) in self.obligations for a in ax})
        cov = {
            "obligations": nobl, "discharged": ndis,
            "checker_cmd": checker_cmd or f"cd {COQ} && make -j16 theories/props/{self.pid}.vo && coqc Print Assumptions (tools/common.py:print_assumptions)",
            "trusted_base": self.trusted,
            "theorems": [{"name": n, "status": st, "axioms": ax} for (n, st, ax) in self.obligations],
            "axioms_used": axioms,
            "evaluations": self.evaluations,
            "distinct_nontrivial": len(self.distinct),
            "traces_validated_against_impl": self.traces,
            "rule": rule,
            "samples": self.samples[:8] or ["(no samples)"],
            "input_distribution": self.hist,
            "no_longer_checks": self.broken,
            "known_findings_hit": sorted(reported_known),
        }
        if explanation:
            cov["explanation"] = explanation
        cov.update(self.cov)
        ev = {"property_id": self.pid, "tier": self.tier, "seed": self.seed, "level": level,
              "coverage": cov, "assumptions": self.assumptions, "wall_s": round(time.time() - self.t0, 2),
              "violations": nviol}
        with open(os.path.join(EVID, f"{self.pid}.json"), "w") as fh:
            json.dump(ev, fh, indent=1, default=str)
        for l in lines:
            print(l)
        print(f"[{self.pid}] tier={self.tier} seed={self.seed} theorems {ndis}/{nobl} "
              f"evaluations={self.evaluations} traces={self.traces} violations={nviol} "
              f"wall={ev['wall_s']}s")
        sys.stdout.flush()
        return 1 if nviol else 0



class Hang(BaseException):
    """an SDK call did not return within its time limit (BaseException: not swallowed by `except Exception`)"""


class deadline:
    """`with deadline(s):` - raises Hang inside the block when it runs longer than s seconds.  SIGALRM based (lock acquires are
    interruptible by signals on POSIX), so only usable in the main thread of a process."""

    def __init__(self, seconds):
        self.seconds = seconds

    def __enter__(self):
        import signal

        def handler(sig, frame):
            raise Hang()
        self.old = signal.signal(signal.SIGALRM, handler)
        signal.setitimer(signal.ITIMER_REAL, self.seconds)

    def __exit__(self, *a):
        import signal
        signal.setitimer(signal.ITIMER_REAL, 0)
        signal.signal(signal.SIGALRM, self.old)
        return False
