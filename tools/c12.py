"""C12 - Referable.update_from makes the live tree equal to the fresh copy while keeping identity.

Theorems: coq/theories/props/C12.v over model/UpdateFrom.v.
Tie C: pairs (live, new) of trees are built as SDK objects, update_from is run, and the result is
projected to the same rows as model/UpdateFrom.v's [encode] (class, key, payload, source, identity
token of every node and qualifier, pre-order); Coq evaluates the model on the same pair.
Oracle (independent of the model): canonical equality with the specification of the new tree at
every depth, identity of root and surviving children, the C01 invariant checker on every
namespace of the result, detachment of removed children, the source rule."""
import json
import os

import common
from common import coq_list, coq_z

THEOREMS = ["C12_identity", "C12_equal", "C12_children", "C12_wf", "C12_source", "C12_example",
            "C12_ns_children", "C12_ns_unique", "C12_ns_result", "C12_ns_old_order_refuted",
            "C12_ns_wf", "C12_ns_equal", "C12_ns_identity", "C12_ns_single_set", "C12_ns_path_example"]

KEYS = ["a", "b", "c", "d", "A"]
QKEYS = ["q:t", "q:u", "x:n", "x:m"]
# classes: 0 Property, 1 SubmodelElementCollection, 2 MultiLanguageProperty, 5 RelationshipElement,
# 6 AnnotatedRelationshipElement (children = annotations), 7 Range, 9 Submodel (root),
# 4 Operation (kids carry "slot" 0/1/2 = input / output / in-output variable; model/UpdateFromNS.v),
# oracle-only: 3 SubmodelElementList(Property/Int)


def _m():
    from basyx.aas import model
    return model


def prop_values():
    """payload token of a Property -> (value_type, value).  Tokens {0,1,9}, {3,4}, {5,6}, {7,8} are
    pairwise ==-equal in Python but differ in the canonical form (XSD type, exponent, zone offset)."""
    import datetime
    import decimal
    dt = _m().datatypes
    tz = datetime.timezone
    return [(dt.Int, dt.Int(5)), (dt.Long, dt.Long(5)), (dt.Int, dt.Int(6)),
            (dt.Decimal, decimal.Decimal("1.0")), (dt.Decimal, decimal.Decimal("1.00")),
            (dt.Boolean, True), (dt.Int, dt.Int(1)),
            (dt.DateTime, datetime.datetime(2020, 1, 1, 12, 0, tzinfo=tz.utc)),
            (dt.DateTime, datetime.datetime(2020, 1, 1, 13, 0, tzinfo=tz(datetime.timedelta(hours=1)))),
            (dt.Double, 5.0)]


TWINS = {0: [1, 9], 1: [0, 9], 9: [0, 1], 3: [4], 4: [3], 5: [6], 6: [5], 7: [8], 8: [7]}
NPROP = 10


def canon_value(value_type, value):
    """canonical form with type tags: the XSD type, the Python class and the literal"""
    return (getattr(value_type, "__name__", repr(value_type)), type(value).__name__, repr(value))


def tok(spec):
    """payload token of a node as the model sees it: plain value + 16 * number of supplemental semantic ids
    (+ 64 for a root that carries the other id)"""
    return spec["pay"] + 16 * spec.get("sup", 0) + 64 * spec.get("rid", 0) + 128 * spec.get("dl", 0)


def qtok(q):
    """value + 8 * supplemental semantic ids + 32 * size of refers_to (extensions)"""
    return q[2] + 8 * (q[3] if len(q) > 3 else 0) + 32 * (q[4] if len(q) > 4 else 0)


def rt_refs(n):
    model = _m()
    return {model.ModelReference((model.Key(model.KeyTypes.SUBMODEL, f"urn:ref:{i}"),), model.Submodel) for i in range(n)}


def rt_code(e):
    r = getattr(e, "refers_to", None)
    if r is None:
        return 0
    return len(r) if set(r) == rt_refs(len(r)) else -100


def descr(spec):
    model = _m()
    d = {"en": f"d{spec['pay']}"}
    if spec.get("dl"):
        d["de"] = "zusatz"
    return model.MultiLanguageTextType(d)


def sup_refs(n):
    model = _m()
    return [model.ExternalReference((model.Key(model.KeyTypes.GLOBAL_REFERENCE, f"urn:sup:{i}"),)) for i in range(n)]


def sem_ref(v):
    model = _m()
    return None if v is None else model.ExternalReference((model.Key(model.KeyTypes.GLOBAL_REFERENCE, f"urn:sem:{v}"),))


def sup_code(o):
    """number of supplemental semantic ids, if they are the expected ones (read only AFTER the update)"""
    ids = list(o.supplemental_semantic_id)
    return len(ids) if ids == sup_refs(len(ids)) else -100


def root_id(spec):
    return "urn:c12:sm" + (":v2" if spec.get("rid") else "")


def src_str(n):
    return "" if n == 0 else f"scheme:s{n}"


def build(spec, objs, root=False):
    """spec -> SDK object; objs: oid -> object (nodes and qualifiers/extensions)."""
    model = _m()
    cls = spec["cls"]
    quals = []
    exts = []
    for qq in spec["quals"]:
        qk, qoid, qv = qq[:3]
        qsup = qq[3] if len(qq) > 3 else 0
        qkw = dict(semantic_id=sem_ref(7 if qsup else None), supplemental_semantic_id=sup_refs(qsup))
        if qk.startswith("q:"):
            q = model.Qualifier(qk[2:], model.datatypes.Int, qv, **qkw)
            quals.append(q)
        else:
            q = model.Extension(qk[2:], model.datatypes.Int, qv, refers_to=rt_refs(qq[4] if len(qq) > 4 else 0), **qkw)
            exts.append(q)
        objs[qoid] = q
    kids = [build(k, objs) for k in spec["kids"]]
    sup = sup_refs(spec.get("sup", 0))
    cat = descr(spec)
    key = spec["key"]
    sem = sem_ref(spec.get("sem"))
    common_kw = dict(qualifier=quals, extension=exts, semantic_id=sem, supplemental_semantic_id=sup)
    if cls == 9:
        o = model.Submodel(root_id(spec), kids, id_short=key, description=cat, **common_kw)
    elif cls == 0:
        vt, val = prop_values()[spec["pay"]]
        o = model.Property(key, vt, val, **common_kw)
    elif cls in (5, 6):
        ref = model.ModelReference((model.Key(model.KeyTypes.SUBMODEL, "urn:c12:sm"),), model.Submodel)
        if cls == 5:
            o = model.RelationshipElement(key, ref, ref, description=cat, **common_kw)
        else:
            o = model.AnnotatedRelationshipElement(key, ref, ref, annotation=kids, description=cat, **common_kw)
    elif cls == 7:
        o = model.Range(key, model.datatypes.String if spec.get("vt") else model.datatypes.Int, description=cat, **common_kw)
    elif cls == 1:
        o = model.SubmodelElementCollection(key, kids, description=cat, **common_kw)
    elif cls == 2:
        o = model.MultiLanguageProperty(key, description=cat, **common_kw)
    elif cls == 3:
        # "lp": the list was edited locally before the update, so that the generated idShorts of its children are
        # not aligned with their positions any more (1: first child inserted at the front afterwards,
        # 2: built with a leading dummy that is deleted again, 3: first child popped and re-inserted at the front,
        # 4: [0] assigned positionally); the same edits are applied to lists of a copy that is built, not loaded
        lp = spec.get("lp", 0) if kids else 0
        lt = spec.get("lt", 0)       # 0: Property / xs:int, 1: Range / xs:int, 2: Range / xs:string
        lcls = model.Property if lt == 0 else model.Range
        lvt = model.datatypes.String if lt == 2 else model.datatypes.Int
        dummy = (model.Property(None, lvt, 0, semantic_id=kids[0].semantic_id) if lt == 0
                 else model.Range(None, lvt, semantic_id=kids[0].semantic_id)) if lp == 2 else None
        first = kids[1:] if lp == 1 else ([dummy] + kids if lp == 2 else kids)
        if lp == 4:      # built with a placeholder at [0] that is then replaced positionally: value[0] = x
            first = [(model.Property(None, lvt, 0, semantic_id=kids[0].semantic_id) if lt == 0
                      else model.Range(None, lvt, semantic_id=kids[0].semantic_id))] + kids[1:]
        o = model.SubmodelElementList(key, lcls, first, value_type_list_element=lvt,
                                      semantic_id_list_element=sem_ref(spec.get("ls")), description=cat, **common_kw)
        if lp == 1:
            o.value.insert(0, kids[0])
        elif lp == 2:
            o.value.pop(0)
        elif lp == 3:
            x = o.value.pop(0)
            o.value.insert(0, x)
        elif lp == 4:
            o.value[0] = kids[0]
    elif cls == 4:
        slots = [[k for k, ks in zip(kids, spec["kids"]) if ks.get("slot", 0) == i] for i in range(3)]
        o = model.Operation(key, slots[0], slots[1], slots[2], description=cat, **common_kw)
    else:
        raise AssertionError(cls)
    o.source = src_str(spec["src"])
    objs[spec["oid"]] = o
    return o


CLS_OF = None


def cls_code(o):
    model = _m()
    for c, t in ((9, model.Submodel), (0, model.Property), (1, model.SubmodelElementCollection),
                 (2, model.MultiLanguageProperty), (3, model.SubmodelElementList), (4, model.Operation),
                 (5, model.RelationshipElement), (6, model.AnnotatedRelationshipElement), (7, model.Range)):
        if type(o) is t:
            return c
    return -1


def kid_sets(o):
    model = _m()
    if isinstance(o, model.Submodel):
        r = [o.submodel_element]
    elif isinstance(o, (model.SubmodelElementCollection, model.SubmodelElementList)):
        r = [o.value]
    elif isinstance(o, model.Operation):
        r = [o.input_variable, o.output_variable, o.in_output_variable]
    elif isinstance(o, model.RelationshipElement):
        r = [getattr(o, "annotation", None)]     # a mis-typed live node may carry stale annotations
    else:
        r = []
    return [S for S in r if isinstance(S, model.NamespaceSet)]


def payload(o):
    model = _m()
    extra = 16 * sup_code(o) + (64 if getattr(o, "id", None) == "urn:c12:sm:v2" else 0)
    try:
        if not isinstance(o, model.Property) and "de" in o.description:
            extra += 128
    except Exception:
        pass
    if isinstance(o, model.Property):
        got = canon_value(o.value_type, o.value)
        for i, (vt, val) in enumerate(prop_values()):
            if canon_value(vt, val) == got:
                return i + extra
        return -1
    try:
        c = o.description["en"]
    except Exception:
        return -1
    return int(c[1:]) + extra if isinstance(c, str) and c[1:].isdigit() else -1


def src_code(o):
    s = o.source
    return 0 if s == "" else int(s.rsplit("s", 1)[1])


def oid_of(objs, x):
    for k, v in objs.items():
        if v is x:
            return k
    return -8


def encode(o, objs, depth=0, rows=None):
    """pre-order rows, same as UpdateFrom.encode"""
    if rows is None:
        rows = []
    quals = [("q:" + q.type, q) for q in o.qualifier] if hasattr(o, "qualifier") else []
    quals += [("x:" + e.name, e) for e in o.extension]
    row = [depth, oid_of(objs, o), cls_code(o), KEYS.index(o.id_short) if o.id_short in KEYS else -1,
           payload(o), src_code(o)]
    for qk, q in sorted(quals, key=lambda t: QKEYS.index(t[0]) if t[0] in QKEYS else 99):
        row += [QKEYS.index(qk) if qk in QKEYS else -1, oid_of(objs, q),
                q.value + 8 * sup_code(q) + 32 * rt_code(q) if isinstance(q.value, int) else -1]
    rows.append(row)
    for S in kid_sets(o):
        for k in S:
            encode(k, objs, depth + 1, rows)
    return rows


def mencode(o, objs, depth=0, si=0, rows=None):
    """pre-order rows, same as UpdateFromNS.mencode: like encode, the second column is the index of the set of the
    parent in which the node sits (root: 0); children are listed set by set"""
    if rows is None:
        rows = []
    quals = [("q:" + q.type, q) for q in o.qualifier] if hasattr(o, "qualifier") else []
    quals += [("x:" + e.name, e) for e in o.extension]
    row = [depth, si, oid_of(objs, o), cls_code(o), KEYS.index(o.id_short) if o.id_short in KEYS else -1,
           payload(o), src_code(o)]
    for qk, q in sorted(quals, key=lambda t: QKEYS.index(t[0]) if t[0] in QKEYS else 99):
        row += [QKEYS.index(qk) if qk in QKEYS else -1, oid_of(objs, q),
                q.value + 8 * sup_code(q) + 32 * rt_code(q) if isinstance(q.value, int) else -1]
    rows.append(row)
    for i, S in enumerate(kid_sets(o)):
        for k in S:
            mencode(k, objs, depth + 1, i, rows)
    return rows


# ----------------------------------------------------------------------------- oracle

def check_equal(o, spec, path, bad, root=True, in_list=False, check_source=True):
    """canonical equality of the object tree with the specification of the new tree"""
    if cls_code(o) != spec["cls"]:
        bad.append(("class", f"{path}: class {type(o).__name__} differs from the copy's (code {spec['cls']})"))
        return
    if not in_list and o.id_short != spec["key"]:
        bad.append(("attr", f"{path}: id_short {o.id_short!r} != {spec['key']!r}"))
    want_sem = spec.get("sem")
    got_sem = getattr(o, "semantic_id", None)
    got_sem = None if got_sem is None else int(got_sem.key[0].value.rsplit(":", 1)[1])
    if got_sem != want_sem:
        bad.append(("attr", f"{path}: semantic_id {got_sem} != {want_sem}"))
    if spec["cls"] == 3:
        lt = spec.get("lt", 0)
        want = ("Property" if lt == 0 else "Range", _m().datatypes.String.__name__ if lt == 2 else "Int", spec.get("ls"))
        ls = o.semantic_id_list_element
        got = (o.type_value_list_element.__name__, getattr(o.value_type_list_element, "__name__", None),
               None if ls is None else int(ls.key[0].value.rsplit(":", 1)[1]))
        if got != want:
            bad.append(("list-type", f"{path}: list element type / value type / semantic id {got}, the copy has {want}"))
    if spec["cls"] == 7 and (o.value_type is _m().datatypes.String) != bool(spec.get("vt")):
        bad.append(("attr", f"{path}: value_type {o.value_type.__name__} differs from the copy's"))
    if cls_code(o) == 9 and o.id != root_id(spec):
        bad.append(("attr", f"{path}: id {o.id!r} != {root_id(spec)!r}"))
    if sup_code(o) != spec.get("sup", 0):
        bad.append(("supplemental-semantic-id", f"{path}: {len(o.supplemental_semantic_id)} supplemental semantic ids, "
                                                f"the copy has {spec.get('sup', 0)}"))
    elif payload(o) != tok(spec):
        bad.append(("attr", f"{path}: value (canonical form incl. XSD type) / description: token {payload(o)} != {tok(spec)}"))
    if check_source and not root and src_code(o) != spec["src"]:
        bad.append(("child-source", f"{path}: source of an embedded object not taken from the copy"))
    have = {("q:" + q.type): q.value + 8 * sup_code(q) for q in getattr(o, "qualifier", [])}
    have.update({("x:" + e.name): e.value + 8 * sup_code(e) + 32 * rt_code(e) for e in o.extension})
    want = {q[0]: qtok(q) for q in spec["quals"]}
    if set(have) != set(want):
        bad.append(("qualifier-set", f"{path}: qualifiers/extensions {sorted(have)} != {sorted(want)}"))
    else:
        for k in want:
            if have[k] != want[k]:
                bad.append(("qualifier-value", f"{path}: value / supplemental semantic ids / refers_to of {k}: token {have[k]}, the copy has {want[k]}"))
    sets = kid_sets(o)
    if spec["cls"] == 3:
        got = list(sets[0]) if sets else []
        if len(got) != len(spec["kids"]):
            bad.append(("children", f"{path}: list has {len(got)} children, the copy has {len(spec['kids'])}"))
        else:
            for i, (g, ks) in enumerate(zip(got, spec["kids"])):
                check_equal(g, ks, f"{path}[{i}]", bad, root=False, in_list=True, check_source=check_source)
        return
    for si, S in enumerate(sets):
        wantk = {ks["key"]: ks for ks in spec["kids"] if (spec["cls"] != 4 or ks.get("slot", 0) == si)}
        gotk = {g.id_short: g for g in S}
        if set(gotk) != set(wantk):
            bad.append(("children", f"{path}: children {sorted(map(str, gotk))} != {sorted(wantk)}"))
        for k in set(gotk) & set(wantk):
            check_equal(gotk[k], wantk[k], f"{path}/{k}", bad, root=False, check_source=check_source)
    if not sets and spec["kids"]:
        bad.append(("children", f"{path}: no child collection"))


def check_identity(o, lspec, nspec, objs, path, bad):
    """the root and every surviving child (matched by idShort, same class) keep their identity"""
    if objs[lspec["oid"]] is not o:
        bad.append(("identity", f"{path}: surviving object was replaced"))
        return
    if lspec["cls"] in (3,):
        return     # list children have no identifying attribute to survive by
    lk = {k["key"]: k for k in lspec["kids"]}
    nk = {k["key"]: k for k in nspec["kids"]}
    got = {g.id_short: g for S in kid_sets(o) for g in S}
    for k in set(lk) & set(nk):
        if lk[k]["cls"] == nk[k]["cls"] and lk[k].get("slot", 0) == nk[k].get("slot", 0) and k in got:
            check_identity(got[k], lk[k], nk[k], objs, f"{path}/{k}", bad)
    lq = {q[0]: q for q in lspec["quals"]}
    nq = {q[0]: q for q in nspec["quals"]}
    gq = {("q:" + q.type): q for q in getattr(o, "qualifier", [])}
    gq.update({("x:" + e.name): e for e in o.extension})
    for k in set(lq) & set(nq):
        if k in gq and gq[k] is not objs[lq[k][1]]:
            bad.append(("identity-qualifier", f"{path}: surviving qualifier/extension {k} was replaced"))


def check_c01(o, path, bad, seen=None):
    """the C01 statements on every namespace of the tree"""
    for S in list(o.namespace_element_sets):
        it = list(S)
        if len(S) != len(it) or len({id(x) for x in it}) != len(it):
            bad.append(("c01", f"{path}: len/iteration disagree"))
        for a in S.get_attribute_name_list():
            vals = [getattr(x, a) for x in it]
            if len(set(vals)) != len(vals) or None in vals:
                bad.append(("c01", f"{path}: {a} not unique / None"))
            for x in it:
                if S.get(a, getattr(x, a)) is not x:
                    bad.append(("c01", f"{path}: lookup does not return the child"))
        for x in it:
            if x.parent is not o:
                bad.append(("c01-parent", f"{path}: child {getattr(x, 'id_short', x)!r} has parent {x.parent!r}"))
            if x not in S:
                bad.append(("c01", f"{path}: iterated child not 'in' the collection"))
    for S in kid_sets(o):
        for x in S:
            check_c01(x, f"{path}/{x.id_short}", bad)


def all_nodes(spec):
    yield spec
    for k in spec["kids"]:
        yield from all_nodes(k)


def assign(o, spec, objs):
    """parallel walk over a decoded tree and its specification: identity tokens and the (never serialised) source"""
    objs[spec["oid"]] = o
    o.source = src_str(spec["src"])
    qs = {("q:" + q.type): q for q in getattr(o, "qualifier", [])}
    qs.update({("x:" + e.name): e for e in o.extension})
    for qq in spec["quals"]:
        objs[qq[1]] = qs[qq[0]]
    sets = kid_sets(o)
    if spec["cls"] == 3:
        for g, ks in zip(list(sets[0]), spec["kids"]):
            assign(g, ks, objs)
    else:
        for si, S in enumerate(sets):
            got = {g.id_short: g for g in S}
            for ks in spec["kids"]:
                if spec["cls"] != 4 or ks.get("slot", 0) == si:
                    assign(got[ks["key"]], ks, objs)


def load_copy(spec, objs):
    """the copy the way a backend hands it to update_from(): decoded from its JSON document and not touched
    afterwards (no attribute of the decoded objects is read before the update, except to walk the tree)"""
    from basyx.aas.adapter.json import json_serialization, json_deserialization
    txt = json.dumps(build(spec, {}, True), cls=json_serialization.AASToJsonEncoder)
    loaded = json.loads(txt, cls=json_deserialization.AASFromJsonDecoder)
    assign(loaded, spec, objs)
    return loaded


def run_http(case):
    """the same pair through a caller of update_from: PUT /submodels/{id} on the HTTP adapter, while the application
    holds the live objects.  Returns failures [(class, msg)]."""
    import base64
    from werkzeug.test import Client
    from basyx.aas.adapter import aasx
    from basyx.aas.adapter.http import WSGIApp
    from basyx.aas.adapter.json import json_serialization
    model = _m()
    objs = {}

    def nosrc(n):       # no backend sources here: the adapter would call update()/commit() on them
        return dict(n, src=0, kids=[nosrc(k) for k in n["kids"]])
    case = dict(case, live=nosrc(case["live"]), new=nosrc(case["new"]))
    live = build(case["live"], objs, True)
    body = json.dumps(build(case["new"], {}, True), cls=json_serialization.AASToJsonEncoder).encode()
    client = Client(WSGIApp(model.DictObjectStore([live]), aasx.DictSupplementaryFileContainer()))
    ident = base64.urlsafe_b64encode(live.id.encode()).decode().rstrip("=")
    resp = client.put(f"/api/v3.0/submodels/{ident}", data=body, content_type="application/json")
    bad = []
    if resp.status_code != 204:
        return [("status", f"PUT /submodels/{{id}} answered {resp.status_code}")]
    check_equal(live, case["new"], "", bad, check_source=False)
    check_identity(live, case["live"], case["new"], objs, "", bad)
    try:
        check_c01(live, "", bad)
    except Exception as e:
        bad.append(("c01", f"public query raised {type(e).__name__}: {e}"))
    return bad


def run_embedded(case):
    """the updated object is itself a child of a namespace that is not part of the update (a holder Submodel with a
    sibling 'c'); the copy may carry another idShort.  Returns failures [(class, msg)]."""
    model = _m()
    objs = {}
    live = build(case["live"], objs, True)
    holder = model.Submodel("urn:c12:holder", [live, model.Property("c", model.datatypes.Int)])
    new = load_copy(case["new"], objs) if case.get("via") == "json" else build(case["new"], objs, True)
    bad = []
    try:
        live.update_from(new, update_source=bool(case["us"]))
    except Exception as e:
        return [("raised-" + type(e).__name__, f"update_from raised {type(e).__name__}: {e}")]
    check_equal(live, case["new"], "", bad)
    check_identity(live, case["live"], case["new"], objs, "", bad)
    try:
        check_c01(holder, "holder", bad)
        if holder.get_referable(case["new"]["key"]) is not live:
            bad.append(("c01", "the holder's lookup by the new idShort does not return the updated object"))
        if case["new"]["key"] != case["live"]["key"]:
            try:
                holder.get_referable(case["live"]["key"])
                bad.append(("c01", "the holder still resolves the old idShort"))
            except KeyError:
                pass
    except Exception as e:
        bad.append(("c01", f"holder: public query raised {type(e).__name__}: {e}"))
    return bad


def gen_embedded_case(rng):
    g = Gen(rng, False)
    live = g.node(0, "a", cls=1)
    new = g.edit(live)
    new["key"] = rng.choice(["a", "b", "d", "A"])
    new.pop("rid", None)
    return {"live": live, "new": new, "us": rng.randrange(2), "via": rng.choice(["ctor", "json"])}


def run_sdk(case, with_m=False):
    """case = {live, new, us, via}.  Returns (rows or None, failures [(class, msg)]); with_m: a third component, the
    rows of UpdateFromNS.mencode_res (a raised AASConstraintViolation(22) is the single row [-1, 22]; None when
    nothing can be observed)."""
    objs = {}
    live = build(case["live"], objs, True)
    new = load_copy(case["new"], objs) if case.get("via") == "json" else build(case["new"], objs, True)
    bad = []
    old_src = live.source
    try:
        live.update_from(new, update_source=bool(case["us"]))
    except Exception as e:
        cid = getattr(e, "constraint_id", None)
        bad.append(("raised-" + type(e).__name__ + (f"-{cid}" if cid is not None else ""),
                    f"update_from raised {type(e).__name__}: {e}"))
        if with_m:
            return None, bad, ([[-1, 22]] if type(e).__name__ == "AASConstraintViolation" and cid == 22 else None)
        return None, bad
    check_equal(live, case["new"], "", bad)
    check_identity(live, case["live"], case["new"], objs, "", bad)
    try:
        check_c01(live, "", bad)
    except Exception as e:
        bad.append(("c01", f"public query raised {type(e).__name__}: {e}"))
    want_src = src_str(case["new"]["src"]) if case["us"] else old_src
    if live.source != want_src:
        bad.append(("source", f"root source {live.source!r}, expected {want_src!r}"))
    # removed children are detached: every original live-side object not in the result has no parent
    in_result = set()

    def walk(o):
        in_result.add(id(o))
        for q in list(getattr(o, "qualifier", [])) + list(o.extension):
            in_result.add(id(q))
        for S in kid_sets(o):
            for x in S:
                walk(x)
    walk(live)
    for n in all_nodes(case["live"]):
        for oid in [n["oid"]] + [q[1] for q in n["quals"]]:
            x = objs[oid]
            if id(x) not in in_result and x.parent is not None and id(x.parent) in in_result:
                bad.append(("not-detached", f"removed object {oid} still names an object of the live tree as parent"))
    rows = mrows = None
    try:
        rows = encode(live, objs)
        if with_m:
            mrows = mencode(live, objs)
    except Exception as e:
        bad.append(("observe", f"{type(e).__name__}: {e}"))
    return (rows, bad, mrows) if with_m else (rows, bad)


# ----------------------------------------------------------------------------- generator

class Gen:
    def __init__(self, rng, extra):
        self.rng, self.extra, self.next = rng, extra, 1
        self.nolist = False     # True: class 3 (SubmodelElementList) is never produced
        self.pstay = 0.8        # probability that an edited Operation variable stays in its set (edit)

    def oid(self):
        self.next += 1
        return self.next - 1

    def quals(self):
        r = self.rng
        ks = [k for k in QKEYS if r.random() < 0.3]
        return [[k, self.oid(), r.randrange(3), r.choice([0, 0, 0, 1, 2]),
                 r.choice([0, 0, 1, 2]) if k.startswith("x:") else 0] for k in ks]

    def list_kid(self, depth, lt):
        """a child that a list of type lt (0 Property/int, 1 Range/int, 2 Range/string) accepts"""
        k = self.node(depth + 1, None, cls=0 if lt == 0 else 7)
        return k

    def conform(self, kids, lt, ls, sem):
        for k in kids:
            k["sem"], k["sup"] = (sem if ls is None else self.rng.choice([ls, None])), 0
            if lt == 0 and k["pay"] not in (0, 2, 6):
                k["pay"] = self.rng.choice([0, 2, 6])
            if lt != 0:
                k["vt"] = 1 if lt == 2 else 0

    def newsup(self, old):
        """supplemental semantic ids of the copy: unchanged / all removed / anything"""
        x = self.rng.random()
        return old if x < 0.5 else 0 if x < 0.8 else self.rng.choice([0, 1, 2])

    def node(self, depth, key, cls=None, slot=None, bare=False):
        r = self.rng
        if cls is None:
            choices = [0, 0, 0, 1, 1, 2, 5, 6, 7] + (([4] if self.nolist else [3, 4]) if self.extra else [])
            cls = r.choice(choices) if depth < 3 else r.choice([0, 0, 2, 5, 7])
        n = {"oid": self.oid(), "cls": cls, "key": key, "pay": r.randrange(NPROP if cls == 0 else 4),
             "src": r.choice([0, 0, 1, 2]), "quals": self.quals(), "kids": []}
        n["sup"] = r.choice([0, 0, 0, 1, 2])
        n["sem"] = 7 if n["sup"] else None
        if cls != 0:
            n["dl"] = r.choice([0, 0, 1])
        if slot is not None:
            n["slot"] = slot
        if bare:
            return n
        if cls in (1, 9, 4):
            keys = [k for k in KEYS if r.random() < (0.55 if depth < 2 else 0.35)]
            for k in keys:
                n["kids"].append(self.node(depth + 1, k, slot=r.randrange(3) if cls == 4 else None))
        elif cls == 6:
            for k in [k for k in KEYS if r.random() < 0.4]:
                n["kids"].append(self.node(depth + 1, k, cls=r.choice([0, 0, 2, 7])))   # annotations: DataElements
        elif cls == 3:
            n["lt"], n["ls"] = r.choice([0, 0, 1, 2]), r.choice([None, None, 0, 1])
            n["kids"] = [self.list_kid(depth, n["lt"]) for _ in range(r.choice([0, 1, 2, 3]))]
            self.conform(n["kids"], n["lt"], n["ls"], r.choice([None, 0, 1]))
            n["lp"] = r.choice([0, 1, 2, 3, 4])     # positional edits after construction (ids / dict order vs positions)
        return n

    def edit(self, n, depth=0, bare=False):
        """an arbitrary edit of a tree: returns the spec of the 'freshly loaded copy' (bare: without children)"""
        r = self.rng
        x = r.random()
        if x < 0.55:
            pay = n["pay"]
        elif n["cls"] == 0 and x < 0.8 and n["pay"] in TWINS:
            pay = r.choice(TWINS[n["pay"]])          # ==-equal, canonically different
        else:
            pay = r.randrange(NPROP if n["cls"] == 0 else 4)
        m = {"oid": self.oid(), "cls": n["cls"], "key": n["key"], "pay": pay,
             "src": n["src"] if r.random() < 0.6 else r.choice([0, 1, 2]), "quals": [], "kids": []}
        m["sup"] = self.newsup(n.get("sup", 0))
        m["sem"] = 7 if m["sup"] else None
        if n["cls"] != 0:
            m["dl"] = min(1, self.newsup(n.get("dl", 0)))  # description languages: unchanged / shrunk / anything
        if depth == 0 and r.random() < 0.15:
            m["rid"] = 1                                   # the copy carries another id
        if "slot" in n:
            m["slot"] = n["slot"] if (r.random() < self.pstay or not self.extra) else r.randrange(3)
        for qq in n["quals"]:
            qk, qv, qs = qq[0], qq[2], (qq[3] if len(qq) > 3 else 0)
            x = r.random()
            if x < 0.15:
                continue
            qr = qq[4] if len(qq) > 4 else 0
            m["quals"].append([qk, self.oid(), qv if x < 0.6 else r.randrange(3), self.newsup(qs),
                               self.newsup(qr) if qk.startswith("x:") else 0])
        for k in QKEYS:
            if k not in [q[0] for q in m["quals"]] and r.random() < 0.1:
                m["quals"].append([k, self.oid(), r.randrange(3), r.choice([0, 0, 1]),
                                   r.choice([0, 1]) if k.startswith("x:") else 0])
        if bare:
            return m
        if n["cls"] == 3:
            # the list's own type attributes may change together with its items
            lt, ls = n.get("lt", 0), n.get("ls")
            m["lt"] = lt if r.random() < 0.7 else r.choice([t for t in (0, 1, 2) if t != lt])
            m["ls"] = ls if r.random() < 0.7 else r.choice([None, 0, 1])
            m["lp"] = r.choice([0, 1, 2, 3, 4])     # the copy, too, may have been edited positionally (via == "ctor")
            if m["lt"] == lt or (lt != 0 and m["lt"] != 0):
                kids = list(n["kids"])
                r.shuffle(kids)
                kids = kids[:r.randint(0, len(kids))]
                for k in kids:
                    m["kids"].append(self.edit(k, depth + 1))
                for _ in range(r.choice([0, 0, 1])):
                    m["kids"].append(self.list_kid(depth, m["lt"]))
            else:
                m["kids"] = [self.list_kid(depth, m["lt"]) for _ in range(r.choice([1, 1, 2, 3]))]
            sem = r.choice([None, 0, 1]) if r.random() < 0.5 else (n["kids"][0].get("sem") if n["kids"] else None)
            self.conform(m["kids"], m["lt"], m["ls"], sem)
            return m
        for k in n["kids"]:
            x = r.random()
            if x < 0.15:
                continue                                   # removed
            if x < 0.25 and depth < 2:                     # retyped: same idShort, other class
                pool = (0, 2, 7) if n["cls"] == 6 else (0, 1, 2, 5, 6, 7)
                near = {6: 5, 5: 6, 0: 7, 7: 0}.get(k["cls"])    # along the class hierarchy / sibling classes
                if near in pool and r.random() < 0.6:
                    ncls = near
                else:
                    ncls = r.choice([c for c in pool if c != k["cls"]])
                m["kids"].append(self.node(depth + 1, k["key"], cls=ncls, slot=k.get("slot")))
                continue
            if x < 0.33:                                   # renamed
                free = [kk for kk in KEYS if kk not in [y["key"] for y in n["kids"]] + [y["key"] for y in m["kids"]]]
                if free:
                    e = self.edit(k, depth + 1)
                    e["key"] = r.choice(free)
                    m["kids"].append(e)
                    continue
            m["kids"].append(self.edit(k, depth + 1))
        if n["cls"] in (1, 9, 4, 6):
            for kk in KEYS:
                if kk not in [y["key"] for y in m["kids"]] and r.random() < 0.12:
                    m["kids"].append(self.node(depth + 1, kk, slot=r.randrange(3) if n["cls"] == 4 else None,
                                               cls=r.choice([0, 2, 7]) if n["cls"] == 6 else None))
        if r.random() < 0.3:
            r.shuffle(m["kids"])
        return m


def gen_case(rng, extra=False):
    g = Gen(rng, extra)
    live = g.node(0, "a", cls=9)
    if rng.random() < 0.85:
        new = g.edit(live)
    else:
        new = g.node(0, "a", cls=9)      # unrelated pair
    return {"live": live, "new": new, "us": rng.randrange(2), "via": rng.choice(["ctor", "json"])}


OPVARS = [0, 0, 2, 7, 1]      # classes of the variables of a dedicated Operation


def op_node(g, depth, key):
    """an Operation whose variables are Properties, MultiLanguageProperties, Ranges and collections"""
    r = g.rng
    n = g.node(depth, key, cls=4, bare=True)
    for k in KEYS:
        if r.random() < 0.7:
            n["kids"].append(g.node(depth + 1, k, cls=r.choice(OPVARS), slot=r.randrange(3)))
    return n


def op_edit(g, n, depth):
    """the copy of an Operation: every variable stays (same set, same class, attributes maybe changed), vanishes,
    changes its class in its set, or moves to another set (with or without a change of class); new ones appear"""
    r = g.rng
    m = g.edit(n, depth, bare=True)
    for k in n["kids"]:
        if r.random() < 0.12:
            continue                                       # vanished
        slot = k.get("slot", 0)
        if r.random() < 0.45:                              # moved to another set
            slot = r.choice([s for s in range(3) if s != slot])
        if r.random() < 0.25:                              # other class
            e = g.node(depth + 1, k["key"], cls=r.choice([c for c in (0, 1, 2, 7) if c != k["cls"]]), slot=slot)
        else:
            e = g.edit(k, depth + 1)
            e["slot"] = slot
        m["kids"].append(e)
    for kk in KEYS:                                        # appeared (a vanished idShort may come back anywhere)
        if kk not in [y["key"] for y in m["kids"]] and r.random() < 0.25:
            m["kids"].append(g.node(depth + 1, kk, cls=r.choice(OPVARS), slot=r.randrange(3)))
    if r.random() < 0.3:
        r.shuffle(m["kids"])
    return m


def put_kid(parent, kid, rng):
    parent["kids"] = [k for k in parent["kids"] if k["key"] != kid["key"]] + [kid]
    if rng.random() < 0.3:
        rng.shuffle(parent["kids"])


def gen_op_case(rng):
    """a pair of Submodel trees without SubmodelElementLists with (at least) one Operation, directly below the root
    or inside a SubmodelElementCollection, present in both trees; its variables stay / vanish / appear / change
    class / move between the three sets"""
    g = Gen(rng, True)
    g.nolist, g.pstay = True, 0.6
    live = g.node(0, "a", cls=9)
    new = g.edit(live)
    nested = rng.random() < 0.5
    depth = 2 if nested else 1
    lop = op_node(g, depth, rng.choice(KEYS))
    nop = op_edit(g, lop, depth)
    if nested:
        lhold = g.node(1, rng.choice(KEYS), cls=1)
        nhold = g.edit(lhold, 1)
        put_kid(lhold, lop, rng)
        put_kid(nhold, nop, rng)
        lop, nop = lhold, nhold
    put_kid(live, lop, rng)
    put_kid(new, nop, rng)
    return {"live": live, "new": new, "us": rng.randrange(2), "via": rng.choice(["ctor", "json"])}


def op_moves(l, n, out=None):
    """labels 'a->b' (and 'a->b:retyped') for every idShort that sits in set a of a live Operation and in set b != a
    of the copy's Operation at the same path"""
    if out is None:
        out = []
    nk = {k["key"]: k for k in n["kids"]}
    for k in l["kids"]:
        k2 = nk.get(k["key"])
        if k2 is None:
            continue
        if l["cls"] == 4 and n["cls"] == 4 and k.get("slot", 0) != k2.get("slot", 0):
            out.append(f"{k.get('slot', 0)}->{k2.get('slot', 0)}" + ("" if k["cls"] == k2["cls"] else ":retyped"))
        if k["cls"] == k2["cls"]:
            op_moves(k, k2, out)
    return out


# ----------------------------------------------------------------------------- Coq terms

def nat(x):
    return f"{int(x)}%nat"


def coq_node(n):
    quals = coq_list(f"({nat(QKEYS.index(q[0]))}, ({nat(q[1])}, {nat(qtok(q))}))" for q in n["quals"])
    kids = coq_list(coq_node(k) for k in n["kids"])
    return (f"Node {nat(n['oid'])} {nat(n['cls'])} {nat(KEYS.index(n['key']))} {nat(tok(n))} {nat(n['src'])} "
            f"{quals} {kids}")


def coq_case(case, rows):
    return (f"(({coq_node(case['live'])}), ({coq_node(case['new'])}), {'true' if case['us'] else 'false'}, "
            f"{coq_z(common.zhash_d(rows, 2))})")


PRELUDE = ("From Coq Require Import List ZArith.\n"
           "From Basyx Require Import model.UpdateFrom.")


def nsets(cls):
    """number of child NamespaceSets of Referables, by class (the same for the live object and the copy)"""
    return 3 if cls == 4 else 1 if cls in (1, 6, 9) else 0


def coq_mnode(n):
    quals = coq_list(f"({nat(QKEYS.index(q[0]))}, ({nat(q[1])}, {nat(qtok(q))}))" for q in n["quals"])
    k = nsets(n["cls"])
    assert k or not n["kids"], n
    sets = coq_list(coq_list(coq_mnode(x) for x in n["kids"] if k == 1 or x.get("slot", 0) == i) for i in range(k))
    return (f"MNode {nat(n['oid'])} {nat(n['cls'])} {nat(KEYS.index(n['key']))} {nat(tok(n))} {nat(n['src'])} "
            f"{quals} {sets}")


def coq_mcase(case, rows):
    return (f"(({coq_mnode(case['live'])}), ({coq_mnode(case['new'])}), {'true' if case['us'] else 'false'}, "
            f"{coq_z(common.zhash_d(rows, 2))})")


MPRELUDE = ("From Coq Require Import List ZArith.\n"
            "From Basyx Require Import model.UpdateFrom model.UpdateFromNS.")


def shrink(case, pred):
    """drop children / qualifiers anywhere while the predicate keeps failing"""
    cur = json.loads(json.dumps(case))
    changed = True
    while changed:
        changed = False
        for side in ("live", "new"):
            stack = [cur[side]]
            while stack and not changed:
                n = stack.pop()
                for field in ("kids", "quals"):
                    for i in range(len(n[field])):
                        saved = n[field]
                        n[field] = saved[:i] + saved[i + 1:]
                        if pred(cur):
                            changed = True
                            break
                        n[field] = saved
                    if changed:
                        break
                stack.extend(n["kids"])
    return cur


def classes(case):
    try:
        return [b[0] for b in run_sdk(case)[1]]
    except Exception:
        return []


def corpus_cases():
    d = os.path.join(common.VERIF, "corpus", "C12")
    res = []
    if os.path.isdir(d):
        for fn in sorted(os.listdir(d)):
            if fn.endswith(".json"):
                res.append(json.load(open(os.path.join(d, fn))))
    return res


def has_extra(n):
    return any(x["cls"] in (3, 4) for x in all_nodes(n))


def has_list(n):
    return any(x["cls"] == 3 for x in all_nodes(n))


def run(chk):
    rng = chk.rng
    npairs, nextra = (2500, 800) if chk.tier == "quick" else (30000, 8000)
    nop, nsingle = (600, 300) if chk.tier == "quick" else (6000, 3000)
    chk.theorems("props.C12", THEOREMS, ["theories/props/C12.vo"])
    cases = [c for c in corpus_cases()]
    for _ in range(npairs):
        cases.append(gen_case(rng))
    extra = [gen_case(rng, extra=True) for _ in range(nextra)]
    # Operations (three variable sets, one namespace), no lists: variables stay / vanish / appear / retype / move
    opcases = [gen_op_case(rng) for _ in range(nop)]
    terms, tcases = [], []
    mterms, mcases = [], []
    oterms, ocases = [], []
    single_m = 0
    reported = set()
    for ci, case in enumerate(cases + extra + opcases):
        rows, bad, mrows = run_sdk(case, with_m=True)
        nl, nn = sum(1 for _ in all_nodes(case["live"])), sum(1 for _ in all_nodes(case["new"]))
        chk.seen(case, nontrivial=nl >= 3 and nn >= 3)
        chk.count(f"nodes={min((nl + nn) // 5 * 5, 40)}+")
        chk.count("update_source=%d" % case["us"])
        modelled = not has_extra(case["live"]) and not has_extra(case["new"])
        ns_modelled = not modelled and not has_list(case["live"]) and not has_list(case["new"])
        chk.count("modelled" if modelled else "modelled(ns)" if ns_modelled else "oracle_only(list)")
        if ci >= len(cases) + len(extra):
            chk.count("operation_cases")
        for mv in op_moves(case["live"], case["new"]):
            chk.count("op_move=" + mv.split(":")[0])
            if mv.endswith(":retyped"):
                chk.count("op_move_retyped")
        for cls in sorted({b[0] for b in bad}):
            sig = f"C12:{cls}" + ("" if modelled else ":list-or-operation")
            chk.count("oracle_fail=" + cls)
            if sig not in reported:
                reported.add(sig)
                small = shrink(case, lambda c2: cls in classes(c2) and
                               (modelled or has_extra(c2["live"]) or has_extra(c2["new"])))
                msg = [b[1] for b in run_sdk(small)[1] if b[0] == cls]
                chk.fail(sig, msg[0] if msg else cls, {"case": small, "how": "tools/c12.py run_sdk(case)"})
        if modelled and rows is not None:
            terms.append(coq_case(case, rows))
            tcases.append(case)
        # model/UpdateFromNS.v: trees with Operations and without lists; the single-set trees are its special case
        if mrows is not None and (ns_modelled or (modelled and single_m < nsingle)):
            single_m += 1 if modelled else 0
            if mrows == [[-1, 22]]:
                # update_from raised AASd-022: an oracle failure (reported above).  The model of the repaired order
                # ([updm true]) never raises on well-formed trees (C12_ns_unique); such a run is compared with the model
                # of the order before the repair ([updm false], C12_ns_old_order_refuted) so that the finding is
                # attributed to that order and anything else still breaks the tie
                oterms.append(coq_mcase(case, mrows))
                ocases.append(case)
            else:
                mterms.append(coq_mcase(case, mrows))
                mcases.append(case)
        if len(chk.samples) < 3 and nl >= 5 and modelled:
            chk.samples.append({"case": case, "sdk_rows": rows})
    # the updated object is a child of a namespace outside the update (idShort of the root may change)
    for _ in range(300 if chk.tier == "quick" else 3000):
        case = gen_embedded_case(rng)
        chk.count("embedded_root_cases")
        chk.seen(case, nontrivial=True)
        try:
            bad = run_embedded(case)
        except Exception as e:
            bad = [("harness", f"{type(e).__name__}: {e}")]
        for cls in sorted({b[0] for b in bad}):
            sig = f"C12:embedded:{cls}"
            if sig not in reported:
                reported.add(sig)
                small = shrink(case, lambda c2: cls in [b[0] for b in run_embedded(c2)])
                msg = [b[1] for b in run_embedded(small) if b[0] == cls]
                chk.fail(sig, msg[0] if msg else cls, {"case": small, "how": "tools/c12.py run_embedded(case)"})
    # the same pairs through a caller: HTTP PUT /submodels/{id} while the application holds the live objects
    nhttp = 150 if chk.tier == "quick" else 1500
    for case in [c for c in cases if not has_extra(c["live"]) and not has_extra(c["new"])][:nhttp]:
        chk.count("http_put_cases")
        try:
            bad = run_http(case)
        except Exception as e:
            bad = [("harness", f"{type(e).__name__}: {e}")]
        for cls in sorted({b[0] for b in bad}):
            sig = f"C12:http-put:{cls}"
            if sig not in reported:
                reported.add(sig)
                small = shrink(case, lambda c2: cls in [b[0] for b in run_http(c2)])
                msg = [b[1] for b in run_http(small) if b[0] == cls]
                chk.fail(sig, msg[0] if msg else cls, {"case": small, "how": "tools/c12.py run_http(case)"})
    badi, errs = common.run_mismatch_shards("C12", PRELUDE, terms, "check_case", shard=250 if chk.tier == "quick" else 500)
    chk.traces = common.run_mismatch_shards.evaluated - len(badi)
    for e in errs:
        chk.tie_broken("correspondence-run", e)
    if badi:
        case = tcases[badi[0]]

        def still(c2):
            try:
                rows, _ = run_sdk(c2)
            except Exception:
                return False
            if rows is None:
                return False
            b, e = common.run_mismatch_shards("C12s", PRELUDE, [coq_case(c2, rows)], "check_case")
            return bool(b or e)
        small = shrink(case, still) if len(badi) < 3000 else case
        rows, bad = run_sdk(small)
        mt = common.coq_eval("C12", PRELUDE, f"encode 0 (upd ({coq_node(small['live'])}) ({coq_node(small['new'])}) "
                                              f"{'true' if small['us'] else 'false'})")
        chk.tie_broken("correspondence", {"n_disagreements": len(badi), "case": small, "sdk_rows": rows, "model_rows": mt[-2500:]})
        for b in bad[:1]:
            chk.fail("C12:" + b[0], b[1], {"case": small, "how": "tools/c12.py run_sdk(case)"})
    # second correspondence: model/UpdateFromNS.v (objects with several child sets in one namespace)
    badm, errm = common.run_mismatch_shards("C12ns", MPRELUDE, mterms, "check_mcase",
                                            shard=250 if chk.tier == "quick" else 500)
    chk.traces += common.run_mismatch_shards.evaluated - len(badm)
    chk.count("ns_correspondence_cases", len(mterms))
    if oterms:
        bado, erro = common.run_mismatch_shards("C12nso", MPRELUDE, oterms, "check_mcase_old",
                                                shard=250 if chk.tier == "quick" else 500)
        chk.count("raised_AASd022_as_model_of_old_order", len(oterms) - len(bado))
        for e in erro:
            chk.tie_broken("correspondence-ns-run", e)
        if bado:
            chk.tie_broken("correspondence-ns", {"n_disagreements": len(bado), "case": ocases[bado[0]],
                                                 "sdk_rows": [[-1, 22]],
                                                 "what": "update_from raised AASd-022 where neither the model of the "
                                                         "two-phase order nor the model of the old order raises it"})
    for e in errm:
        chk.tie_broken("correspondence-ns-run", e)
    if badm:
        case = mcases[badm[0]]

        def still_ns(c2):
            try:
                _, _, mrows = run_sdk(c2, with_m=True)
            except Exception:
                return False
            if mrows is None:
                return False
            b, e = common.run_mismatch_shards("C12nss", MPRELUDE, [coq_mcase(c2, mrows)], "check_mcase")
            return bool(b or e)
        small = shrink(case, still_ns) if len(badm) < 3000 else case
        _, bad, mrows = run_sdk(small, with_m=True)
        mt = common.coq_eval("C12ns", MPRELUDE, f"mencode_res (updm true ({coq_mnode(small['live'])}) "
                                                f"({coq_mnode(small['new'])}) {'true' if small['us'] else 'false'})")
        chk.tie_broken("correspondence-ns", {"n_disagreements": len(badm), "case": small, "sdk_rows": mrows,
                                             "model_rows": mt[-2500:]})
    chk.trusted = [
        "Coq 8.16.1 kernel (coqc; vm_compute only for the Example and the correspondence)",
        "hand-written model coq/theories/model/UpdateFrom.v tied to Referable.update_from / "
        "NamespaceSet.update_nss_from by this correspondence run (Submodel / SubmodelElementCollection / Property / "
        "MultiLanguageProperty trees with qualifiers and extensions)",
        "hand-written model coq/theories/model/UpdateFromNS.v (objects with several child sets in one namespace: "
        "Operation with its three variable sets) tied to Referable.update_from / NamespaceSet.update_nss_from / "
        "NamespaceSet.add by the second correspondence run (check_mcase; an AASConstraintViolation(22) is an outcome "
        "of the model, too)",
        "tools/c12.py (generator, SDK builder, canonicaliser, oracle), tools/common.py",
    ]
    chk.assumptions = ["plain attributes are represented by one payload token per node (update_from copies every "
                       "entry of vars(other) except parent / namespace_element_sets / source)",
                       "SubmodelElementList children are covered by the oracle only; Operation nodes (three variable "
                       "sets, one namespace) are inside the model (model/UpdateFromNS.v)"]
    return chk.finish(level="proof",
                      rule="seeded pairs (live tree, arbitrary edit of it | unrelated tree) of depth <= 3: attribute "
                           "changes, children added/removed/renamed/retyped, qualifier and extension values changed, "
                           "added, removed, children shuffled; plus a stream with SubmodelElementLists and Operations "
                           "(oracle only where a list occurs, otherwise oracle and model/UpdateFromNS.v); plus a stream "
                           "of trees with an Operation below the root or inside a collection whose variables stay, "
                           "vanish, appear, change class and move between the three variable sets (all six directions; "
                           "oracle and model/UpdateFromNS.v); non-trivial = both trees have >= 3 nodes")


def replay(path):
    r = json.load(open(path))
    rp = r.get("replay") or {}
    if "case" in rp and ("run_http" in rp.get("how", "") or "run_embedded" in rp.get("how", "")):
        bad = (run_http if "run_http" in rp["how"] else run_embedded)(rp["case"])
        for b in bad[:8]:
            print("oracle:", b)
        if not bad:
            print("oracle: holds")
        return 1 if bad else 0
    if "case" in rp:
        rows, bad = run_sdk(rp["case"])
        for b in bad[:8]:
            print("oracle:", b)
        if not bad:
            print("oracle: holds")
        return 1 if bad else 0
    print(json.dumps(r, indent=1)[:3000])
    return 1
