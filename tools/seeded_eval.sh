#!/bin/bash
# usage: tools/seeded_eval.sh <Cxx> [src root, default /tmp/mut-Cxx/out]   - verify and run every seeded change of a property
pid="$1"; root="${2:-/tmp/mut-$pid/out}"
for d in "$root"/*/; do
  k=$(basename "$d")
  echo "##### $pid change $k"
  /verif/tools/seeded_verify.sh "$d"
  /verif/tools/seeded_run.sh "$d/patch.diff" "$pid" 2>&1 | grep -E "VIOLATION|^\[$pid\]|SEEDED-RESULT|\"what\"|\"kind\"" | cut -c1-260 | awk '/SEEDED-RESULT/{print; next} n<8{n++; print}' 
done
