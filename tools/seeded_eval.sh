#!/bin/bash
# usage: tools/seeded_eval.sh <Cxx> [src root, default /tmp/mut-Cxx/out]   - verify and run every seeded change of a property
pid="$1"; root="${2:-/tmp/mut-$pid/out}"
for d in "$root"/*/; do
  k=$(basename "$d")
  echo "##### $pid change $k"
  /verif/tools/seeded_verify.sh "$d"
  /verif/tools/seeded_run.sh "$d/patch.diff" "$pid" 2>&1 | grep -E "VIOLATION|KNOWN-FINDING|^\[$pid\]|SEEDED-RESULT|\"what\"|\"kind\"" | cut -c1-260 | head -9
done
