"""C09 - Readers isolate damaged input: failsafe never raises, strict as documented.

 1. tie T: tools/py2coq/readerflow.py regenerates coq/theories/gen/Gen_ReaderFlow.v from the current
    json_deserialization.py / xml_deserialization.py (exception-flow translation, fail-closed).
 2. theorems: coq/theories/props/C09.v (flow theorems over the generated tables, walk theorems).
 3. property oracle (c09_damage.oracle): valid documents x nodes x 12 damage operators, both formats, both modes;
    well-formed non-AAS documents and garbled bytes.
 4. tie C: (a) every exception observed inside the real readers (sys.monitoring) is checked by Coq against the
    raise-set of the translated statement (ORIGIN) and against the computed escape set of the function (UNWIND);
    exn_sub is compared with issubclass;  (b) the walk model (model/ReaderWalk.v) is run by Coq on random
    multi-item documents (duplicates, wrong lists, broken items, unknown lists, pre-filled stores, flags) and
    compared with the four real readers.
"""
import copy
import io
import json
import os
import random
import re
import time

import common
from common import coq_list, coq_z

THEOREMS = ["C09_analysis_sound", "C09_failsafe_total", "C09_strict_documented", "C09_bytes_json_failsafe",
            "C09_bytes_xml_failsafe", "C09_bytes_strict", "C09_conflict_failsafe", "C09_semantics_raises",
            "C09_strict_can_raise", "C09_conflict_can_raise", "C09_walk_failsafe_total", "C09_walk_strict_refines",
            "C09_walk_errors", "C09_isolation", "C09_walk_example", "C09_isolation_example"]
VO = ["theories/props/C09.vo"]
PRELUDE_FLOW = ("From Coq Require Import List ZArith Bool.\n"
                "From Basyx Require Import model.ReaderFlow proofs.ReaderFlowTables.")
PRELUDE_WALK = ("From Coq Require Import List ZArith Bool.\n"
                "From Basyx Require Import model.ReaderFlow model.ReaderWalk.")


def coq_exn_of(pyname):
    from py2coq import readerflow
    inv = {v: k for k, v in readerflow.PY_EXN.items()}
    return inv.get(pyname, "OtherError")


def exn_ctor(e):
    t = type(e)
    return coq_exn_of(f"{t.__module__}.{t.__qualname__}")


EXN_CODE = {"KeyError": 0, "TypeError": 1, "ValueError": 2, "AASCV": 3, "LookupError": 4, "IndexError": 5,
            "AttributeError": 6, "AssertionError": 7, "BinasciiError": 8, "UnicodeDecodeError": 9,
            "JSONDecodeError": 10, "XMLSyntaxError": 11, "OSError": 12, "RecursionError": 13, "OverflowError": 14,
            "OtherError": 15}


# ---------------------------------------------------------------------------------------- tie C (a): events

def check_events(chk, trans, origin, unwind, tables_built):
    """origin: {(mod, line, pyclass, mode, scn): n}; unwind: {(mod, fn, pyclass, mode, scn): n}"""
    import importlib
    from py2coq import readerflow
    sites_by_fn = {}
    for s in trans["sites"]:
        sites_by_fn.setdefault((s["mod"], s["fn"]), []).append(s)
    fn_at = {}
    for mod, fns in trans["fn_lines"].items():
        for fn, (l0, l1) in fns.items():
            for ln in range(l0, l1 + 1):
                fn_at[(mod, ln)] = fn
    inst_of = {}
    for i, (mod, name, carg, flag) in enumerate(trans["order"]):
        inst_of.setdefault((mod, name), []).append(i)
    terms, meta = [], []
    for (mod, line, pycls, mode, scn), n in sorted(origin.items(), key=str):
        fn = fn_at.get((mod, line))
        cands = [s for s in sites_by_fn.get((mod, fn), []) if s["l0"] <= line <= s["l1"]]
        sets = coq_list("[" + "; ".join(s["raises"]) + "]" for s in cands)
        terms.append(f"({coq_exn_of(pycls)}, {sets})")
        meta.append({"event": "origin", "module": mod, "function": fn, "line": line, "class": pycls, "count": n,
                     "sites": [(s["kind"], s["text"], s["raises"]) for s in cands][:6]})
        chk.count(f"origin:{mod}:{pycls.split('.')[-1]}", n)
    bad_o, err_o = common.run_mismatch_shards("C09o", PRELUDE_FLOW, terms, "check_origin", shard=2000)
    n_ok = common.run_mismatch_shards.evaluated - len(bad_o)
    for e in err_o:
        chk.tie_broken("correspondence-run", e)
    if bad_o:
        chk.tie_broken("correspondence-raise-sets", {
            "what": "an exception class was observed at a statement whose translated primitives do not list it",
            "n": len(bad_o), "first": [meta[i] for i in bad_o[:5]]})
    # subclass relation
    names = [n for n in readerflow.PY_EXN]
    cls = {}
    for n in names:
        m, q = readerflow.PY_EXN[n].rsplit(".", 1)
        cls[n] = getattr(importlib.import_module(m), q)
    sub_terms = [f"({a}, {b}, {'true' if issubclass(cls[a], cls[b]) else 'false'})" for a in names for b in names]
    bad_s, err_s = common.run_mismatch_shards("C09s", PRELUDE_FLOW, sub_terms, "check_sub", shard=2000)
    n_ok += common.run_mismatch_shards.evaluated - len(bad_s)
    for e in err_s:
        chk.tie_broken("correspondence-run", e)
    if bad_s:
        chk.tie_broken("correspondence-subclass", {"pairs": [sub_terms[i] for i in bad_s[:8]]})
    # unwind events need the computed tables (only there when the theorems built)
    if tables_built:
        uterms, umeta = [], []
        for (mod, fn, pycls, mode, scn), n in sorted(unwind.items(), key=str):
            if scn not in ("doc", "bytes"):
                continue
            tno = {("doc", True): 0, ("doc", False): 1, ("bytes", True): 2, ("bytes", False): 3}[(scn, mode)]
            ids = inst_of.get((mod, fn), [])
            uterms.append(f"({coq_exn_of(pycls)}, {tno}%nat, {coq_list(str(i) + '%nat' for i in ids)})")
            umeta.append({"event": "unwind", "module": mod, "function": fn, "class": pycls,
                          "mode": "failsafe" if mode else "strict", "scenario": scn, "count": n})
            chk.count(f"unwind:{mod}:{'failsafe' if mode else 'strict'}:{pycls.split('.')[-1]}", n)
        bad_u, err_u = common.run_mismatch_shards("C09u", PRELUDE_FLOW, uterms, "check_unwind", shard=2000)
        n_ok += common.run_mismatch_shards.evaluated - len(bad_u)
        for e in err_u:
            chk.tie_broken("correspondence-run", e)
        if bad_u:
            chk.tie_broken("correspondence-escape-sets", {
                "what": "an exception class left a reader function although the computed escape set excludes it",
                "n": len(bad_u), "first": [umeta[i] for i in bad_u[:5]]})
    return n_ok


# ---------------------------------------------------------------------------------------- tie C (b): the walk

class Atoms:
    """pool of top-level items with their abstraction (decoded alone)"""

    def __init__(self, rng, sources):
        import c09_damage as D
        import c09_campaign as C
        from lxml import etree
        self.ids, self.payloads = {}, {}
        self.pool = {"json": [], "xml": []}
        for src in sources:
            fmt, doc = src["fmt"], src["doc"]
            its = sorted(src["items"], key=lambda it: C.item_size(fmt, doc, it))[:4]
            for (ln, idx, _id) in its:
                raw = copy.deepcopy(doc[ln][idx]) if fmt == "json" else copy.deepcopy(doc.find(ln)[idx])
                if C.item_size(fmt, doc, (ln, idx, _id)) > 6000:
                    continue
                self.pool[fmt].append(raw)
                # a broken version and (for duplicate ids) a version with changed content
                if fmt == "json":
                    b = copy.deepcopy(raw)
                    b.pop("id", None)
                    self.pool[fmt].append(b)
                    c = copy.deepcopy(raw)
                    c["idShort"] = "changedContent"
                    self.pool[fmt].append(c)
                    if "submodelElements" in raw and raw["submodelElements"]:
                        n = copy.deepcopy(raw)
                        n["submodelElements"][0].pop("modelType", None)
                        self.pool[fmt].append(n)
                else:
                    b = copy.deepcopy(raw)
                    i = b.find(D.NS + "id")
                    if i is not None:
                        b.remove(i)
                    self.pool[fmt].append(b)
                    c = copy.deepcopy(raw)
                    s = c.find(D.NS + "idShort")
                    if s is not None:
                        s.text = "changedContent"
                        self.pool[fmt].append(c)
        self.pool["json"] += [5, "x", None, {}, {"modelType": 5}, {"modelType": "Foo"},
                              {"modelType": "Capability", "idShort": "cap"}, [1], {"modelType": "Submodel"},
                              {"modelType": "Submodel", "id": ""}]
        from lxml import etree as E
        for t in ("foo", "property", "capability"):
            self.pool["xml"].append(E.Element(D.NS + t))
        self.abs_cache = {}
        self.failsafe_raised = []

    def code(self, table, key):
        if key not in table:
            table[key] = len(table) + 1
        return table[key]

    def abstract(self, fmt, raw):
        """-> ('obj', kind 0/1/2, idcode, payload) | ('broken', exn ctor) | ('other',)"""
        import c09_damage as D
        from lxml import etree
        from basyx.aas import model
        from basyx.aas.adapter.json import StrictAASFromJsonDecoder
        key = (fmt, json.dumps(raw, sort_keys=True) if fmt == "json" else etree.tostring(raw))
        if key in self.abs_cache:
            return self.abs_cache[key]
        kinds = [model.AssetAdministrationShell, model.Submodel, model.ConceptDescription]

        def as_obj(v, se):
            k = [i for i, c in enumerate(kinds) if isinstance(v, c)][0]
            return ("obj", k, self.code(self.ids, v.id), self.code(self.payloads, D.canon_of([v])[v.id]), se)
        if fmt == "json":
            from basyx.aas.adapter.json import AASFromJsonDecoder
            text = json.dumps(raw)
            try:
                v = json.loads(text, cls=AASFromJsonDecoder)
            except Exception as e:  # noqa - the failsafe decoder raised: property violation, reported by the caller
                self.failsafe_raised.append(("json", type(e).__name__, text[:2000]))
                v = None
            try:
                json.loads(text, cls=StrictAASFromJsonDecoder)
                se = None
            except Exception as e:  # noqa
                se = exn_ctor(e)
            if isinstance(v, model.Identifiable):
                res = as_obj(v, se)
            else:
                res = ("broken", se) if se else ("other",)
        else:
            tags = [D.NS + "assetAdministrationShell", D.NS + "submodel", D.NS + "conceptDescription"]
            if raw.tag not in tags:
                res = ("other",)
            else:
                root = etree.Element(D.NS + "environment", nsmap={"aas": D.NS[1:-1]})
                lst = etree.SubElement(root, raw.tag + "s")
                lst.append(copy.deepcopy(raw))
                k1, r1 = D.run_reader("xml", etree.tostring(root), True)
                k2, r2 = D.run_reader("xml", etree.tostring(root), False)
                se = None if k2 == "ok" else exn_ctor(r2)
                objs = list(r1) if k1 == "ok" else []
                if k1 != "ok":
                    self.failsafe_raised.append(("xml", type(r1).__name__, etree.tostring(root).decode()[:2000]))
                if len(objs) == 1:
                    res = as_obj(objs[0], se)
                else:
                    res = ("broken", se or "OtherError")
        self.abs_cache[key] = res
        return res


def coq_item(a):
    if a[0] == "obj":
        return f"IObj {['KShell', 'KSubmodel', 'KCD'][a[1]]} {a[2]} {a[3]} " + (f"(Some {a[4]})" if a[4] else "None")
    if a[0] == "broken":
        return f"IBroken {a[1]}"
    return "IOther"


def gen_walk_case(rng, atoms, fmt):
    """-> (lists, prestore atoms, replace, ignore): lists = [(kind 0/1/2/'u', None | [raw, ...])]"""
    import c09_damage as D
    pool = atoms.pool[fmt]
    nl = rng.randint(1, 4)
    kinds = [0, 1, 2, "u"]
    if fmt == "json":
        chosen = rng.sample(kinds, min(nl, 4))    # json.loads keeps one value per name
    else:
        chosen = [rng.choice(kinds) for _ in range(nl)]
    lists = []
    few = rng.sample(pool, min(len(pool), rng.randint(2, 5)))     # few distinct atoms -> many duplicate ids
    for k in chosen:
        if fmt == "json" and k != "u" and rng.random() < 0.1:
            lists.append((k, None))
            continue
        lists.append((k, [copy.deepcopy(rng.choice(few)) for _ in range(rng.randint(0, 4))]))
    pre = [rng.choice(few) for _ in range(rng.choice([0, 0, 1, 2]))]
    mode = rng.random()
    replace, ignore = (True, False) if mode < 0.25 else (False, True) if mode < 0.5 else (False, False)
    return lists, pre, replace, ignore


def run_walk_case(atoms, fmt, failsafe, case):
    """runs the real reader; returns (coq term, observation, python-side description)"""
    import c09_damage as D
    from lxml import etree
    from basyx.aas import model
    lists, pre, replace, ignore = case
    names_j = ["assetAdministrationShells", "submodels", "conceptDescriptions"]
    # pre-filled store: objects decoded from atoms that decode
    store = model.DictObjectStore()
    st_model = []
    for raw in pre:
        a = atoms.abstract(fmt, raw)
        if a[0] != "obj" or any(i == a[2] for i, _ in st_model):
            continue
        if fmt == "json":
            from basyx.aas.adapter.json import AASFromJsonDecoder
            obj = json.loads(json.dumps(raw), cls=AASFromJsonDecoder)
        else:
            root = etree.Element(D.NS + "environment", nsmap={"aas": D.NS[1:-1]})
            etree.SubElement(root, raw.tag + "s").append(copy.deepcopy(raw))
            obj = list(D.run_reader("xml", etree.tostring(root), True)[1])[0]
        store.add(obj)
        st_model.insert(0, (a[2], a[3]))
    # document
    if fmt == "json":
        d = {}
        ucount = 0
        for k, its in lists:
            if k == "u":
                ucount += 1
                d[f"unknownList{ucount}"] = its
            else:
                d[names_j[k]] = 5 if its is None else its
        data = json.dumps(d)
    else:
        root = etree.Element(D.NS + "environment", nsmap={"aas": D.NS[1:-1]})
        for k, its in lists:
            tag = D.NS + ("noSuchThings" if k == "u" else names_j[k])
            lst = etree.SubElement(root, tag)
            for raw in its or []:
                lst.append(copy.deepcopy(raw))
        data = etree.tostring(root)
    doc_terms = []
    for k, its in lists:
        lk = "LUnknown" if k == "u" else f"LKnown {['KShell', 'KSubmodel', 'KCD'][k]}"
        if its is None:
            doc_terms.append(f"({lk}, None)")
        else:
            doc_terms.append(f"({lk}, Some {coq_list(coq_item(atoms.abstract(fmt, r)) for r in its)})")
    from basyx.aas.adapter.json import read_aas_json_file_into
    from basyx.aas.adapter.xml import read_aas_xml_file_into
    reader = read_aas_json_file_into if fmt == "json" else read_aas_xml_file_into
    try:
        ret = reader(store, io.StringIO(data) if fmt == "json" else io.BytesIO(data), failsafe=failsafe,
                     replace_existing=replace, ignore_existing=ignore)
        kk, r = "ok", store
    except Exception as e:  # noqa
        kk, r = "exc", e
    if kk == "ok":
        canon = D.canon_of(store)
        rows = sorted((atoms.code(atoms.ids, i), atoms.code(atoms.payloads, c)) for i, c in canon.items())
        obs = [0, len(ret)] + [x for row in rows for x in row]
    else:
        obs = [1, EXN_CODE[exn_ctor(r)]]
    return data, doc_terms, st_model, obs, (kk, r)


def walk_correspondence(chk, rng, sources, n_cases):
    import c09_damage as D
    from basyx.aas import model
    from basyx.aas.adapter.json import read_aas_json_file_into
    from basyx.aas.adapter.xml import read_aas_xml_file_into
    atoms = Atoms(rng, sources)
    terms, metas = [], []
    for ci in range(n_cases):
        fmt = "json" if ci % 2 == 0 else "xml"
        case = gen_walk_case(rng, atoms, fmt)
        for failsafe in (True, False):
            data, doc_terms, st_model, obs, (kk, r) = run_walk_case(atoms, fmt, failsafe, case)
            lists, pre, replace, ignore = case
            h = common.zhash_d(obs, 1)
            st = coq_list(f"({i}, {p})" for i, p in st_model)
            terms.append(f"({0 if fmt == 'json' else 1}, {'true' if failsafe else 'false'}, "
                         f"{'true' if replace else 'false'}, {'true' if ignore else 'false'}, "
                         f"{coq_list(doc_terms)}, {st}, {coq_z(h)})")
            metas.append({"fmt": fmt, "failsafe": failsafe, "replace": replace, "ignore": ignore,
                          "document": data if isinstance(data, str) else data.decode("utf-8", "replace"),
                          "model_doc": doc_terms, "model_store": st_model, "sdk_observation": obs})
            chk.count(f"walk:{fmt}:{'failsafe' if failsafe else 'strict'}:"
                      + ("ok" if obs[0] == 0 else "exc"))
            chk.seen(("walk", fmt, failsafe, data if isinstance(data, str) else data.decode("utf-8", "replace"),
                      replace, ignore), nontrivial=sum(len(i or []) for _, i in lists) >= 2)
    for fmt, cls, text in atoms.failsafe_raised[:1]:
        chk.fail(f"C09:{fmt}:failsafe-raises:{cls}", f"failsafe decoding of a single top-level item raised {cls}",
                 {"kind": "bytes", "fmt": fmt, "wellformed": True, "data_hex": text.encode().hex(),
                  "how": "tools/c09.py replay(): bytes_oracle (item wrapped in a list by the harness)"})
    bad, errs = common.run_mismatch_shards("C09w", PRELUDE_WALK, terms, "check_walk", shard=400)
    ok = common.run_mismatch_shards.evaluated - len(bad)
    for e in errs:
        chk.tie_broken("correspondence-run", e)
    if bad:
        m = min((metas[i] for i in bad), key=lambda x: len(x["document"]))
        k = bad[[len(metas[i]["document"]) for i in bad].index(len(m["document"]))]
        model_obs = common.coq_eval("C09w", PRELUDE_WALK,
                                    "let '(f, m, rp, ig, d, st, h) := " + terms[k] + " in obs_walk (walk "
                                    "(if Z.eqb f 0 then JSON else XML) m {| fl_replace := rp; fl_ignore := ig |} d st)")
        chk.tie_broken("correspondence-walk", {"n_disagreements": len(bad), "smallest": m, "model_observation": model_obs})
    if len(chk.samples) < 6 and metas:
        chk.samples.append({"walk_case": {k: v for k, v in metas[len(metas) // 2].items() if k != "document"}})
    return ok


# ---------------------------------------------------------------------------------------- non-AAS / garbled input

NSD = 'xmlns:aas="https://admin-shell.io/aas/3/0"'


def bytes_stream(rng, sources, n):
    """-> [(fmt, data, wellformed)]"""
    import c09_campaign as C
    out = []
    fixed_json = ['[]', '{}', '5', '"x"', 'null', 'true', '[1,[2,{"a":[]}]]', '{"submodels": 5}',
                  '{"submodels": {"a":1}}', '{"submodels":[1,"a",null,[],{}]}', '{"submodels":[{"modelType":5}]}',
                  '{"modelType":"Submodel","id":"x"}', '{"a":NaN,"b":Infinity,"c":1e999,"d":1234567890123456789012}',
                  '{"assetAdministrationShells": [[]], "conceptDescriptions": "x"}', '{"a":"\\ud800"}',
                  '{"submodels":[{"modelType":"Submodel","id":"x","idShort":"a","idShort":5}]}']
    fixed_xml = ['<a/>', '<?xml version="1.0"?><root><x>1</x></root>',
                 f'<aas:environment {NSD}><?pi x?></aas:environment>',
                 f'<aas:environment {NSD}><aas:submodels><?pi x?></aas:submodels></aas:environment>',
                 f'<aas:environment {NSD}><aas:submodels><aas:submodel><aas:id>x</aas:id><aas:submodelElements>'
                 f'<?pi y?><!-- c --></aas:submodelElements></aas:submodel></aas:submodels></aas:environment>',
                 f'<aas:environment {NSD}><aas:submodels><aas:submodel><aas:id>x<!-- c -->y</aas:id></aas:submodel>'
                 f'</aas:submodels></aas:environment>',
                 f'<!DOCTYPE r [<!ENTITY e "v">]><aas:environment {NSD}><aas:submodels><aas:submodel><aas:id>&e;</aas:id>'
                 f'</aas:submodel></aas:submodels></aas:environment>',
                 f'<aas:environment {NSD}>text<aas:submodels>text</aas:submodels>tail</aas:environment>',
                 f'<aas:submodels {NSD}/>', f'<aas:submodel {NSD}/>',
                 '<environment xmlns="https://admin-shell.io/aas/3/0"><submodels><submodel><id>q</id></submodel>'
                 '</submodels></environment>',
                 '<environment xmlns="https://admin-shell.io/aas/2/0"><submodels/></environment>']
    inner_j, inner_x = {"modelType": "Capability", "idShort": "c"}, "<aas:capability><aas:idShort>c</aas:idShort></aas:capability>"
    for i in range(300):
        inner_j = {"modelType": "SubmodelElementCollection", "idShort": f"s{i}", "value": [inner_j]}
        if i < 120:
            inner_x = (f"<aas:submodelElementCollection><aas:idShort>s{i}</aas:idShort><aas:value>{inner_x}</aas:value>"
                       f"</aas:submodelElementCollection>")
    fixed_json.append(json.dumps({"submodels": [{"modelType": "Submodel", "id": "urn:deep", "submodelElements": [inner_j]}]}))
    fixed_xml.append(f"<aas:environment {NSD}><aas:submodels><aas:submodel><aas:id>urn:deep</aas:id><aas:submodelElements>"
                     f"{inner_x}</aas:submodelElements></aas:submodel></aas:submodels></aas:environment>")
    for s in fixed_json:
        out.append(("json", s, True))
    for s in fixed_xml:
        out.append(("xml", s.encode(), True))
    # random well-formed non-AAS JSON / XML
    def rj(d):
        r = rng.random()
        if d <= 0 or r < 0.3:
            return rng.choice([0, 1.5, "s", None, True, "", "Submodel", -7])
        if r < 0.65:
            return [rj(d - 1) for _ in range(rng.randint(0, 3))]
        keys = ["a", "modelType", "id", "submodels", "value", "keys", "type", "assetAdministrationShells",
                "conceptDescriptions", "idShort", "valueType", "kind"]
        return {rng.choice(keys): rj(d - 1) for _ in range(rng.randint(0, 4))}

    def rx(d):
        tags = ["environment", "submodels", "submodel", "id", "property", "value", "keys", "key", "foo",
                "assetAdministrationShells", "conceptDescriptions", "idShort", "valueType", "qualifiers"]
        t = rng.choice(tags)
        ns = rng.choice(["aas:", "aas:", ""])
        inner = "" if d <= 0 else "".join(rx(d - 1) for _ in range(rng.randint(0, 3)))
        if not inner and rng.random() < 0.6:
            inner = rng.choice(["x", "1", "true", "xs:int", " ", "Instance"])
        return f"<{ns}{t}>{inner}</{ns}{t}>"
    for _ in range(n):
        out.append(("json", json.dumps(rj(4)), True))
        body = "".join(rx(3) for _ in range(rng.randint(0, 3)))
        out.append(("xml", f"<aas:environment {NSD}>{body}</aas:environment>".encode(), True))
    # truncated / garbled valid documents
    texts = []
    for src in sorted(sources, key=lambda x: len(C.serialise(x["fmt"], x["doc"])))[:8]:
        data = C.serialise(src["fmt"], src["doc"])
        texts.append((src["fmt"], data if isinstance(data, bytes) else data.encode()))
    for _ in range(n):
        fmt, b = rng.choice(texts)
        k = rng.random()
        if k < 0.4:
            g = b[:rng.randrange(len(b))]
        elif k < 0.7:
            i = rng.randrange(len(b))
            g = b[:i] + bytes([rng.randrange(256)]) + b[i + 1:]
        elif k < 0.85:
            i, j = sorted((rng.randrange(len(b)), rng.randrange(len(b))))
            g = b[:i] + b[j:]
        else:
            g = bytes(rng.randrange(256) for _ in range(rng.randint(0, 40)))
        out.append((fmt, g, None))       # well-formedness decided by an independent parse
    return out


def wellformed(fmt, data):
    """independent decision with the plain parsers (no SDK code)"""
    from lxml import etree
    try:
        if fmt == "json":
            json.loads(data)
        else:
            etree.fromstring(data, etree.XMLParser(remove_blank_text=True, remove_comments=True))
        return True
    except RecursionError:
        raise
    except Exception:  # noqa
        return False


def bytes_oracle(fmt, data, wf):
    """O1/O3/O4 on one input without expectations about the content"""
    import c09_damage as D
    from lxml import etree
    D.SCN = "bytes"
    try:
        k1, r1 = D.run_reader(fmt, data, True)
        k2, r2 = D.run_reader(fmt, data, False)
    finally:
        D.SCN = "doc"
    if wf:
        if k1 != "ok":
            return "failsafe-raises:" + type(r1).__name__, f"failsafe read of a well-formed document raised {type(r1).__name__}: {str(r1)[:200]}"
        if k2 == "ok":
            if D.canon_of(r1) != D.canon_of(r2):
                return "strict-differs", "strict read returned without raising but differs from failsafe"
        elif not D.documented(r2):
            return "strict-raises:" + type(r2).__name__, f"strict read raised undocumented {type(r2).__name__}: {str(r2)[:200]}"
        return None
    if fmt == "json":
        for k, r, m in ((k1, r1, "failsafe"), (k2, r2, "strict")):
            if k == "ok":
                return "malformed-accepted", f"{m} read accepted input that is not well-formed JSON"
            # json runs object_hook while it parses: in strict mode a broken object in front of the syntax error
            # raises its documented class first (KeyError/TypeError/ValueError); failsafe must give the syntax error
            if not isinstance(r, (json.JSONDecodeError, UnicodeDecodeError)) and not (m == "strict" and D.documented(r)):
                return "malformed-raises:" + type(r).__name__, f"{m} read of malformed JSON raised {type(r).__name__}: {str(r)[:200]}"
        return None
    if k1 != "ok":
        return "malformed-raises:" + type(r1).__name__, f"failsafe read of malformed XML raised {type(r1).__name__} instead of returning an empty result"
    if len(list(r1)) != 0:
        return "malformed-accepted", "failsafe read of malformed XML returned objects"
    if k2 == "ok":
        return "malformed-accepted", "strict read accepted input that is not well-formed XML"
    if not isinstance(r2, etree.XMLSyntaxError):
        return "malformed-raises:" + type(r2).__name__, f"strict read of malformed XML raised {type(r2).__name__}: {str(r2)[:200]}"
    return None


# ---------------------------------------------------------------------------------------- fragments
# observation points json.loads(cls=decoder) and read_aas_xml_element: single (nested) objects, damaged the same way

XML_CONSTRUCT = {
    "property": "PROPERTY", "range": "RANGE", "blob": "BLOB", "file": "FILE",
    "multiLanguageProperty": "MULTI_LANGUAGE_PROPERTY", "referenceElement": "REFERENCE_ELEMENT",
    "relationshipElement": "RELATIONSHIP_ELEMENT", "annotatedRelationshipElement": "ANNOTATED_RELATIONSHIP_ELEMENT",
    "submodelElementCollection": "SUBMODEL_ELEMENT_COLLECTION", "submodelElementList": "SUBMODEL_ELEMENT_LIST",
    "entity": "ENTITY", "operation": "OPERATION", "capability": "CAPABILITY", "basicEventElement": "BASIC_EVENT_ELEMENT",
    "qualifier": "QUALIFIER", "extension": "EXTENSION", "key": "KEY", "reference": "REFERENCE", "semanticId": "REFERENCE",
    "administration": "ADMINISTRATIVE_INFORMATION", "assetInformation": "ASSET_INFORMATION",
    "specificAssetId": "SPECIFIC_ASSET_ID", "embeddedDataSpecification": "EMBEDDED_DATA_SPECIFICATION",
    "dataSpecificationIec61360": "DATA_SPECIFICATION_IEC61360", "submodel": "SUBMODEL",
    "assetAdministrationShell": "ASSET_ADMINISTRATION_SHELL", "conceptDescription": "CONCEPT_DESCRIPTION",
    "valueReferencePair": "VALUE_REFERENCE_PAIR", "valueList": "VALUE_LIST", "description": "MULTI_LANGUAGE_TEXT_TYPE",
    "displayName": "MULTI_LANGUAGE_NAME_TYPE", "defaultThumbnail": "RESOURCE", "dataSpecificationContent": "DATA_SPECIFICATION_CONTENT",
}


def collect_fragments(sources, per_type=3, max_size=4000):
    import c09_damage as D
    from lxml import etree
    frags = {"json": [], "xml": []}
    count = {}
    for src in sources:
        if src["fmt"] == "json":
            def go(v):
                if isinstance(v, dict):
                    mt = v.get("modelType")
                    if isinstance(mt, str) and count.get(("j", mt), 0) < per_type and len(json.dumps(v)) <= max_size:
                        count[("j", mt)] = count.get(("j", mt), 0) + 1
                        frags["json"].append(copy.deepcopy(v))
                    for x in v.values():
                        go(x)
                elif isinstance(v, list):
                    for x in v:
                        go(x)
            go(src["doc"])
        else:
            for el in src["doc"].iter():
                name = D._lname(el)
                if name in XML_CONSTRUCT and count.get(("x", name), 0) < per_type \
                        and len(etree.tostring(el)) <= max_size:
                    count[("x", name)] = count.get(("x", name), 0) + 1
                    frags["xml"].append(copy.deepcopy(el))
    return frags


def canon_any(v):
    import aasgen
    try:
        return json.dumps(aasgen.canon(v), sort_keys=True, default=str)
    except Exception:  # noqa - not a metamodel object (raw dict, set of pairs, lang string set ...)
        return repr(type(v))


def fragment_read(fmt, frag, construct, failsafe, variant=0, stripped=False):
    import c09_damage as D
    from lxml import etree
    from basyx.aas.adapter.json import AASFromJsonDecoder, StrictAASFromJsonDecoder
    from basyx.aas.adapter.xml import read_aas_xml_element, XMLConstructables
    if D.HOOK is not None:
        D.HOOK.begin(failsafe, "doc")
    try:
        if fmt == "json":
            return "ok", json.loads(json.dumps(frag), cls=D.decoder_class("json", failsafe, stripped, subclass=(variant % 3 == 2)))
        kw = [{"failsafe": failsafe, "stripped": stripped},
              {"failsafe": not failsafe, "stripped": not stripped, "decoder": D.decoder_class("xml", failsafe, stripped)},
              {"failsafe": not failsafe, "decoder": D.decoder_class("xml", failsafe, stripped, subclass=True)}][variant % 3]
        return "ok", read_aas_xml_element(io.BytesIO(etree.tostring(frag)), getattr(XMLConstructables, construct), **kw)
    except RecursionError:
        raise
    except Exception as e:  # noqa
        return "exc", e
    finally:
        if D.HOOK is not None:
            D.HOOK.end()


def fragment_campaign(chk, rng, sources, budget, seen_fail):
    import c09_damage as D
    from lxml import etree
    frags = collect_fragments(sources)
    specs = []
    for fmt in ("json", "xml"):
        for fi, frag in enumerate(frags[fmt]):
            if fmt == "json":
                wrap = {"w": [frag]}
                nodes = D.json_nodes(frag, ("w", 0))
                appl = D.json_applicable
            else:
                wrap = etree.Element("w")
                lst = etree.SubElement(wrap, "l")
                lst.append(copy.deepcopy(frag))
                nodes = D.xml_nodes(wrap[0][0], (0, 0))
                appl = D.xml_applicable
            for path in nodes:
                for op in appl(wrap, path):
                    if op in ("wronglist", "harmless", "nsrebind") or (op == "dupid" and len(path) <= 3):
                        continue
                    specs.append((fmt, fi, path, op))
    chk.cov["fragment_cases_enumerated"] = len(specs)
    if len(specs) > budget:
        specs = rng.sample(specs, budget)
    for fmt, fi, path, op in specs:
        frag = frags[fmt][fi]
        variant = rng.randrange(10 ** 6)
        if fmt == "json":
            d2 = D.json_damage({"w": [frag]}, path, op, variant)
            if d2 is None or not d2["w"]:
                continue
            f2 = d2["w"][0]
            construct = None
            name = frag.get("modelType")
        else:
            wrap = etree.Element("w")
            etree.SubElement(wrap, "l").append(copy.deepcopy(frag))
            d2 = D.xml_damage(wrap, path, op, variant)
            if d2 is None or len(d2[0]) == 0:
                continue
            f2 = d2[0][0]
            name = D._lname(frag)
            construct = XML_CONSTRUCT[name]
            try:
                etree.tostring(f2)
            except Exception:  # noqa
                continue
        chk.seen(("fragment", fmt, name, path, op, variant), nontrivial=True)
        chk.count(f"fragment:{fmt}:{op}")
        rv, stp = variant % 3, (variant // 3) % 5 == 0
        chk.count(f"fragment-reader-variant:{rv}{'/stripped' if stp else ''}")
        k1, r1 = fragment_read(fmt, f2, construct, True, rv, stp)
        k2, r2 = fragment_read(fmt, f2, construct, False, rv, stp)
        fail = None
        if k1 != "ok":
            fail = ("fragment-failsafe-raises:" + type(r1).__name__,
                    f"failsafe decoding of a single {name} raised {type(r1).__name__}: {str(r1)[:200]}")
        elif k2 == "ok":
            if canon_any(r1) != canon_any(r2):
                fail = ("fragment-strict-differs", f"strict decoding of a single {name} returned without raising but "
                                                   f"differs from failsafe")
        elif not D.documented(r2):
            fail = ("fragment-strict-raises:" + type(r2).__name__,
                    f"strict decoding of a single {name} raised undocumented {type(r2).__name__}: {str(r2)[:200]}")
        if fail:
            sig = f"C09:{fmt}:{fail[0]}"
            if sig in seen_fail:
                seen_fail[sig]["n"] += 1
            else:
                text = json.dumps(f2) if fmt == "json" else etree.tostring(f2).decode()
                seen_fail[sig] = {"n": 1, "what": fail[1] + f" [operator {op}]",
                                  "replay": {"kind": "fragment", "fmt": fmt, "construct": construct, "data": text,
                                             "variant": rv, "stripped": stp,
                                             "how": "tools/c09.py replay(): fragment_read failsafe/strict"}}


# ---------------------------------------------------------------------------------------- shrinking

def shrink_case(sources, spec, kind):
    """tries to drop the witnesses and to use a smaller variant; returns the (possibly) smaller spec"""
    import c09_campaign as C
    si, victim, witnesses, path, op, variant, oid = spec
    best = spec
    for w in ([], list(witnesses[:1]), list(witnesses[1:])):
        if op == "dupid" and len(path) == 3 and (not w or w[0][2] != oid):
            continue
        cand = (si, victim, tuple(w), path, op, variant, oid)
        try:
            r = C.run_spec(sources, cand)
        except Exception:  # noqa
            continue
        if r and r["fail"] and r["fail"][0] == kind:
            best = cand
            break
    return best


# ---------------------------------------------------------------------------------------- run

def run(chk):
    import c09_damage as D
    import c09_campaign as C
    import c09_events as EV
    from py2coq import readerflow, TranslationError
    rng = chk.rng
    quick = chk.tier == "quick"
    n_gen, budget, n_walk, n_bytes, n_frag = (12, 5000, 400, 400, 3500) if quick else (60, 120000, 4000, 5000, 40000)
    # ---- tie T
    trans = None
    try:
        msg = readerflow.regenerate()
        trans = readerflow.regenerate.last
        chk.notes.append("readerflow: " + msg)
    except TranslationError as e:
        chk.tie_broken("translation", f"tools/py2coq/readerflow.py aborted: {e}")
    except SyntaxError as e:
        chk.tie_broken("translation", f"reader source does not parse: {e}")
    # ---- theorems
    built = False
    if trans is not None:
        built = chk.theorems("props.C09", THEOREMS, VO)
    else:
        for n in THEOREMS:
            chk.obligations.append((n, "not-checked", []))
    # ---- oracle campaign (+ event observation)
    t0 = time.time()
    sources, notes, prefails = C.build_sources(rng, n_gen)
    chk.notes += notes
    chk.cov["base_documents"] = {"read_by_all_four_readers": len(sources), "oracle_failures_undamaged": len(prefails),
                                 "skipped_with_note": notes}
    specs, total = C.enumerate_cases(rng, sources, budget, forced_cap=(1500 if quick else 12000),
                                      typed_cap=(1500 if quick else None))
    chk.cov["damage_cases_enumerated"] = total
    chk.cov["damage_cases_run"] = len(specs)

    def hook_factory():
        h = EV.Hook().install()
        D.HOOK = h
        return h
    results, events = C.run_parallel(sources, specs, jobs=int(os.environ.get("C09_JOBS", "8")),
                                     hook_factory=hook_factory)
    origin, unwind = {}, {}
    for ev in events:
        EV.merge((origin, unwind), ev)
    seen_fail = {}
    for pf in prefails:
        fmt, kind, text, data = pf[:4]
        sig = f"C09:{fmt}:{kind}"
        if sig in seen_fail:
            seen_fail[sig]["n"] += 1
            continue
        if len(pf) > 4:     # compared with the store the document was written from
            seen_fail[sig] = {"n": 1, "what": text,
                              "replay": {"kind": "base", "fmt": fmt, "expected": pf[4],
                                         "data_hex": (data if isinstance(data, bytes) else data.encode()).hex(),
                                         "how": "tools/c09.py replay(): c09_campaign.base_oracle - failsafe read of the "
                                                "undamaged document against the canonical form of the objects it was "
                                                "written from"}}
            continue
        seen_fail[sig] = {"n": 1, "what": text,
                          "replay": {"kind": "bytes", "fmt": fmt, "wellformed": True,
                                     "data_hex": (data if isinstance(data, bytes) else data.encode()).hex(),
                                     "how": "tools/c09.py replay(): bytes_oracle on the undamaged document"}}
    for spec, r in zip(specs, results):
        if r is None:
            chk.count("n/a")
            continue
        fmt = sources[spec[0]]["fmt"]
        op = spec[4]
        chk.seen((spec[0], spec[1], spec[3], op, spec[5]), nontrivial=True)
        chk.count(f"{fmt}:{op}")
        chk.count(f"outcome:{fmt}:failsafe={r['obs'][0]}:strict={r['obs'][1]}")
        st = r["style"]
        chk.count(f"reader-variant:{st['kind']}{'/stripped' if st['stripped'] else ''}{'/into' if st['into'] else ''}")
        if (r["h"] // 97) % 10 == 0:
            chk.count(f"logging-config:{1 + (r['h'] // 7) % 6}")
        if r["fail"]:
            kind, text = r["fail"]
            sig = f"C09:{fmt}:{kind}"
            if sig in seen_fail:
                seen_fail[sig]["n"] += 1
                continue
            small = shrink_case(sources, spec, kind)
            rr = C.run_spec(sources, small) or r
            if not rr["fail"]:
                rr, small = r, spec
            src = sources[small[0]]
            st = rr.get("style") or {}
            seen_fail[sig] = {"n": 1, "what": f"{rr['fail'][1]} [operator {small[4]} at {rr['ctx'][0]}.{rr['ctx'][1]}, "
                                             f"document from {src['name']}, reader variant {st.get('kind')}"
                                             f"{'/stripped' if st.get('stripped') else ''}{'/into' if st.get('into') else ''}]",
                              "replay": rr["replay"]}
    # ---- non-AAS and garbled input
    hook = EV.Hook().install()
    D.HOOK = hook
    try:
        for fmt, data, wf in bytes_stream(rng, sources, n_bytes):
            if wf is None:
                wf = wellformed(fmt, data)
            chk.count(f"bytes:{fmt}:{'well-formed' if wf else 'malformed'}")
            chk.seen(("bytes", fmt, data), nontrivial=True)
            f = bytes_oracle(fmt, data, wf)
            if f:
                sig = f"C09:{fmt}:{f[0]}"
                if sig not in seen_fail:
                    seen_fail[sig] = {"n": 1, "what": f[1] + (" [well-formed non-AAS input]" if wf else " [malformed input]"),
                                      "replay": {"kind": "bytes", "fmt": fmt, "wellformed": wf,
                                                 "data_hex": (data if isinstance(data, bytes) else data.encode()).hex(),
                                                 "how": "tools/c09.py replay(): bytes_oracle"}}
                else:
                    seen_fail[sig]["n"] += 1
        # ---- single objects through json.loads(cls=decoder) / read_aas_xml_element
        fragment_campaign(chk, rng, sources, n_frag, seen_fail)
        for sig, f in seen_fail.items():
            chk.fail(sig, f["what"] + f" ({f['n']} cases)", f["replay"])
        # ---- walk correspondence (events of these runs are observed but belong to scenario 'walk')
        D.SCN = "walk"
        n_walk_ok = 0
        try:
            n_walk_ok = walk_correspondence(chk, rng, sources, n_walk)
        except Exception:  # noqa - e.g. a reader raising where the harness does not expect it
            import traceback
            chk.tie_broken("correspondence-walk-crashed", traceback.format_exc()[-1500:])
        D.SCN = "doc"
    finally:
        EV.merge((origin, unwind), hook.drain())
        hook.uninstall()
        D.HOOK = None
    # ---- tie C (a)
    n_ev_ok = 0
    if trans is not None:
        n_ev_ok = check_events(chk, trans, origin, unwind, built)
    chk.traces = n_walk_ok + n_ev_ok
    chk.cov["events"] = {"origin_distinct": len(origin), "origin_total": sum(origin.values()),
                         "unwind_distinct": len(unwind), "unwind_total": sum(unwind.values())}
    chk.cov["campaign_wall_s"] = round(time.time() - t0, 1)
    if specs and len(chk.samples) < 8:
        for spec, r in list(zip(specs, results))[:3]:
            if r:
                chk.samples.append({"damage_case": {"source": sources[spec[0]]["name"], "format": sources[spec[0]]["fmt"],
                                                    "victim": spec[1][2], "path": [str(x) for x in spec[3]],
                                                    "operator": spec[4], "failsafe": r["obs"][0], "strict": r["obs"][1]}})
    chk.trusted = [
        "Coq 8.16.1 kernel (coqc; vm_compute for the finite table checks and the correspondence; no native_compute)",
        "tools/py2coq/readerflow.py: fail-closed ast translator of the two reader modules, incl. its hand-written table "
        "PRIMS of raise-sets per callee kind (model constructors/setters/add: AASConstraintViolation, ValueError, TypeError, "
        "KeyError; from_xsd: ValueError/TypeError; b64decode: binascii.Error; lookups: KeyError[/TypeError]; str()/format/"
        "logging/lxml accessors/guarded lookups: none) - validated on every run against the exceptions observed in the real "
        "readers (sys.monitoring)",
        "json / lxml parsers: deliver dicts / element trees for well-formed input and JSONDecodeError / UnicodeDecodeError / "
        "XMLSyntaxError otherwise (scenario flag sc_syntax); json calls object_hook once per object with a dict",
        "object store obeys get/add/discard of a dict (C13); the AssertionError trap of _failsafe_construct_mandatory is "
        "unreachable (scenario flag sc_bug); read_aas_xml_element is called with a constructable member (sc_arg)",
        "the walk model abstracts every top-level item to the result of decoding it alone (validated by the walk correspondence)",
        "tools/c09.py, c09_damage.py, c09_campaign.py, c09_events.py, aasgen.canon (harness, oracle, canonicaliser)",
    ]
    chk.assumptions = [
        "RecursionError for documents nested deeper than the interpreter's recursion limit is outside the model and the campaign",
        "file-like input; opening a path may raise OSError (scenario flag sc_io, not part of the theorems' scenario)",
        "for a duplicated identifier the first object in walk order is the one that is kept; the oracle treats both holders "
        "of the identifier as damaged",
    ]
    return chk.finish(
        level="proof",
        rule="valid documents = SDK examples + seeded aasgen stores written by the SDK writers; each case damages one node "
             "(every member / list item / element below a chosen identifiable) with one of 13 damage operators (the 13th: re-binding the XML namespace prefix / default namespace on the root or one element) or the harmless operator (XML comment / processing instruction / white space at or inside the node, text or element supplied by an internal general entity of the document's own DOCTYPE, JSON white space / member order / escapes: both readers must return the undamaged result) and reads a document "
             "holding the victim and up to two untouched witnesses with the failsafe and the strict reader of its format, selected through a seeded reader variant (failsafe flag / explicit shipped decoder class / decoder class with contradicting flags / trivial subclass, x stripped, x file/file_into); a fifth of the cases is repeated under another logging configuration; a damaged identifiable must come back unchanged, not at all, or as read from a valid document without the damaged node or a node containing it; all node x operator pairs are "
             "enumerated and a seeded sample of the budget is run; plus fixed and random well-formed non-AAS documents, "
             "truncated/garbled bytes, and random multi-item documents for the walk model; non-trivial = every damage "
             "case, walk cases with >= 2 items; distinct by (document, path, operator, variant)")


def replay(path):
    import c09_damage as D
    r = json.load(open(path))
    rp = r.get("replay") or {}
    if rp.get("kind") == "damage":
        import c09_campaign as C
        obs, fail = C.replay_case(rp)
        print("readers (failsafe, strict):", obs, "variant:", rp.get("style"))
        print("oracle:", fail)
        return 1 if fail else 0
    if rp.get("kind") == "base":
        import c09_campaign as C
        data = bytes.fromhex(rp["data_hex"])
        f = C.base_oracle(rp["fmt"], data if rp["fmt"] == "xml" else data.decode("utf-8", "surrogatepass"), rp["expected"],
                          "replay")
        print("oracle:", f)
        return 1 if f else 0
    if rp.get("kind") == "bytes":
        data = bytes.fromhex(rp["data_hex"])
        f = bytes_oracle(rp["fmt"], data if rp["fmt"] == "xml" else data.decode("utf-8", "surrogatepass"), rp["wellformed"])
        print("oracle:", f)
        return 1 if f else 0
    if rp.get("kind") == "fragment":
        from lxml import etree
        frag = json.loads(rp["data"]) if rp["fmt"] == "json" else etree.fromstring(rp["data"].encode())
        k1, r1 = fragment_read(rp["fmt"], frag, rp["construct"], True, rp.get("variant", 0), rp.get("stripped", False))
        k2, r2 = fragment_read(rp["fmt"], frag, rp["construct"], False, rp.get("variant", 0), rp.get("stripped", False))
        print("failsafe:", k1, type(r1).__name__, "strict:", k2, type(r2).__name__)
        import c09_damage as D
        bad = k1 != "ok" or (k2 != "ok" and not D.documented(r2)) or (k2 == "ok" and canon_any(r1) != canon_any(r2))
        return 1 if bad else 0
    print(json.dumps(r, indent=1)[:3000])
    return 1
