#!/bin/bash
# usage: tools/seeded_verify.sh <dir with patch.diff demo.py>
# Confirms: demo passes on clean HEAD of /repo (scratch worktree), patch applies, baseline suite still 210 passed,
# demo fails with the patch.
set -u
d="$(readlink -f "$1")"; wt="/tmp/seedverify-$$"
git -C /repo worktree add --detach "$wt" HEAD >/dev/null 2>&1 || exit 2
run() { ( cd "$wt" && PYTHONPATH="$wt/sdk:$wt/compliance_tool" PYTHONHASHSEED=0 /venv/bin/python "$@" ) 2>&1 | grep -v -i conda; return ${PIPESTATUS[0]}; }
run "$d/demo.py" >/dev/null; c=$?
git -C "$wt" apply "$d/patch.diff" || { echo "VERIFY patch-does-not-apply"; git -C /repo worktree remove --force "$wt"; exit 2; }
t=$(cd "$wt" && PYTHONPATH="$wt/sdk:$wt/compliance_tool" /venv/bin/python -m pytest -q -p no:cacheprovider --timeout=900 --continue-on-collection-errors sdk/test 2>&1 | tail -1)
run "$d/demo.py" >/dev/null; m=$?
echo "VERIFY clean_demo_rc=$c mutated_demo_rc=$m suite='$t'"
git -C /repo worktree remove --force "$wt"
