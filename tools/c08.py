"""C08 - AASX packages return the objects and files that were put in.

Theorems: coq/theories/props/C08.v over model/Aasx.v (+ model/Files.v of C19).
Tie C: seeded package round trips on in-memory BytesIO packages run on the SDK (AASXWriter/AASXReader
public API) and on the model (vm_compute over the reference OPC semantics), compared by observation.
Oracle: an independent Python predicate (own closure computation, own File traversal over the JSON
rendering, byte/ctype comparison in the receiving container, merge policy, core properties, thumbnail).
"""
import copy
import datetime
import io
import json
import logging
import os
import re
import warnings

import common
from common import coq_str, coq_list, coq_z, enc_str

THEOREMS = ["C08_codec_opc_satisfiable", "C08_closure", "C08_write_read_ok", "C08_objects", "C08_files",
            "C08_existing", "C08_frame", "C08_core_thumbnail", "C08_files_collision_refuted",
            "C08_example"]

CONTENTS = [b"", b"one", b"two", b"%PDF-1.4 three", b"\x00\xff\x10", b"five" * 50]
CTYPES = ["", "application/xml", "application/json", "text/plain", "application/pdf", "image/png",
          # the same media type with other parameters / in another case: different content types for the container
          "text/plain; charset=utf-8", "text/plain; charset=iso-8859-1", "TEXT/PLAIN", "application/pdf; version=1.4",
          "Application/PDF"]
CTYPE_VARIANTS = {3: [6, 7, 8], 6: [3, 7, 8], 7: [3, 6, 8], 8: [3, 6, 7], 4: [9, 10], 9: [4, 10], 10: [4, 9]}
ID_KINDS = ["list", "tuple", "set", "dictkeys", "generator", "iter"]
ERR = {"KeyError": 1, "TypeError": 2, "UnexpectedTypeError": 3, "ValueError": 4, "IndexError": 5,
       "RuntimeError": 6}

# File values by path form
ABSOLUTE = ["/aasx/files/a.pdf", "/a.pdf", "/b.txt", "/aasx/a.pdf", "/docs/Manual v1.pdf", "/c", "/d.e.f", "/docs/t:1.pdf"]
CASEPAIR = ["/A.pdf", "/aasx/files/A.PDF"]                      # collide with ABSOLUTE after normalisation
RELATIVE = ["a.pdf", "files/a.pdf", "./b.txt", "../a.pdf", "x/../c", "../docs/r.bin", "files/t:2.txt"]
URIS = ["http://example.org/a.pdf", "file:///a.pdf", "urn:x:y", "mailto:a@b"]
NETPATH = ["//host/a.pdf", "//a.pdf"]
INVALID = ["/a.", "/x//y.pdf", "/a/", "/q?.pdf", "../../up.pdf"]   # not legal OPC part names when stored
ABOVE_ROOT = ["../../../z.pdf"]                                  # part_realpath raises IndexError
FORMS = {"absolute": ABSOLUTE, "case": CASEPAIR, "relative": RELATIVE, "uri": URIS, "netpath": NETPATH,
         "invalid": INVALID, "aboveroot": ABOVE_ROOT}
PARTS = ["/aasx/data.xml", "/aasx/data.json", "/aasx/sm/part2.xml", "/more/part3.json", "/top.xml"]
THUMBS = ["/thumb.png", "/aasx/img/Thumb 1.jpeg", "/t"]

_cores = None


def cores():
    global _cores
    if _cores is None:
        import pyecma376_2
        res = []
        a = pyecma376_2.OPCCoreProperties()
        res.append(a)
        b = pyecma376_2.OPCCoreProperties()
        b.creator = "verif"
        b.created = datetime.datetime(2024, 2, 29, 12, 30, 59)
        b.title = "T & <t>"
        res.append(b)
        c = pyecma376_2.OPCCoreProperties()
        for k, at in enumerate(("category", "contentStatus", "creator", "description", "identifier", "language",
                                "lastModifiedBy", "revision", "subject", "title", "version")):
            setattr(c, at, f"v{k} ä")
        c.created = datetime.datetime(1999, 12, 31, 23, 59, 59, tzinfo=datetime.timezone.utc)
        c.modified = datetime.date(2020, 1, 2)
        c.lastPrinted = datetime.datetime(2021, 6, 1, 0, 0, 0,
                                          tzinfo=datetime.timezone(datetime.timedelta(hours=5, minutes=30)))
        c.keywords = [(None, "k1"), ("en", "k2")]
        res.append(c)
        _cores = res
    return _cores


def core_index(cp):
    for k, c in enumerate(cores()):
        if vars(c) == vars(cp):
            return k
    return -1


# ------------------------------------------------------------------ generator

def gen_value(rng, hot):
    """a File value; `hot` is the case's small pool of names, to force sharing and conflicts"""
    r = rng.random()
    if r < 0.08:
        return None
    if r < 0.62:
        return rng.choice(hot)
    form = rng.choice(["absolute", "absolute", "relative", "relative", "uri", "netpath", "invalid"])
    return rng.choice(FORMS[form])


def gen_sem(rng, ids):
    r = rng.random()
    if r < 0.45:
        return None
    return [rng.random() < 0.8, rng.choice(ids)]


def gen_elem(rng, depth, hot, ids, only=None):
    kinds = ["file"] * 5 + ["prop"] * 2 + (["coll", "list", "ent", "op", "are"] if depth > 0 else [])
    k = rng.choice(only or kinds)
    e = {"k": k, "sem": gen_sem(rng, ids), "qsems": [gen_sem(rng, ids) for _ in range(rng.choice([0, 0, 0, 1, 2]))]}
    e["qsems"] = [q for q in e["qsems"]]
    if k == "file":
        e["v"] = gen_value(rng, hot)
    elif k == "coll" or k == "ent":
        e["ch"] = [gen_elem(rng, depth - 1, hot, ids) for _ in range(rng.randint(0, 3))]
    elif k == "list":
        # a SubmodelElementList declares one element type: File, a nesting type, or one of the abstract types
        # DataElement / SubmodelElement, whose lists hold any concrete subclass (so possibly Files)
        sub = rng.choice(["file", "coll", "data", "data", "sme", "sme"])
        e["of"] = sub
        if sub == "data":
            e["ch"] = [gen_elem(rng, 0, hot, ids, only=["file", "file", "prop"]) for _ in range(rng.randint(0, 3))]
        elif sub == "sme":
            e["ch"] = [gen_elem(rng, depth - 1, hot, ids) for _ in range(rng.randint(0, 3))]
        else:
            e["ch"] = [gen_elem(rng, depth - 1, hot, ids, only=[sub]) for _ in range(rng.randint(0, 3))]
        for c in e["ch"]:
            c["sem"] = None   # no semantic_id_list_element is set, children are free; keep it simple and valid
    elif k == "op":
        e["in"] = [gen_elem(rng, depth - 1, hot, ids) for _ in range(rng.randint(0, 2))]
        e["out"] = [gen_elem(rng, depth - 1, hot, ids) for _ in range(rng.randint(0, 2))]
        e["io"] = [gen_elem(rng, depth - 1, hot, ids) for _ in range(rng.randint(0, 1))]
    elif k == "are":
        e["ch"] = [gen_elem(rng, 0, hot, ids, only=["file", "file", "prop"]) for _ in range(rng.randint(0, 2))]
    return e


def gen_case(rng):
    nshell, nsm, ncd = rng.randint(1, 3), rng.randint(0, 4), rng.randint(0, 3)
    ids = list(range(10))
    rng.shuffle(ids)
    shell_ids, sm_ids, cd_ids = ids[:nshell], ids[nshell:nshell + nsm], ids[nshell + nsm:nshell + nsm + ncd]
    absent = ids[nshell + nsm + ncd:]
    # the hot name pool of this case: a few path forms, shared between elements, stores and containers
    forms = ["absolute"] * 4 + ["relative"] * 3 + ["uri", "netpath"]
    r = rng.random()
    if r < 0.10:
        forms += ["case"] * 3
    elif r < 0.17:
        forms += ["invalid"] * 2
    elif r < 0.21:
        forms += ["aboveroot"]
    hot = [rng.choice(FORMS[rng.choice(forms)]) for _ in range(rng.randint(1, 4))]
    # the thumbnail of the package (if any); sometimes File elements name the thumbnail's own part
    thumb = None
    if rng.random() < 0.4:
        thumb = ["thumb", rng.choice(THUMBS if rng.random() < 0.97 else ["thumb.png"]),
                 rng.randrange(len(CONTENTS)), rng.choice([4, 5])]
    thumb_file = thumb is not None and thumb[1].startswith("/") and rng.random() < 0.3
    if thumb_file:
        hot += [thumb[1]] * 2
    objs = []
    for i in shell_ids:
        cand = sm_ids * 2 + absent[:2] + ((cd_ids + shell_ids) if rng.random() < 0.04 else [])
        subs = [rng.choice(cand) for _ in range(rng.randint(0, 3))] if cand else []
        objs.append({"kind": "shell", "id": i, "tok": rng.randint(0, 5), "subs": sorted(set(subs))})
    for i in sm_ids:
        objs.append({"kind": "sm", "id": i, "tok": rng.randint(0, 5), "sem": gen_sem(rng, ids),
                     "qsems": [gen_sem(rng, ids) for _ in range(rng.choice([0, 0, 1]))],
                     "tree": [gen_elem(rng, rng.choice([0, 1, 2, 3]), hot, ids) for _ in range(rng.randint(0, 4))]})
    for i in cd_ids:
        objs.append({"kind": "cd", "id": i, "tok": rng.randint(0, 5)})
    rng.shuffle(objs)
    files = []
    for n in dict.fromkeys(hot + [rng.choice(ABSOLUTE + RELATIVE)]):
        if rng.random() < 0.75:
            files.append([n, rng.randrange(len(CONTENTS)), rng.choice([0, 1, 3, 4, 4, 5, 5, 6, 7, 8, 9, 10])])
    # writer calls
    calls = []
    json_ = rng.random() < 0.5
    r = rng.random()
    if r < 0.72:
        aas_ids = [i for i in shell_ids if rng.random() < 0.85] or shell_ids[:1]
        if rng.random() < 0.03:
            aas_ids = aas_ids + [rng.choice(absent + sm_ids + cd_ids)]
        calls.append(["aas", aas_ids, json_, rng.choice(ID_KINDS + (["single"] if len(aas_ids) == 1 else []))])
        if rng.random() < 0.2:
            pool = [p for p in PARTS if p not in ("/aasx/data.xml", "/aasx/data.json")]
            calls.append(["objs", rng.choice(pool), [rng.choice(ids) for _ in range(rng.randint(0, 4))],
                          rng.random() < 0.5, rng.random() < 0.15, rng.choice(ID_KINDS)])
    else:
        pool = list(PARTS)
        rng.shuffle(pool)
        chosen = pool[:rng.randint(1, 3)]
        if len(chosen) >= 2 and rng.random() < 0.7:
            # the objects spread over the parts: submodels of different parts then share the hot file names
            present = shell_ids + sm_ids + cd_ids
            rng.shuffle(present)
            for j, pn in enumerate(chosen):
                part_ids = present[j::len(chosen)] + ([rng.choice(ids)] if rng.random() < 0.3 else [])
                calls.append(["objs", pn, part_ids, rng.random() < 0.5, j > 0 and rng.random() < 0.35, rng.choice(ID_KINDS)])
        else:
            for pn in chosen:
                calls.append(["objs", pn, [rng.choice(ids) for _ in range(rng.randint(0, 6))],
                              rng.random() < 0.5, rng.random() < 0.1, rng.choice(ID_KINDS)])
    # a split part is referenced from another part by an aas-spec-split relationship (mostly)
    for c in calls:
        if c[0] == "objs":
            while len(c) < 7:
                c.append([] if len(c) == 6 else "list")
    for c in calls:
        if c[0] == "objs" and c[4]:
            parents = [p for p in calls if p[0] == "objs" and not p[4]]
            if parents and rng.random() < 0.85:
                rng.choice(parents)[6].append(c[1])
    if rng.random() < 0.5:
        calls.insert(rng.randint(0, len(calls)), ["core", rng.randrange(3)])
        if rng.random() < 0.03:
            calls.append(["core", rng.randrange(3)])
    if thumb is not None:
        calls.insert(0 if thumb_file and rng.random() < 0.5 else rng.randint(0, len(calls)), thumb)
    if thumb_file:
        # the file store holds a file under the thumbnail's part name: mostly the same bytes, another content type
        files = [f for f in files if f[0] != thumb[1]]
        files.append([thumb[1], thumb[2] if rng.random() < 0.75 else rng.randrange(len(CONTENTS)),
                      rng.choice([t for t in (0, 3, 4, 5, 9, 10) if t != thumb[3]])])
    # receiving side
    s0 = []
    if rng.random() < 0.55:
        for o in objs:
            if rng.random() < 0.4:
                o2 = copy.deepcopy(o)
                o2["tok"] = 6 + rng.randint(0, 3)
                if o2["kind"] == "sm" and rng.random() < 0.5:
                    o2["tree"] = [gen_elem(rng, 1, hot, ids) for _ in range(rng.randint(0, 2))]
                if rng.random() < 0.15:
                    o2["kind"], o2["subs"] = "shell", []
                    o2.pop("tree", None)
                s0.append(o2)
        for i in absent[:rng.randint(0, 2)]:
            s0.append({"kind": "cd", "id": i, "tok": 9})
    f0 = []
    if rng.random() < 0.6:
        names = [n for n, _, _ in files] + hot + ["/aasx/a.pdf", "/aasx/files/a.pdf", "/a_0001.pdf", "/zz"]
        for _ in range(rng.randint(1, 4)):
            n = rng.choice(names)
            if n.startswith("/") or rng.random() < 0.3:
                f0.append([n, rng.randrange(len(CONTENTS)), rng.choice([0, 1, 3, 4, 5, 6, 8])])
        # the receiver already holds a file of the package: same name (as resolved in the package), same bytes,
        # and the same content type, or one that differs only in parameters / letter case, or another one
        for n, c, t in files:
            if rng.random() < 0.35:
                rp = resolve(n, "/aasx/data.xml") if is_local(n) else None
                if rp:
                    r = rng.random()
                    t2 = t if r < 0.25 else rng.choice(CTYPE_VARIANTS[t]) if t in CTYPE_VARIANTS and r < 0.85 \
                        else rng.choice([0, 1, 5])
                    f0.append([rp, c if rng.random() < 0.85 else rng.randrange(len(CONTENTS)), t2])
    # the same reader is used again: a second read_into() into another (empty, equal or different) receiver
    r = rng.random()
    s0b = [] if r < 0.4 else copy.deepcopy(s0) if r < 0.8 else [o for o in copy.deepcopy(s0) if rng.random() < 0.5]
    r = rng.random()
    f0b = [] if r < 0.45 else copy.deepcopy(f0) if r < 0.75 else \
        [[n, rng.randrange(len(CONTENTS)), t] for n, _, t in f0]
    override = rng.random() < 0.5
    # a part with split parts whose own objects are all in the receiving store already (nothing new in the parent,
    # overriding off): its split parts must still be read
    parents = [c for c in calls if c[0] == "objs" and not c[4] and len(c) > 6 and c[6]]
    if parents and rng.random() < 0.6:
        pids = set(rng.choice(parents)[2])
        s0 = [dict(copy.deepcopy(o), tok=6 + rng.randint(0, 3)) for o in objs if o["id"] in pids]
        override = False
    return {"objs": objs, "files": files, "calls": calls, "S0": s0, "F0": f0, "override": override,
            "S0b": s0b, "F0b": f0b}


# ------------------------------------------------------------------ SDK objects

def sid(i):
    return f"i{i}"


def mk_ref(model, s):
    if s is None:
        return None
    if s[0]:
        return model.ModelReference((model.Key(model.KeyTypes.CONCEPT_DESCRIPTION, sid(s[1])),),
                                    model.ConceptDescription)
    if s[1] % 2:
        return model.ExternalReference((model.Key(model.KeyTypes.GLOBAL_REFERENCE, sid(s[1])),))
    return model.ModelReference((model.Key(model.KeyTypes.SUBMODEL, sid(s[1])),), model.Submodel)


def mk_quals(model, qsems):
    return [model.Qualifier(f"q{k}", model.datatypes.String, semantic_id=mk_ref(model, q))
            for k, q in enumerate(qsems)]


def mk_elem(model, e, idx, in_list=False):
    ids = None if in_list else f"e{idx}"
    kw = dict(semantic_id=mk_ref(model, e["sem"]), qualifier=mk_quals(model, e["qsems"]))
    k = e["k"]
    if k == "file":
        return model.File(ids, "application/octet-stream", value=e["v"], **kw)
    if k == "prop":
        return model.Property(ids, model.datatypes.String, "x", **kw)
    if k == "coll":
        return model.SubmodelElementCollection(ids, [mk_elem(model, c, j) for j, c in enumerate(e["ch"])], **kw)
    if k == "list":
        t = {"file": model.File, "coll": model.SubmodelElementCollection, "data": model.DataElement,
             "sme": model.SubmodelElement}[e["of"]]
        return model.SubmodelElementList(ids, t, [mk_elem(model, c, j, True) for j, c in enumerate(e["ch"])], **kw)
    if k == "ent":
        return model.Entity(ids, model.EntityType.CO_MANAGED_ENTITY,
                            [mk_elem(model, c, j) for j, c in enumerate(e["ch"])], **kw)
    if k == "op":
        return model.Operation(ids, [mk_elem(model, c, j) for j, c in enumerate(e["in"])],
                               [mk_elem(model, c, 10 + j) for j, c in enumerate(e["out"])],
                               [mk_elem(model, c, 20 + j) for j, c in enumerate(e["io"])], **kw)
    if k == "are":
        r = model.ModelReference((model.Key(model.KeyTypes.SUBMODEL, "x"),), model.Submodel)
        return model.AnnotatedRelationshipElement(ids, r, r, annotation=[mk_elem(model, c, j) for j, c in enumerate(e["ch"])], **kw)
    raise ValueError(k)


def mk_obj(model, o):
    if o["kind"] == "shell":
        return model.AssetAdministrationShell(
            model.AssetInformation(global_asset_id="g"), sid(o["id"]), id_short=f"t{o['tok']}",
            submodel={model.ModelReference((model.Key(model.KeyTypes.SUBMODEL, sid(i)),), model.Submodel)
                      for i in o["subs"]})
    if o["kind"] == "cd":
        return model.ConceptDescription(sid(o["id"]), id_short=f"t{o['tok']}")
    return model.Submodel(sid(o["id"]), [mk_elem(model, e, j) for j, e in enumerate(o["tree"])],
                          id_short=f"t{o['tok']}", semantic_id=mk_ref(model, o["sem"]),
                          qualifier=mk_quals(model, o["qsems"]))


def mk_store(model, specs):
    st = model.DictObjectStore()
    for o in specs:
        if sid(o["id"]) not in st:
            st.add(mk_obj(model, o))
    return st


def mk_files(fspecs):
    from basyx.aas.adapter import aasx
    fs = aasx.DictSupplementaryFileContainer()
    for n, c, t in fspecs:
        fs.add_file(n, io.BytesIO(CONTENTS[c]), CTYPES[t])
    return fs


# ------------------------------------------------------------------ flattening SDK objects -> model terms

def sref_of(model, ref):
    cd = isinstance(ref, model.ModelReference) and ref.type is model.ConceptDescription
    return f"mk_sref {'true' if cd else 'false'} {int(ref.key[0].value[1:]) if ref.key[0].value[1:].isdigit() else 0}%nat"


def sems_of(model, el):
    res = []
    if getattr(el, "semantic_id", None) is not None:
        res.append(sref_of(model, el.semantic_id))
    for q in el.qualifier:
        if q.semantic_id is not None:
            res.append(sref_of(model, q.semantic_id))
    return res


def flatten(model, el, path, out):
    """document (pre-)order; path = kinds of the containers above the element"""
    if isinstance(el, model.File):
        f = "Some None" if el.value is None else f"Some (Some {coq_str(el.value)})"
    else:
        f = "None"
    out.append(f"mk_node {coq_list(path)} ({f}) {coq_list(sems_of(model, el))} 0%nat")
    if isinstance(el, model.SubmodelElementCollection):
        for c in el.value:
            flatten(model, c, path + ["CColl"], out)
    elif isinstance(el, model.SubmodelElementList):
        for c in el.value:
            flatten(model, c, path + ["CList"], out)
    elif isinstance(el, model.Entity):
        for c in el.statement:
            flatten(model, c, path + ["CEntity"], out)
    elif isinstance(el, model.Operation):
        for c in el.input_variable:
            flatten(model, c, path + ["COpIn"], out)
        for c in el.output_variable:
            flatten(model, c, path + ["COpOut"], out)
        for c in el.in_output_variable:
            flatten(model, c, path + ["COpInOut"], out)
    elif isinstance(el, model.AnnotatedRelationshipElement):
        for c in el.annotation:
            flatten(model, c, path + ["CAnnot"], out)


def tok_of(o):
    m = re.fullmatch(r"t(\d+)", o.id_short or "")
    return int(m.group(1)) if m else 99


def coq_obj(model, o):
    i = int(o.id[1:])
    if isinstance(o, model.AssetAdministrationShell):
        # the writer iterates the set aas.submodel; the model gets the references in that order
        subs = [f"{int(r.key[0].value[1:])}%nat" for r in o.submodel]
        return f"Shell {i}%nat {tok_of(o)}%nat {coq_list(subs)}"
    if isinstance(o, model.ConceptDescription):
        return f"CD {i}%nat {tok_of(o)}%nat"
    nodes = []
    for e in o.submodel_element:
        flatten(model, e, [], nodes)
    return f"Subm {i}%nat {tok_of(o)}%nat {coq_list(sems_of(model, o))} {coq_list(nodes)}"


def make_ids(ids, kind):
    """the ids as the kind of Iterable asked for, and the order in which it yields them"""
    strs = [sid(i) for i in ids]
    if kind == "single" and len(strs) == 1:
        return strs[0], list(ids)
    if kind == "tuple":
        return tuple(strs), list(ids)
    if kind == "set":
        s = set(strs)
        return s, [int(x[1:]) for x in s]
    if kind == "dictkeys":
        d = dict.fromkeys(strs)
        return d.keys(), [int(x[1:]) for x in d]
    if kind == "generator":
        return (x for x in strs), list(ids)
    if kind == "iter":
        return iter(strs), list(ids)
    return strs, list(ids)


def coq_call(c):
    b = lambda x: "true" if x else "false"
    ids = lambda l: coq_list(f"{i}%nat" for i in l)
    if c[0] == "aas":
        return f"WAas {ids(c[1])} {b(c[2])}"
    if c[0] == "objs":
        return (f"WObjs {coq_str(c[1])} {ids(c[2])} {b(c[3])} {b(c[4])} "
                + coq_list(coq_str(t) for t in (c[6] if len(c) > 6 else [])))
    if c[0] == "core":
        return f"WCore {c[1]}%nat"
    return f"WThumb {coq_str(c[1])} {c[2]}%nat {c[3]}%nat"


def coq_fops(fspecs):
    return coq_list(f"Add {coq_str(n)} {c}%nat {t}%nat" for n, c, t in fspecs)


# ------------------------------------------------------------------ running the SDK

def errcode(e):
    return ERR.get(type(e).__name__, 7)


def file_rows(fs):
    rows = []
    for n in fs:
        b = io.BytesIO()
        fs.write_file(n, b)
        c = CONTENTS.index(b.getvalue()) if b.getvalue() in CONTENTS else 99
        ct = fs.get_content_type(n)
        rows.append([32] + enc_str(n) + [-1, c, CTYPES.index(ct) if ct in CTYPES else 99])
    return rows


def obj_row(model, o):
    i = int(o.id[1:])
    if isinstance(o, model.AssetAdministrationShell):
        return [31, i, 0, tok_of(o)]
    if isinstance(o, model.ConceptDescription):
        return [31, i, 2, tok_of(o)]
    row = [31, i, 1, tok_of(o)]

    def go(el):
        if isinstance(el, model.File):
            row.extend([1] if el.value is None else [2] + enc_str(el.value) + [-1])
        else:
            row.append(0)
        for attr in ("value", "statement", "input_variable", "output_variable", "in_output_variable", "annotation"):
            if isinstance(el, (model.SubmodelElementCollection, model.SubmodelElementList)) and attr != "value":
                continue
            if not isinstance(el, (model.SubmodelElementCollection, model.SubmodelElementList)) and attr == "value":
                continue
            ch = getattr(el, attr, None)
            if ch is not None and not isinstance(ch, (str, bytes)):
                for c in ch:
                    go(c)
    for e in o.submodel_element:
        go(e)
    return row


def run_sdk(case):
    """Writes and reads the package with the SDK.  Returns dict with everything the observation and the
    oracle need."""
    from basyx.aas import model
    from basyx.aas.adapter import aasx
    logging.disable(logging.CRITICAL)
    S = mk_store(model, case["objs"])
    F = mk_files(case["files"])
    Sw = mk_store(model, case["objs"])          # the writer gets copies; S and F stay untouched for the oracle
    Fw = mk_files(case["files"])
    S0 = mk_store(model, case["S0"])
    F0 = mk_files(case["F0"])
    res = {"model": model, "S": S, "F": F, "S0": S0, "F0": F0, "S0_objs": {o.id: o for o in S0}}
    res["terms"] = (coq_list(coq_obj(model, o) for o in Sw), coq_list(coq_obj(model, o) for o in S0))
    res["F0_before"] = {n: (content_of(F0, n), F0.get_content_type(n)) for n in F0}
    S0b = mk_store(model, case.get("S0b", []))
    F0b = mk_files(case.get("F0b", []))
    second = {"S0": S0b, "F0": F0b, "S0_objs": {o.id: o for o in S0b},
              "F0_before": {n: (content_of(F0b, n), F0b.get_content_type(n)) for n in F0b},
              "term": coq_list(coq_obj(model, o) for o in S0b)}
    res["second"] = second
    res["repeat"] = {"thumb": [], "core": []}
    obs = []
    buf = io.BytesIO()
    werr = None
    eff = [list(c) for c in case["calls"]]      # the calls with the ids in the order the iterables yield them
    res["calls_eff"] = eff
    with warnings.catch_warnings(record=True) as wlist:
        warnings.simplefilter("always")
        try:
            w = aasx.AASXWriter(buf)
            try:
                for k, c in enumerate(case["calls"]):
                    if c[0] == "aas":
                        it, order = make_ids(c[1], c[3] if len(c) > 3 else "list")
                        eff[k] = ["aas", order] + list(c[2:])
                        w.write_aas(it, Sw, Fw, write_json=c[2])
                    elif c[0] == "objs":
                        it, order = make_ids(c[2], c[5] if len(c) > 5 else "list")
                        eff[k] = ["objs", c[1], order] + list(c[3:])
                        import pyecma376_2 as _p
                        rels = [_p.OPCRelationship(f"s{j}", aasx.RELATIONSHIP_TYPE_AAS_SPEC_SPLIT, t, _p.OPCTargetMode.INTERNAL)
                                for j, t in enumerate(c[6] if len(c) > 6 else [])]
                        w.write_aas_objects(c[1], it, Sw, Fw, write_json=c[3], split_part=c[4],
                                            additional_relationships=rels)
                    elif c[0] == "core":
                        # what is handed over counts: the caller's object is changed right after the call
                        cp_arg = copy.copy(cores()[c[1]])
                        w.write_core_properties(cp_arg)
                        cp_arg.creator, cp_arg.title, cp_arg.created = "changed after the call", "changed", None
                    else:
                        th_arg = bytearray(CONTENTS[c[2]])
                        w.write_thumbnail(c[1], th_arg, CTYPES[c[3]])
                        th_arg[:] = b"changed after the call"
                # ... and so are the object store and the file container, before the writer is closed
                for o in Sw:
                    o.id_short = "changedAfterTheCall"
                for n in list(Fw):
                    Fw.delete_file(n)
            except Exception as e:
                werr = e
                try:
                    w.writer.close()
                except Exception:
                    pass
            else:
                w.close()
        except Exception as e:  # close() itself
            werr = werr or e
    res["zip_warnings"] = [str(x.message) for x in wlist]
    res["werr"] = werr
    if werr is not None:
        res["obs"] = [[1, errcode(werr)]]
        return res
    obs.append([0])
    buf.seek(0)
    rerr = None
    try:
        with aasx.AASXReader(buf) as r:
            core_rels = r.reader.get_related_parts_by_type()
            origin = core_rels[aasx.RELATIONSHIP_TYPE_AASX_ORIGIN]
            if not origin:
                obs.append([20, -2])
            else:
                for pn in r.reader.get_related_parts_by_type(origin[0])[aasx.RELATIONSHIP_TYPE_AAS_SPEC]:
                    row = [20] + enc_str(pn) + [-1]
                    for t in r.reader.get_related_parts_by_type(pn)[aasx.RELATIONSHIP_TYPE_AAS_SUPL]:
                        row += enc_str(t) + [-1]
                    obs.append(row)
            def meta():
                """get_core_properties() and get_thumbnail(): every call must answer like the first one"""
                cp_, th_ = r.get_core_properties(), r.get_thumbnail()
                res["repeat"]["core"].append(cp_)
                res["repeat"]["thumb"].append(th_)
                return cp_, th_
            has_core = bool(core_rels[__import__("pyecma376_2").RELATIONSHIP_TYPE_CORE_PROPERTIES])

            def meta_rows(cp_, th_):
                return [[33, 1, core_index(cp_)] if has_core else [33, 0],
                        [34, 0] if th_ is None else [34, 1, CONTENTS.index(th_) if th_ in CONTENTS else 99]]
            cp, th = meta()
            meta()                                             # twice before reading
            res["core"], res["thumb"] = cp, th
            prefix = list(obs)
            obs.extend(meta_rows(cp, th))
            try:
                ids = r.read_into(S0, F0, override_existing=case["override"])
                res["ids"] = ids
            except Exception as e:
                rerr = e
            meta()                                             # after the first read
            # the same reader again, into the second receiver
            try:
                second["ids"] = r.read_into(second["S0"], second["F0"], override_existing=case["override"])
                second["rerr"] = None
            except Exception as e:
                second["rerr"] = e
            second["core"], second["thumb"] = meta()           # and after the second read
            obs2 = prefix + meta_rows(second["core"], second["thumb"])
            if second["rerr"] is not None:
                obs2.append([1, errcode(second["rerr"])])
            else:
                obs2.append([0])
                obs2.append([30] + sorted(int(i[1:]) for i in second["ids"]))
                obs2.extend(obj_row(model, o) for o in second["S0"])
                obs2.extend(file_rows(second["F0"]))
            second["obs"] = obs2
    except Exception as e:
        res["open_err"] = e
        res["obs"] = obs + [[98]]
        return res
    res["rerr"] = rerr
    if rerr is not None:
        obs.append([1, errcode(rerr)])
    else:
        obs.append([0])
        obs.append([30] + sorted(int(i[1:]) for i in ids))
        obs.extend(obj_row(model, o) for o in S0)
        obs.extend(file_rows(F0))
    res["obs"] = obs
    return res


def content_of(fs, n):
    b = io.BytesIO()
    fs.write_file(n, b)
    return b.getvalue()


# ------------------------------------------------------------------ oracle (independent of the model)

def is_local(v):
    return not (v.startswith("//") or ":" in v.split("/")[0])


def resolve(v, part):
    """RFC 3986 relative-path resolution of a File value against the part holding it; None above root"""
    if v.startswith("/"):
        return v
    segs = part.split("/")[:-1]
    for s in v.split("/"):
        if s in (".", ""):
            continue
        if s == "..":
            if not segs:
                return None
            segs.pop()
        else:
            segs.append(s)
    return "/".join(segs)


PART_NAME = re.compile(r"^(/[A-Za-z0-9\-\._~%:@!$&'()*+,;= ]*[A-Za-z0-9\-_~%:@!$&'()*+,;= ])+$")


def legal_part(n):
    return bool(PART_NAME.match(n)) and not re.search("%5c|%2f", n, re.I)


def jdoc(o):
    from basyx.aas.adapter.json import AASToJsonEncoder
    d = json.loads(json.dumps(o, cls=AASToJsonEncoder))
    if "submodels" in d:   # a Python set of references: the order carries no information
        d["submodels"].sort(key=json.dumps)
    return d


def file_nodes(doc, path=()):
    """all File elements of a JSON rendering with their path, at any depth"""
    res = []
    if isinstance(doc, dict):
        if doc.get("modelType") == "File":
            res.append((path, doc))
        for k, v in doc.items():
            res.extend(file_nodes(v, path + (k,)))
    elif isinstance(doc, list):
        for k, v in enumerate(doc):
            res.extend(file_nodes(v, path + (k,)))
    return res


def sem_refs(doc):
    """all semanticId values of a JSON rendering at any depth (own, qualifiers')"""
    res = []
    if isinstance(doc, dict):
        if "semanticId" in doc:
            res.append(doc["semanticId"])
        for k, v in doc.items():
            if k != "semanticId":
                res.extend(sem_refs(v))
    elif isinstance(doc, list):
        for v in doc:
            res.extend(sem_refs(v))
    return res


def expected_parts(case, res):
    """[(part name, {id: original object})] of the parts a reader will visit, by the statement's reading of
    write_aas: shells, the submodels their references resolve to, the concept descriptions the semantic ids
    of those resolve to.  None if the calls are outside the property's domain (documented errors)."""
    model, S = res["model"], res["S"]
    byid = {o.id: o for o in S}
    parts = []
    for c in case["calls"]:
        if c[0] == "aas":
            objs = {}
            for i in c[1]:
                a = byid.get(sid(i))
                if not isinstance(a, model.AssetAdministrationShell):
                    return None, "aas id missing or not a shell"
                objs[a.id] = a
                for ref in jdoc(a).get("submodels", []):
                    t = byid.get(ref["keys"][0]["value"])
                    if t is None:
                        continue
                    if not isinstance(t, model.Submodel):
                        return None, "submodel reference to another kind of object"
                    objs[t.id] = t
            for o in list(objs.values()):
                for ref in sem_refs(jdoc(o)):
                    if ref["type"] == "ModelReference" and ref["keys"][-1]["type"] == "ConceptDescription":
                        t = byid.get(ref["keys"][0]["value"])
                        if isinstance(t, model.ConceptDescription):
                            objs[t.id] = t
            parts.append(("/aasx/data.json" if c[2] else "/aasx/data.xml", objs, False))
        elif c[0] == "objs":
            objs = {sid(i): byid[sid(i)] for i in c[2] if sid(i) in byid}
            parts.append((c[1], objs, c[4]))
    # a split part is read right after the part that names it in an aas-spec-split relationship
    byname = {pn: (pn, objs, split) for pn, objs, split in parts}
    ordered, placed = [], set()
    for c in case["calls"]:
        if c[0] == "aas" or (c[0] == "objs" and not c[4]):
            pn = ("/aasx/data.json" if c[2] else "/aasx/data.xml") if c[0] == "aas" else c[1]
            ordered.append(byname[pn])
            for t in (c[6] if c[0] == "objs" and len(c) > 6 else []):
                if t in byname:
                    ordered.append((t, byname[t][1], False))       # reached through the relationship: it is read
                    placed.add(t)
    ordered += [p for p in parts if p[2] and p[0] not in placed]    # written, never referenced: not read
    return ordered, None


def oracle(case, res):
    """Returns a list of (signature, message).  Empty = the property's statement holds on this case."""
    model = res["model"]
    fails = []
    parts, outside = expected_parts(case, res)
    F = res["F"]
    ncore = sum(1 for c in case["calls"] if c[0] == "core")
    nthumb = sum(1 for c in case["calls"] if c[0] == "thumb")
    bad_thumb = any(c[0] == "thumb" and not legal_part(c[1]) for c in case["calls"])
    # which stored files are referenced, under which part name
    illegal = above = False
    if parts is not None:
        for pn, objs, _ in parts:
            for o in objs.values():
                if isinstance(o, model.Submodel):
                    for _, f in file_nodes(jdoc(o)):
                        v = f.get("value")
                        if v is not None and is_local(v):
                            rp = resolve(v, pn)
                            if rp is None:
                                above = True
                            elif v in F and not legal_part(rp):
                                illegal = True
    werr = res["werr"]
    if werr is not None:
        n = type(werr).__name__
        ok = ((n in ("KeyError", "TypeError", "UnexpectedTypeError") and parts is None)
              or (n == "RuntimeError" and (ncore > 1 or nthumb > 1))
              or (n == "ValueError" and (illegal or bad_thumb))
              or (n in ("IndexError", "ValueError") and above))
        if not ok:
            fails.append((f"C08:write:{n}", f"writing raised {n}: {werr}"))
        return fails
    if parts is None:
        return fails   # write_aas accepted ids the statement does not speak about; nothing to check
    if "open_err" in res:
        return [("C08:reopen", f"the written package cannot be opened/inspected: {res['open_err']!r}")]
    rerr = res["rerr"]
    if rerr is not None:
        n = type(rerr).__name__
        if n == "IndexError" and above:
            return [("C08:read:IndexError:path-above-root", f"read_into raised IndexError: {rerr}")]
        return [(f"C08:read:{n}", f"read_into raised {n}: {rerr}")]
    S1, F1 = res["S0"], res["F0"]
    s0 = res["S0_objs"]
    after = {o.id: o for o in S1}
    # core properties and thumbnail
    want_core = [c for c in case["calls"] if c[0] == "core"]
    if want_core and vars(res["core"]) != vars(cores()[want_core[0][1]]):
        fails.append(("C08:core-properties", "core properties differ after the round trip"))
    if not want_core and vars(res["core"]) != vars(cores()[0]):
        fails.append(("C08:core-properties", "core properties appeared from nowhere"))
    want_th = [c for c in case["calls"] if c[0] == "thumb"]
    if (CONTENTS[want_th[0][2]] if want_th else None) != res["thumb"]:
        # known: a stored file with other bytes written under the thumbnail's part name after the thumbnail
        over = False
        if want_th:
            ti = next(k for k, c in enumerate(case["calls"]) if c[0] == "thumb")
            for k, c in enumerate(case["calls"]):
                if c[0] in ("aas", "objs") and k > ti:
                    for pn, objs, _ in parts:
                        for o in objs.values():
                            if isinstance(o, model.Submodel):
                                for _, f in file_nodes(jdoc(o)):
                                    v = f.get("value")
                                    if v is not None and is_local(v) and v in F and resolve(v, pn) \
                                            and resolve(v, pn).lower() == want_th[0][1].lower() \
                                            and content_of(F, v) != CONTENTS[want_th[0][2]]:
                                        over = True
        fails.append(("C08:thumbnail:part-overwritten-by-file" if over else "C08:thumbnail",
                      "thumbnail differs after the round trip"))
    # receiving container keeps what it had
    for n, (b, ct) in res["F0_before"].items():
        if n not in F1 or content_of(F1, n) != b or F1.get_content_type(n) != ct:
            fails.append(("C08:container-prepopulated-file-changed", f"file {n!r} of the receiving container changed"))
    # receiving store keeps objects the package does not bring
    visited = {}
    for pn, objs, split in parts:
        if not split:
            for i, o in objs.items():
                visited.setdefault(i, (pn, o))
    for i, o in s0.items():
        if i not in visited and after.get(i) is not o:
            fails.append(("C08:store-unrelated-object-changed", f"object {i} of the receiving store changed"))
    if set(res["ids"]) != {i for i in visited if i not in s0 or case["override"]}:
        fails.append(("C08:returned-ids", f"read_into returned {sorted(res['ids'])}"))
    # names of stored files that collide after normalisation (known defect class)
    stored_refs = {}
    # every part the writer produced counts (also split parts and second copies of an object): a relative value
    # resolves differently per part and all supplementary files share one package
    for pn, o in [(pn, o) for pn, objs, _ in parts for o in objs.values()]:
        if isinstance(o, model.Submodel):
            for _, f in file_nodes(jdoc(o)):
                v = f.get("value")
                if v is not None and is_local(v) and v in F and resolve(v, pn):
                    stored_refs.setdefault(resolve(v, pn).lower(), set()).add(
                        (resolve(v, pn), content_of(F, v), F.get_content_type(v)))
    for i, (pn, o) in visited.items():
        if i in s0 and not case["override"]:
            if after.get(i) is not s0[i]:
                fails.append(("C08:existing-not-kept", f"object {i} was replaced although override_existing=False"))
            continue
        n = after.get(i)
        if n is None:
            fails.append(("C08:object-missing", f"object {i} ({type(o).__name__}) was not read back"))
            continue
        if i in s0 and n is s0[i]:
            fails.append(("C08:existing-not-replaced", f"object {i} was not replaced although override_existing=True"))
            continue
        d0, d1 = jdoc(o), jdoc(n)
        f0, f1 = file_nodes(d0), file_nodes(d1)
        if [p for p, _ in f0] != [p for p, _ in f1]:
            fails.append(("C08:object-differs", f"object {i}: File elements moved"))
            continue
        for (p, a), (_, b) in zip(f0, f1):
            v, v1 = a.get("value"), b.get("value")
            a["value"] = b["value"] = "*"
            pos = "/".join(str(x) for x in p if isinstance(x, str))
            if v is not None and is_local(v) and v in F:
                want = (content_of(F, v), F.get_content_type(v))
                got = (content_of(F1, v1), F1.get_content_type(v1)) if v1 is not None and v1 in F1 else None
                if got != want:
                    rp = resolve(v, pn)
                    same = {x for x in stored_refs.get(rp.lower(), ()) if x[0] == rp} if rp is not None else ()
                    coll = rp is not None and len(stored_refs.get(rp.lower(), ())) > 1
                    # the File names the thumbnail's own part: the package holds one part of that name, so whichever
                    # is written later wins (known); with the same bytes and the thumbnail written first the File
                    # must still come back with its own content type
                    tcase = None
                    if want_th and rp is not None and rp.lower() == want_th[0][1].lower():
                        ti = next(k for k, c in enumerate(case["calls"]) if c[0] == "thumb")
                        wi = min(k for k, c in enumerate(case["calls"]) if c[0] in ("aas", "objs"))
                        if want[0] != CONTENTS[want_th[0][2]]:
                            tcase = "different-bytes"
                        elif ti > wi:
                            tcase = "thumbnail-written-later"
                    sig = ("C08:files:name-equals-thumbnail-part:" + tcase if tcase else
                           "C08:files:same-part-name-different-files" if len(same) > 1 else
                           "C08:files:names-equal-up-to-case" if coll else
                           "C08:files:not-extracted@" + ([x for x in p if isinstance(x, str)] or ["?"])[-1])
                    fails.append((sig, f"File {i}:{pos} named stored file {v!r}; after reading it names {v1!r} = "
                                       f"{'nothing' if got is None else 'other bytes/content type'} in the receiving container"))
            elif v1 != v and not (v1 is not None and v1 in F1):
                fails.append(("C08:files:value-changed", f"File {i}:{pos} value {v!r} became {v1!r}"))
        if d0 != d1:
            fails.append(("C08:object-differs", f"object {i} ({type(o).__name__}) differs after the round trip"))
    return fails


# ------------------------------------------------------------------ shrinking

def shrink_case(case, pred):
    """greedy structural shrinking; pred(case) -> True if the failure of interest persists"""
    cur = copy.deepcopy(case)

    def lists(c):
        yield c["objs"]
        yield c["files"]
        yield c["S0"]
        yield c["F0"]
        yield c.setdefault("S0b", [])
        yield c.setdefault("F0b", [])
        yield c["calls"]
        for o in c["objs"] + c["S0"]:
            if "tree" in o:
                stack = [o["tree"]]
                while stack:
                    l = stack.pop()
                    yield l
                    for e in l:
                        for k in ("ch", "in", "out", "io", "qsems"):
                            if k in e:
                                if k == "qsems":
                                    yield e[k]
                                else:
                                    stack.append(e[k])
            if "subs" in o:
                yield o["subs"]
        for call in c["calls"]:
            if call[0] in ("aas",):
                yield call[1]
            if call[0] == "objs":
                yield call[2]
    changed = True
    budget = 400
    while changed and budget > 0:
        changed = False
        k = 0
        while True:
            ls = list(lists(cur))
            if k >= len(ls):
                break
            l = ls[k]
            j = 0
            while j < len(l) and budget > 0:
                x = l.pop(j)
                budget -= 1
                ok = False
                try:
                    ok = pred(cur)
                except Exception:
                    ok = False
                if ok:
                    changed = True
                else:
                    l.insert(j, x)
                    j += 1
            k += 1
    return cur


# the type of a case, spelled out: a shard whose cases all have empty stores / file lists would leave `[]` untypable
CASE_TYPE = ") : ostore * list op * list wcall * ostore * list op * bool * Z)"


def case_term(case, res):
    b = "true" if case["override"] else "false"
    return ("((" + ", ".join([res["terms"][0], coq_fops(case["files"]), coq_list(coq_call(c) for c in res["calls_eff"]),
                             res["terms"][1], coq_fops(case["F0"]), b,
                             coq_z(common.zhash_d(res["obs"], 2))]) + CASE_TYPE)


def case_terms(case, res):
    """one term per read_into(): the model reads the same package into the first and into the second receiver"""
    ts = [case_term(case, res)]
    sec = res.get("second")
    if sec is not None and "obs" in sec:
        b = "true" if case["override"] else "false"
        ts.append("((" + ", ".join([res["terms"][0], coq_fops(case["files"]),
                                   coq_list(coq_call(c) for c in res["calls_eff"]), sec["term"],
                                   coq_fops(case.get("F0b", [])), b, coq_z(common.zhash_d(sec["obs"], 2))]) + CASE_TYPE)
    return ts


def oracle_all(case, res):
    """the oracle on the first read, on the second read_into() of the same reader into the second receiver, and on
    the repeated get_core_properties() / get_thumbnail() calls"""
    fails = list(oracle(case, res))
    sec = res.get("second")
    if res["werr"] is None and "open_err" not in res and sec is not None and "obs" in sec:
        res2 = dict(res)
        res2.update({k: sec[k] for k in ("S0", "F0", "S0_objs", "F0_before", "rerr", "core", "thumb")})
        res2["ids"] = sec.get("ids")
        case2 = dict(case, S0=case.get("S0b", []), F0=case.get("F0b", []))
        for sig, msg in oracle(case2, res2):
            fails.append((sig, "second read_into() on the same reader: " + msg))
        ths, cps = res["repeat"]["thumb"], res["repeat"]["core"]
        if any(t != ths[0] for t in ths):
            fails.append(("C08:thumbnail:changes-between-calls",
                          f"get_thumbnail() answered {[None if t is None else len(t) for t in ths]} (None / length) on "
                          f"consecutive calls of one reader"))
        if any(vars(c) != vars(cps[0]) for c in cps):
            fails.append(("C08:core-properties:change-between-calls", "get_core_properties() answers differ between calls"))
    fails.extend(chain_check(case, res))
    return fails


def chain_check(case, res):
    """write -> read -> write -> read: the objects and files received by the first read are exported again with
    write_aas() and read into an empty store / container; every File element the first read pointed at an extracted
    file must still name a file with the same bytes and content type"""
    from basyx.aas.adapter import aasx
    model = res["model"]
    if res["werr"] is not None or "open_err" in res or res.get("rerr") is not None or not res.get("ids"):
        return []
    S, F, S1, F1 = res["S"], res["F"], res["S0"], res["F0"]
    shells = [o.id for o in S1 if isinstance(o, model.AssetAdministrationShell)]
    json_ = next((c[2] if c[0] == "aas" else c[3] for c in case["calls"] if c[0] in ("aas", "objs")), False)
    buf = io.BytesIO()
    try:
        with warnings.catch_warnings():
            warnings.simplefilter("ignore")
            with aasx.AASXWriter(buf) as w:
                w.write_aas(shells, S1, F1, write_json=json_)
        buf.seek(0)
        S2, F2 = model.DictObjectStore(), aasx.DictSupplementaryFileContainer()
        with aasx.AASXReader(buf) as r:
            r.read_into(S2, F2)
    except (ValueError, IndexError, TypeError, KeyError):
        return []        # names that cannot be packed / references of the wrong kind: judged by the first round trip
    s_by = {o.id: o for o in S}
    fails = []
    for i in sorted(res["ids"]):
        o0, o1, o2 = s_by.get(i), S1.get(i), S2.get(i)
        if not (isinstance(o0, model.Submodel) and isinstance(o1, model.Submodel) and isinstance(o2, model.Submodel)):
            continue
        n0, n1, n2 = file_nodes(jdoc(o0)), file_nodes(jdoc(o1)), file_nodes(jdoc(o2))
        if [p for p, _ in n0] != [p for p, _ in n1] or [p for p, _ in n1] != [p for p, _ in n2]:
            continue
        names1 = [b.get("value") for _, b in n1]
        for (p, a), (_, b), (_, c) in zip(n0, n1, n2):
            v0, v1, v2 = a.get("value"), b.get("value"), c.get("value")
            if v0 is None or not is_local(v0) or v0 not in F or v1 is None or v1 not in F1:
                continue       # not a file the first read extracted
            if is_local(v1) and (not legal_part(v1) or sum(1 for x in names1 if x and x.lower() == v1.lower()
                                                            and x != v1) > 0):
                continue       # known classes of the first round trip
            want = (content_of(F1, v1), F1.get_content_type(v1))
            got = (content_of(F2, v2), F2.get_content_type(v2)) if v2 is not None and v2 in F2 else None
            if got != want:
                fails.append(("C08:chain:file-lost-on-re-export",
                              f"File {i}:{'/'.join(str(x) for x in p if isinstance(x, str))}: the first read stored the file as "
                              f"{v1!r}; after exporting the received objects again and reading them it names {v2!r} = "
                              f"{'nothing' if got is None else 'other bytes/content type'}"))
                return fails
    return fails


PRELUDE = ("From Coq Require Import List ZArith String.\n"
           "From Basyx Require Import model.Files model.Aasx model.AasxObs.\nOpen Scope string_scope.")


def model_observation(case, res):
    b = "true" if case["override"] else "false"
    return common.coq_eval("C08", PRELUDE, f"observe {res['terms'][0]} (run {coq_fops(case['files'])}) "
                           f"{coq_list(coq_call(c) for c in res['calls_eff'])} {res['terms'][1]} "
                           f"(run {coq_fops(case['F0'])}) {b}")


def str_cases(rng, n):
    import pyecma376_2.package_model as pm
    alpha = "ab.A/ :%2fF5cC~_-?#"
    terms = []
    pool = sum(FORMS.values(), []) + PARTS + THUMBS
    for k in range(n):
        v = rng.choice(pool) if k % 3 == 0 else "".join(rng.choice(alpha) for _ in range(rng.randint(0, 9)))
        src = rng.choice(PARTS + ["/x", "a/b", "/a/b/c.d"])
        try:
            rp = [1] + enc_str(pm.part_realpath(v, src))
        except IndexError:
            rp = [0]
        try:
            pm.check_part_name(v)
            valid = 1
        except ValueError:
            valid = 0
        nonlocal_ = 1 if (v.startswith("//") or ":" in v.split("/")[0]) else 0
        exp = rp + [-1, nonlocal_, valid, -1] + enc_str(pm.normalize_part_name(v)) + [-1] + \
            enc_str(v.split("/")[-1].split(".")[-1])
        terms.append(f"({coq_str(v)}, {coq_str(src)}, {coq_list(coq_z(x) for x in exp)})")
    return terms


def classify(case):
    forms = set()

    def go(l):
        for e in l:
            if e["k"] == "file":
                v = e["v"]
                forms.add("none" if v is None else next((f for f, vs in FORMS.items() if v in vs), "other"))
            for k in ("ch", "in", "out", "io"):
                go(e.get(k, []))
    for o in case["objs"]:
        go(o.get("tree", []))
    return forms


def nesting(case):
    res = set()

    def go(l, where):
        for e in l:
            if e["k"] == "file":
                res.add(where)
            go(e.get("ch", []), e["k"] + ("<" + e["of"] + ">" if e["k"] == "list" else ""))
            go(e.get("in", []), "op-in")
            go(e.get("out", []), "op-out")
            go(e.get("io", []), "op-inout")
    for o in case["objs"]:
        go(o.get("tree", []), "top")
    return res


def run(chk):
    rng = chk.rng
    ncases = 400 if chk.tier == "quick" else 5000
    chk.theorems("props.C08", THEOREMS, ["theories/props/C08.vo", "theories/model/AasxObs.vo"])
    cases = []
    corpus = os.path.join(common.VERIF, "corpus", "C08")
    if os.path.isdir(corpus):
        for fn in sorted(os.listdir(corpus)):
            cases.append(json.load(open(os.path.join(corpus, fn)))["case"])
    ncorpus = len(cases)
    for _ in range(ncases):
        cases.append(gen_case(rng))
    terms = []
    owner = []       # index of the case a term belongs to
    reported = set()
    for k, case in enumerate(cases):
        res = run_sdk(case)
        fails = oracle_all(case, res)
        chk.seen(case, nontrivial=res["werr"] is None and res.get("rerr") is None and bool(res.get("ids")))
        chk.count("payload=" + "/".join(sorted({("json" if (c[2] if c[0] == "aas" else c[3]) else "xml")
                                                for c in case["calls"] if c[0] in ("aas", "objs")})))
        chk.count("write=" + ("ok" if res["werr"] is None else type(res["werr"]).__name__))
        if res["werr"] is None:
            chk.count("read=" + ("ok" if res.get("rerr") is None else type(res["rerr"]).__name__))
            chk.count(f"override={case['override']},S0={'empty' if not case['S0'] else 'populated'},"
                      f"F0={'empty' if not case['F0'] else 'populated'}")
        for f in classify(case):
            chk.count("file-form=" + f)
        for f in nesting(case):
            chk.count("file-at=" + f)
        chk.count("shells=%d" % sum(1 for o in case["objs"] if o["kind"] == "shell"))
        for c in case["calls"]:
            if c[0] in ("aas", "objs"):
                chk.count("ids-as=" + (c[3] if c[0] == "aas" and len(c) > 3 else c[5] if c[0] == "objs" and len(c) > 5 else "list"))
        fdict = {(resolve(n, "/aasx/data.xml") if is_local(n) else n): (c, t) for n, c, t in case["files"]}
        for n, c, t in case["F0"]:
            if n in fdict and fdict[n][0] == c:
                chk.count("receiver-holds-same-name-and-bytes:" + ("same-ctype" if fdict[n][1] == t else
                          "ctype-variant" if t in CTYPE_VARIANTS.get(fdict[n][1], ()) else "other-ctype"))
        for sig, msg in fails:
            if sig in reported:
                chk.fail(sig, msg, {"note": "further instance; see the first replay of this signature"})
                continue
            reported.add(sig)

            def still(c, sig=sig):
                return any(s == sig for s, _ in oracle_all(c, run_sdk(c)))
            small = shrink_case(case, still)
            msg2 = next(m for s, m in oracle_all(small, run_sdk(small)) if s == sig)
            chk.fail(sig, msg2, {"case": small, "how": "tools/c08.py: oracle(case, run_sdk(case))"})
        for t in case_terms(case, res):
            owner.append(k)
            terms.append(t)
        if len(chk.samples) < 3 and res["werr"] is None and res.get("ids") and case["F0"]:
            chk.samples.append({"case": case, "sdk_observation_rows": len(res["obs"])})
    sterms = str_cases(rng, 600 if chk.tier == "quick" else 6000)
    bad, errs = common.run_mismatch_shards("C08", PRELUDE, terms, "check_case", shard=40 if chk.tier == "quick" else 160)
    n1 = common.run_mismatch_shards.evaluated
    bad2, errs2 = common.run_mismatch_shards("C08s", PRELUDE, sterms, "check_str", shard=1000)
    chk.traces = n1 + common.run_mismatch_shards.evaluated - len(bad) - len(bad2)
    for e in errs + errs2:
        chk.tie_broken("correspondence-run", e)
    if bad:
        case = cases[owner[bad[0]]]

        def differs(c):
            r = run_sdk(c)
            b, e = common.run_mismatch_shards("C08m", PRELUDE, case_terms(c, r), "check_case")
            return bool(b) and not e
        small = shrink_case(case, differs) if len(bad) < 50 else case
        r = run_sdk(small)
        chk.tie_broken("correspondence", {"n_disagreements": len(bad), "case": small, "sdk_observation": r["obs"],
                                          "model_observation": model_observation(small, r)})
        # search: does the oracle fail on the disagreeing cases (already run above) - they are reported there
    if bad2:
        chk.tie_broken("correspondence-strings", {"n": len(bad2), "first": sterms[bad2[0]]})
    chk.cov["corpus_cases"] = ncorpus
    chk.trusted = [
        "Coq 8.16.1 kernel (coqc, vm_compute for the Examples and the correspondence; no native_compute)",
        "hand-written model coq/theories/model/Aasx.v (+ Files.v), tied to aasx.py / traversal.py by this correspondence run",
        "premise of the theorems: JSON/XML payload codec decode(encode l) = l sorted by kind (properties C03/C04)",
        "premise of the theorems: pyecma376_2 returns the parts/content types/relationships written, for part names "
        "that are pairwise different after normalisation (the reference semantics ref_opc satisfies it; proved)",
        "SHA-256 injective on the contents used (as C19)",
        "submodel elements are modelled as the flat document-order list produced by tools/c08.py:flatten",
        "tools/c08.py (generator, SDK driver, canonicaliser, oracle), tools/common.py",
    ]
    chk.assumptions = ["decode(encode objs) = objs (by kind)", "OPC container faithful for distinct normalised part names",
                       "sha256 collision freedom", "one file container per writer session",
                       "file names do not collide with the package's own part names"]
    return chk.finish(level="proof",
                      rule="seeded random packages: 1-3 shells, 0-4 submodels (elements nested <= 3 deep in collections, "
                           "lists, entities, operations, annotated relationships), 0-3 concept descriptions, unresolved "
                           "and wrongly typed references, File values of every path form sharing a small hot name pool "
                           "with the file containers (content types incl. parameter / letter-case variants of one media type; receiver "
                           "pre-populated with the package's own names and bytes under the same, a variant or another "
                           "content type), write_aas and/or write_aas_objects sessions (ids passed as list, tuple, set, "
                           "dict view, generator, iterator or a single Identifier) with core properties "
                           "and thumbnail, empty or pre-populated receiving store/container, override on/off; every reader is used "
                           "again: get_core_properties()/get_thumbnail() twice before and once after each read, a second "
                           "read_into() into another receiver (empty, equal or different); the caller's core-properties object, "
                           "thumbnail bytes, object store and file container are changed after the writer calls and before "
                           "close(); split parts with aas-spec-split relationships; the received objects and files are "
                           "exported and read once more (write-read-write-read); "
                           "non-trivial = written, read back and at least one object read; distinct by the whole case")


def replay(path):
    r = json.load(open(path))
    rp = r.get("replay") or {}
    case = rp.get("case") or r.get("case")
    if case:
        res = run_sdk(case)
        fails = oracle_all(case, res)
        print("write:", repr(res["werr"]), "read:", repr(res.get("rerr")))
        for f in fails:
            print("oracle:", f)
        return 1 if fails else 0
    print(json.dumps(r, indent=1)[:3000])
    return 1
