"""C20 - Compliance checks always deliver a verdict, and the verdict tracks the data.

Tie T: tools/py2coq/compliance.py regenerates coq/theories/gen/Gen_Compliance.v (try/except structure of the three
       compliance_check_* modules; attributes compared by AASDataChecker) from common.REPO on every run; the
       theorems of props/C20.v are re-checked against it.  The translator's output is validated by running the
       originals: exception subclass table vs issubclass, the compared-attribute table vs single-leaf mutations.
Tie C: the state manager model vs ComplianceToolStateManager on random operation sequences; every exception
       that leaves a check function on the generated inputs must be in the model's escape set.
Oracle: the check functions on temporary files - never raise, report non-empty, overall status = worst step
       status, SDK-written files pass schema + deserialisation checks, equal data in another order compare as
       equal, single-attribute mutations compare as different.
"""
import copy
import io
import json
import logging
import os
import re
import shutil
import tempfile
import zipfile

import common
from common import coq_list, coq_z

THEOREMS = ["C20_status", "C20_caught", "C20_total", "C20_compare_step_total",
            "C20_equiv_sound", "C20_equiv_sound_partial", "C20_equiv_sound_refuted",
            "C20_missing_attributes", "C20_equiv_complete",
            "C20_equiv_detects_example", "C20_tables_nonempty", "C20_failed_step_kept",
            "C20_failed_step_lost_without_return"]

PRELUDE = ("From Coq Require Import List ZArith String.\n"
           "From Basyx Require Import model.Compliance model.ComplianceObs gen.Gen_Compliance proofs.ComplianceProofs.\n"
           "Open Scope string_scope.")

EXC_ORDER = ["OSError", "FileNotFoundError", "ValueError", "UnicodeDecodeError", "JSONDecodeError", "KeyError",
             "IndexError", "AssertionError", "TypeError", "AttributeError", "NotImplementedError", "ImportError",
             "XMLSyntaxError", "ParseError", "ValidationError", "Exception", "RecursionError", "BadZipFile", "error"]


def exc_classes():
    import json as js
    from lxml import etree
    import jsonschema
    return [OSError, FileNotFoundError, ValueError, UnicodeDecodeError, js.decoder.JSONDecodeError, KeyError,
            IndexError, AssertionError, TypeError, AttributeError, NotImplementedError, ImportError,
            etree.XMLSyntaxError, etree.ParseError, jsonschema.exceptions.ValidationError, Exception,
            RecursionError, zipfile.BadZipFile, __import__("zlib").error]


# ------------------------------------------------------------------ state manager correspondence

def gen_mops(rng):
    ops = []
    for _ in range(rng.randint(1, 12)):
        r = rng.random()
        if r < 0.3 or not ops and r < 0.8:
            ops.append(("add",))
        elif r < 0.5:
            ops.append(("log",))
        elif r < 0.75:
            ops.append(("set", rng.randrange(4)))
        elif r < 0.88:
            ops.append(("fromlog",))
        else:
            ops.append(("checker", rng.randint(0, 2), rng.randint(0, 2)))
    return ops


def run_mgr(ops):
    from aas_compliance_tool.state_manager import ComplianceToolStateManager, Status
    from basyx.aas.examples.data._helper import DataChecker
    m = ComplianceToolStateManager()
    trace, fail = [], None
    for o in ops:
        code = 0
        try:
            if o[0] == "add":
                m.add_step("s%d" % len(m.steps))
            elif o[0] == "log":
                m.add_log_record(logging.LogRecord("x", logging.ERROR, "", 0, "m", (), None))
            elif o[0] == "set":
                m.set_step_status(Status(o[1]))
            elif o[0] == "fromlog":
                m.set_step_status_from_log()
            else:
                dc = DataChecker(raise_immediately=False)
                for _ in range(o[1]):
                    dc.check(False, "f")
                for _ in range(o[2]):
                    dc.check(True, "p")
                m.add_log_records_from_data_checker(dc)
        except IndexError:
            code = 1
        statuses = [int(s.status) for s in m.steps]
        overall = int(m.status)
        if overall != max(statuses, default=0):
            fail = f"overall status {overall} is not the worst step status of {statuses}"
        trace.append([code, overall] + [x for s in m.steps for x in (int(s.status), len(s.log_list))])
    return trace, fail


def coq_mop(o):
    if o[0] == "add":
        return "AddStep"
    if o[0] == "log":
        return "AddLog"
    if o[0] == "set":
        return "SetStatus " + ["SUCCESS", "SUCCESS_WITH_WARNINGS", "FAILED", "NOT_EXECUTED"][o[1]]
    if o[0] == "fromlog":
        return "SetFromLog"
    return f"FromChecker {o[1]}%nat {o[2]}%nat"


# ------------------------------------------------------------------ input files

def example_stores():
    from basyx.aas.examples.data import (example_aas, example_aas_mandatory_attributes, example_aas_missing_attributes,
                                         example_submodel_template, create_example)
    from basyx.aas import model
    res = {"full": example_aas.create_full_example(),
           "mandatory": example_aas_mandatory_attributes.create_full_example(),
           "missing": example_aas_missing_attributes.create_full_example(),
           "all": create_example()}
    st = model.DictObjectStore()
    st.add(example_submodel_template.create_example_submodel_template())
    res["template"] = st
    res["empty"] = model.DictObjectStore()
    return res


def write_store(store, fmt, path, core=None):
    from basyx.aas.adapter.json import write_aas_json_file
    from basyx.aas.adapter.xml import write_aas_xml_file
    from basyx.aas.adapter import aasx
    from basyx.aas import model
    if fmt == "json":
        with open(path, "w", encoding="utf-8") as f:
            write_aas_json_file(f, store)
    elif fmt == "xml":
        with open(path, "wb") as f:
            write_aas_xml_file(f, store)
    else:
        files = aasx.DictSupplementaryFileContainer()
        files.add_file("/TestFile.pdf", io.BytesIO(b"%PDF-1.4 x"), "application/pdf")
        with aasx.AASXWriter(path) as w:
            w.write_all_aas_objects("/aasx/data." + ("json" if fmt == "aasx-json" else "xml"), store, files,
                                    write_json=(fmt == "aasx-json"))
            if core is not None:
                w.write_core_properties(core)


# Order in SDK-written files is process dependent: submodel references, isCaseOf and refersTo live in Python sets of
# References whose hash involves the class object (hash((self.__class__, self.key)), a memory address), the example
# data builds statements / annotations / submodel elements from sets of Referables (identity hash), and zip members
# carry the time of writing.  Everything the harness derives inputs from (leaf enumeration, damaged copies,
# permutations) therefore goes through these canonical renderings - every collection without an order in the
# metamodel sorted - so that a run is a function of (VERIF_SEED, tree) only.
SET_KEYS = {"isCaseOf", "refersTo", "valueReferencePairs"}


def canonical_doc(x, key=None, parent_type=None):
    """a copy of a JSON document with every list that has no order in the metamodel sorted"""
    if isinstance(x, dict):
        return {k: canonical_doc(v, k, x.get("modelType")) for k, v in x.items()}
    if isinstance(x, list):
        l = [canonical_doc(v) for v in x]
        if key in SET_KEYS or key in UNORDERED_KEYS or (key == "value" and parent_type in UNORDERED_VALUE_OF):
            l.sort(key=lambda v: json.dumps(v, sort_keys=True))
        return l
    return x


def canonical_json_bytes(path):
    return json.dumps(canonical_doc(json.load(open(path, encoding="utf-8")))).encode("utf-8")


XML_UNORDERED = {"assetAdministrationShells", "submodels", "conceptDescriptions", "submodelElements", "qualifiers",
                 "extensions", "supplementalSemanticIds", "specificAssetIds", "isCaseOf", "refersTo",
                 "embeddedDataSpecifications", "statements", "annotations", "description", "displayName",
                 "valueReferencePairs"}


def canonical_xml_bytes(data):
    from lxml import etree
    root = etree.fromstring(data)
    for el in reversed(list(root.iter())):          # children before parents
        if not isinstance(el.tag, str):
            continue
        name = etree.QName(el).localname
        par = etree.QName(el.getparent()).localname if el.getparent() is not None else None
        if name in XML_UNORDERED or (name == "value" and par in ("submodelElementCollection", "multiLanguageProperty")):
            el[:] = sorted(el, key=lambda c: etree.tostring(c, method="c14n"))
    return etree.tostring(root, xml_declaration=True, encoding="utf-8")


def canonical_aasx_bytes(path):
    """the package re-packed with fixed member times and a canonical payload"""
    out = io.BytesIO()
    with zipfile.ZipFile(path) as zin, zipfile.ZipFile(out, "w") as zout:
        for item in zin.infolist():
            data = zin.read(item.filename)
            if item.filename == "aasx/data.json":
                data = json.dumps(canonical_doc(json.loads(data.decode("utf-8-sig")))).encode("utf-8")
            elif item.filename == "aasx/data.xml":
                data = canonical_xml_bytes(data)
            zi = zipfile.ZipInfo(item.filename, date_time=(1980, 1, 1, 0, 0, 0))
            zi.compress_type = zipfile.ZIP_DEFLATED
            zi.external_attr = item.external_attr
            zout.writestr(zi, data)
    return out.getvalue()


def canonical_bytes(path, fmt):
    if fmt == "json":
        return canonical_json_bytes(path)
    if fmt == "xml":
        return canonical_xml_bytes(open(path, "rb").read())
    return canonical_aasx_bytes(path)


def damage(rng, data):
    """C09-style damage operators on a byte string"""
    if not data:
        return b"\x00"
    k = rng.randrange(6)
    n = len(data)
    if k == 0:
        return data[:rng.randrange(n)]                                    # truncate
    if k == 1:
        i = rng.randrange(n)
        return data[:i] + bytes([data[i] ^ (1 << rng.randrange(8))]) + data[i + 1:]   # bit flip
    if k == 2:
        i, j = sorted((rng.randrange(n), rng.randrange(n)))
        return data[:i] + data[j:]                                        # delete a chunk
    if k == 3:
        i = rng.randrange(n)
        return data[:i] + bytes(rng.randrange(256) for _ in range(rng.randint(1, 8))) + data[i:]   # insert garbage
    if k == 4:
        i, j = sorted((rng.randrange(n), rng.randrange(n)))
        return data[:i] + data[i:j] + data[i:j] + data[j:]               # duplicate a chunk
    return data.replace(rng.choice([b'"', b"<", b"{", b":", b">"]), b"", 1)   # drop one structural character


def crafted_aasx(tmp):
    """AASX packages aimed at the stages of the AASX check functions"""
    from basyx.aas import model
    from basyx.aas.adapter import aasx
    import pyecma376_2
    import datetime
    res = {}
    full = example_stores()["full"]
    logging.disable(logging.CRITICAL)      # the writer's warnings about these inputs are expected
    # a File value climbing above the package root
    sm = model.Submodel("urn:x:sm", [model.File("f", "application/pdf", value="../../../z.pdf")])
    st = model.DictObjectStore([sm])
    p = os.path.join(tmp, "aboveroot.aasx")
    with aasx.AASXWriter(p) as w:
        w.write_all_aas_objects("/aasx/data.xml", st, aasx.DictSupplementaryFileContainer())
    res["aasx-above-root"] = p
    # broken core properties part / missing aas-spec part / broken relationships
    good = os.path.join(tmp, "good.aasx")
    cp = pyecma376_2.OPCCoreProperties()
    cp.created = datetime.datetime(2020, 1, 1, 0, 0, 0)
    cp.creator = "x"
    write_store(full, "aasx-xml", good, core=cp)

    def rewrite(name, fn):
        out = os.path.join(tmp, name + ".aasx")
        with zipfile.ZipFile(good) as zin, zipfile.ZipFile(out, "w") as zout:
            for item in zin.infolist():
                data = zin.read(item.filename)
                data = fn(item.filename, data)
                if data is not None:
                    zout.writestr(item, data)
        res["aasx-" + name] = out
    rewrite("broken-core", lambda n, d: b"<coreProperties" if n == "docProps/core.xml" else d)
    rewrite("missing-spec-part", lambda n, d: None if n == "aasx/data.xml" else d)
    rewrite("broken-origin-rels", lambda n, d: b"<Relationships" if n == "aasx/_rels/aasx-origin.rels" else d)
    rewrite("broken-root-rels", lambda n, d: b"<Relationships" if n == "_rels/.rels" else d)
    rewrite("no-content-types", lambda n, d: None if n == "[Content_Types].xml" else d)

    def unknown_compression(src, member, name):
        """the package with compression method 99 in the central-directory record (and local header) of one member"""
        data = bytearray(open(src, "rb").read())
        fn = member.encode()
        for sig, moff, noff in ((b"PK\x01\x02", 10, 46), (b"PK\x03\x04", 8, 30)):
            i = data.find(sig)
            while i >= 0:
                nlen = int.from_bytes(data[i + noff - (18 if sig == b"PK\x01\x02" else 4):][:2], "little")
                if bytes(data[i + noff:i + noff + nlen]) == fn:
                    data[i + moff:i + moff + 2] = (99).to_bytes(2, "little")
                i = data.find(sig, i + 4)
        out = os.path.join(tmp, name + ".aasx")
        open(out, "wb").write(bytes(data))
        res["aasx-" + name] = out
    # several payload parts, one of them not valid against the schema (first / middle / last)
    for pos in range(3):
        p = os.path.join(tmp, f"parts{pos}.aasx")
        with aasx.AASXWriter(p) as w:
            for k in range(3):
                w.write_all_aas_objects(f"/aasx/p{k}.json", model.DictObjectStore([model.Submodel(f"urn:part:{k}")]),
                                        aasx.DictSupplementaryFileContainer(), write_json=True)
        out = os.path.join(tmp, f"parts{pos}-invalid.aasx")
        with zipfile.ZipFile(p) as zin, zipfile.ZipFile(out, "w") as zout:
            for item in zin.infolist():
                data = zin.read(item.filename)
                zout.writestr(item, b'{"submodels": [{"modelType": "Submodel"}]}' if item.filename == f"aasx/p{pos}.json" else data)
        res[f"aasx-three-json-parts-schema-invalid-part{pos}"] = out
    goodj = os.path.join(tmp, "goodj.aasx")
    write_store(full, "aasx-json", goodj, core=cp)
    for src, tag in ((good, "xml"), (goodj, "json")):
        with zipfile.ZipFile(src) as z:
            members = z.namelist()
        for member in members:
            unknown_compression(src, member, f"unknown-compression-{tag}-" + re.sub(r"[^A-Za-z0-9]+", "_", member))
    # timezone-aware creation date
    cp2 = pyecma376_2.OPCCoreProperties()
    cp2.created = datetime.datetime(2020, 1, 1, 0, 0, 0, tzinfo=datetime.timezone.utc)
    cp2.creator = "Eclipse BaSyx Python Testing Framework"
    cp2.modified = datetime.datetime(2020, 1, 1, 0, 0, 1, tzinfo=datetime.timezone.utc)
    from basyx.aas.examples.data import create_example_aas_binding
    p = os.path.join(tmp, "aware.aasx")
    write_store(create_example_aas_binding(), "aasx-xml", p, core=cp2)
    res["aasx-aware-created"] = p
    # no core properties at all
    p = os.path.join(tmp, "nocore.aasx")
    write_store(full, "aasx-json", p)
    res["aasx-no-core"] = p
    logging.disable(logging.NOTSET)
    return res


def directed_store():
    """attributes the full example does not exercise: semantic ids of qualifiers and specific asset ids"""
    from basyx.aas import model
    ext = lambda v: model.ExternalReference((model.Key(model.KeyTypes.GLOBAL_REFERENCE, v),))
    q = model.Qualifier("q", model.datatypes.String, "v", semantic_id=ext("urn:q:sem"),
                        supplemental_semantic_id=[ext("urn:q:sup")])
    # optional type attributes that may be present or absent: value_type_list_element of a list whose elements carry
    # no value type, value_type of an extension
    typed_lists = [
        model.SubmodelElementList("l_mlp", model.MultiLanguageProperty,
                                  [model.MultiLanguageProperty(None, model.MultiLanguageTextType({"en": "a"}))],
                                  value_type_list_element=model.datatypes.Int, semantic_id_list_element=ext("urn:l:sem")),
        model.SubmodelElementList("l_smc", model.SubmodelElementCollection, [model.SubmodelElementCollection(None)],
                                  value_type_list_element=model.datatypes.String, order_relevant=True),
        model.SubmodelElementList("l_empty", model.File, value_type_list_element=model.datatypes.Double)]
    sm = model.Submodel("urn:x:directed",
                        [model.Property("p", model.datatypes.String, "x", qualifier=[q],
                                        extension=[model.Extension("e1", model.datatypes.Int, 5),
                                                   model.Extension("e2", model.datatypes.String),
                                                   model.Extension("e3")])] + typed_lists
                        + [model.SubmodelElementCollection("c", [model.Entity(
                            "e", model.EntityType.CO_MANAGED_ENTITY,
                            [model.SubmodelElementList("l_in", model.Capability, [model.Capability(None)],
                                                       value_type_list_element=model.datatypes.Boolean)])])],
                        qualifier=[model.Qualifier("q2", model.datatypes.Int, 5, semantic_id=ext("urn:q2:sem"))])
    aas = model.AssetAdministrationShell(
        model.AssetInformation(model.AssetKind.INSTANCE, global_asset_id="urn:x:asset", asset_type="urn:x:type",
                               specific_asset_id=[model.SpecificAssetId("n", "v", ext("urn:subject"),
                                                                        semantic_id=ext("urn:s:sem"),
                                                                        supplemental_semantic_id=[ext("urn:s:sup")])]),
        "urn:x:aas")
    return model.DictObjectStore([sm, aas])


UNORDERED_KEYS = {"assetAdministrationShells", "submodels", "conceptDescriptions", "submodelElements", "qualifiers",
                  "extensions", "supplementalSemanticIds", "specificAssetIds", "isCaseOf", "embeddedDataSpecifications",
                  "statements", "annotations", "description", "displayName", "valueReferencePairs"}
UNORDERED_VALUE_OF = {"SubmodelElementCollection", "MultiLanguageProperty"}


def permute_unordered(doc, rng, only=None, stats=None):
    """a deep copy of a JSON document with the members of every object shuffled and every list that has no order
    in the metamodel really permuted (`only`: just the lists under that key)"""
    def real_permutation(l):
        if len(l) < 2:
            return list(l), False
        new = list(l)
        rng.shuffle(new)
        if new == l:
            new = new[1:] + new[:1]
        return new, new != l

    def go(x, key=None, parent_type=None, owner=None):
        # owner: the key of the list the enclosing object is a member of (specificAssetIds, qualifiers, ...)
        if isinstance(x, dict):
            items = list(x.items())
            if only is None:
                rng.shuffle(items)
            return {k: go(v, k, x.get("modelType"), owner) for k, v in items}
        if isinstance(x, list):
            l = [go(v, None, None, key) for v in x]
            name = key if key in UNORDERED_KEYS else \
                (parent_type + ".value" if key == "value" and parent_type in UNORDERED_VALUE_OF else None)
            if name == "supplementalSemanticIds" and owner == "specificAssetIds":
                name = "supplementalSemanticIds@SpecificAssetId"     # compared through SpecificAssetId.__eq__
            if name is not None and (only is None or only == name):
                l, changed = real_permutation(l)
                if changed and stats is not None:
                    stats[name] = stats.get(name, 0) + 1
            return l
        return x
    return go(doc)


def collections_store():
    """at least two members in every collection that has no order in the metamodel, at several depths"""
    from basyx.aas import model
    ext = lambda v: model.ExternalReference((model.Key(model.KeyTypes.GLOBAL_REFERENCE, v),))
    mref = lambda v: model.ModelReference((model.Key(model.KeyTypes.SUBMODEL, v),), model.Submodel)
    sup = lambda p: [ext(f"urn:{p}:sup1"), ext(f"urn:{p}:sup2"), ext(f"urn:{p}:sup3")]
    quals = lambda p: [model.Qualifier(f"{p}q1", model.datatypes.String, "a", semantic_id=ext(f"urn:{p}:q1"),
                                       supplemental_semantic_id=sup(p + "q1")),
                       model.Qualifier(f"{p}q2", model.datatypes.Int, 2)]
    exts = lambda p: [model.Extension(f"{p}e1", model.datatypes.String, "a", semantic_id=ext(f"urn:{p}:e1"),
                                      supplemental_semantic_id=sup(p + "e1"), refers_to=[mref("urn:r1"), mref("urn:r2")]),
                      model.Extension(f"{p}e2")]
    texts = lambda: model.MultiLanguageTextType({"en": "text", "de": "Text", "fr": "texte"})
    prop = lambda n, p: model.Property(n, model.datatypes.String, "v", semantic_id=ext(f"urn:{p}:sem"),
                                       supplemental_semantic_id=sup(p), qualifier=quals(p), extension=exts(p),
                                       description=texts())
    r = mref("urn:x")
    sm = model.Submodel("urn:coll:sm", [
        prop("p1", "p1"), prop("p2", "p2"),
        model.MultiLanguageProperty("mlp", model.MultiLanguageTextType({"en": "a", "de": "b"})),
        model.SubmodelElementCollection("c", [prop("cp1", "cp1"), prop("cp2", "cp2"),
                                              model.SubmodelElementCollection("cc", [prop("x1", "x1"), prop("x2", "x2")])],
                                        supplemental_semantic_id=sup("c"), semantic_id=ext("urn:c:sem")),
        model.Entity("e", model.EntityType.SELF_MANAGED_ENTITY, [prop("s1", "s1"), prop("s2", "s2")],
                     global_asset_id="urn:e:asset",
                     specific_asset_id=[model.SpecificAssetId("n1", "v1", ext("urn:subj1"), semantic_id=ext("urn:n1"),
                                                              supplemental_semantic_id=sup("n1")),
                                        model.SpecificAssetId("n2", "v2", ext("urn:subj2"))]),
        model.AnnotatedRelationshipElement("a", r, r, annotation=[prop("a1", "a1"), prop("a2", "a2")]),
    ], semantic_id=ext("urn:sm:sem"), supplemental_semantic_id=sup("sm"), qualifier=quals("sm"), extension=exts("sm"),
        description=texts(), display_name=model.MultiLanguageNameType({"en": "n", "de": "N"}))
    sm2 = model.Submodel("urn:coll:sm2")
    aas = model.AssetAdministrationShell(
        model.AssetInformation(model.AssetKind.INSTANCE, global_asset_id="urn:coll:asset",
                               specific_asset_id=[model.SpecificAssetId("a1", "v1", ext("urn:subj1")),
                                                  model.SpecificAssetId("a2", "v2", ext("urn:subj2"),
                                                                        supplemental_semantic_id=sup("a2"),
                                                                        semantic_id=ext("urn:a2"))]),
        "urn:coll:aas", submodel={mref("urn:coll:sm"), mref("urn:coll:sm2"), mref("urn:coll:absent")},
        extension=exts("aas"), description=texts())
    cd = model.ConceptDescription("urn:coll:cd", is_case_of=[ext("urn:case1"), ext("urn:case2"), ext("urn:case3")],
                                  extension=exts("cd"))
    cd2 = model.ConceptDescription("urn:coll:cd2")
    return model.DictObjectStore([sm, sm2, aas, cd, cd2])


def unordered_list_store(before=0, after=0, inside=1):
    """a submodel with a property, an unordered SubmodelElementList and another property, and a second submodel"""
    from basyx.aas import model
    items = inside if isinstance(inside, (list, tuple)) else [inside]
    sml = model.SubmodelElementList("l", model.Property, [model.Property(None, model.datatypes.Int, v) for v in items],
                                    value_type_list_element=model.datatypes.Int, order_relevant=False)
    return model.DictObjectStore([
        model.Submodel("urn:x:sml", [model.Property("a_before", model.datatypes.Int, before), sml,
                                     model.Property("z_after", model.datatypes.Int, after)]),
        model.Submodel("urn:x:sml2", [model.Property("p", model.datatypes.Int, after)])])


# ------------------------------------------------------------------ running the check functions

def functions():
    from aas_compliance_tool import compliance_check_json as cj, compliance_check_xml as cx, compliance_check_aasx as ca
    one = {"json.check_schema": cj.check_schema, "json.check_deserialization": cj.check_deserialization,
           "json.check_aas_example": cj.check_aas_example,
           "xml.check_schema": cx.check_schema, "xml.check_deserialization": cx.check_deserialization,
           "xml.check_aas_example": cx.check_aas_example,
           "aasx.check_schema": ca.check_schema, "aasx.check_deserialization": ca.check_deserialization,
           "aasx.check_aas_example": ca.check_aas_example}
    two = {"json.check_json_files_equivalence": cj.check_json_files_equivalence,
           "xml.check_xml_files_equivalence": cx.check_xml_files_equivalence,
           "aasx.check_aasx_files_equivalence": ca.check_aasx_files_equivalence}
    return one, two


REPORT_ISSUES = []     # (function, inputs, step index, statuses): a SUCCESS step that carries an ERROR record


def detach_managers(only=None):
    """removes state managers (all, or one) from every logger: what a fresh process starts with"""
    from aas_compliance_tool.state_manager import ComplianceToolStateManager
    for name in list(logging.root.manager.loggerDict):
        lg = logging.getLogger(name)
        for h in list(getattr(lg, "handlers", [])):
            if (h is only) if only is not None else isinstance(h, ComplianceToolStateManager):
                lg.removeHandler(h)


def call(fn, *paths, cleanup=True):
    """-> (raised exception or None, [step statuses], overall).  cleanup=True gives the verdict of a call that is
    the first one in its process (no handler of an earlier check is left on the loggers); cleanup=False leaves the
    process as the tool leaves it, so that the next call runs in the state a second call really finds."""
    from aas_compliance_tool.state_manager import ComplianceToolStateManager
    m = ComplianceToolStateManager()
    raised = None
    if len(paths) == 2 and all(isinstance(p, str) and os.path.isfile(p) for p in paths):
        for p in paths:                      # a compared pair never differs in its time stamps: only the content counts
            os.utime(p, (1600000000, 1600000000))
    try:
        fn(*paths, m)
    except Exception as e:     # noqa
        raised = e
    finally:
        if cleanup:
            detach_managers(m)
    for k, s in enumerate(m.steps):
        if int(s.status) == 0 and any(r.levelno >= logging.ERROR for r in s.log_list):
            REPORT_ISSUES.append((getattr(fn, "__module__", "?").split("_")[-1] + "." + getattr(fn, "__name__", "?"),
                                  [os.path.basename(p) for p in paths], k, [int(x.status) for x in m.steps]))
    return raised, [int(s.status) for s in m.steps], int(m.status)


def history_files(tmp):
    """the inputs of check_history: per format good files, a truncated one, a well-formed one holding a broken object
    (a Property without valueType: the failsafe readers log an error), a missing one"""
    import re as _re
    stores = example_stores()
    files = {}
    for fmt in ("json", "xml", "aasx-xml", "aasx-json"):
        ext = fmt.split("-")[0]
        good = os.path.join(tmp, f"hist-good.{fmt}.{ext}")
        write_store(stores["full"], fmt, good)
        other = os.path.join(tmp, f"hist-other.{fmt}.{ext}")
        write_store(stores["mandatory"], fmt, other)
        data = canonical_bytes(good, fmt)
        files.setdefault(ext, {})
        files[ext][f"good-{fmt}"] = good
        files[ext][f"other-{fmt}"] = other
        trunc = os.path.join(tmp, f"hist-trunc.{fmt}.{ext}")
        open(trunc, "wb").write(data[:len(data) // 2])
        files[ext][f"truncated-{fmt}"] = trunc
    # well-formed documents holding a broken object (the failsafe readers log an error): a Property without valueType
    doc = canonical_doc(json.load(open(files["json"]["good-json"], encoding="utf-8")))
    n = [0]

    def drop(x):
        if isinstance(x, dict):
            if x.get("modelType") == "Property" and "valueType" in x and n[0] < 2:
                del x["valueType"]
                n[0] += 1
            for v in x.values():
                drop(v)
        elif isinstance(x, list):
            for v in x:
                drop(v)
    drop(doc)
    pj = os.path.join(tmp, "hist-broken-object.json")
    json.dump(doc, open(pj, "w", encoding="utf-8"))
    files["json"]["broken-object-json"] = pj
    xml = canonical_bytes(files["xml"]["good-xml"], "xml")
    xml2 = _re.sub(rb"<(\w+:)?valueType>[^<]*</(\w+:)?valueType>", b"", xml, count=2)
    px = os.path.join(tmp, "hist-broken-object.xml")
    open(px, "wb").write(xml2)
    files["xml"]["broken-object-xml"] = px
    pa = os.path.join(tmp, "hist-broken-object.aasx")
    with zipfile.ZipFile(files["aasx"]["good-aasx-xml"]) as zin, zipfile.ZipFile(pa, "w") as zout:
        for item in zin.infolist():
            d = zin.read(item.filename)
            zout.writestr(item, xml2 if item.filename == "aasx/data.xml" else d)
    files["aasx"]["broken-object-aasx"] = pa
    for ext in files:
        files[ext]["missing"] = os.path.join(tmp, "hist-does-not-exist")
    # the example data itself (what check_aas_example must accept) and a copy with one value changed
    import datetime
    import pyecma376_2
    from basyx.aas.adapter.json import read_aas_json_file
    from basyx.aas.examples.data import create_example, create_example_aas_binding
    cp = pyecma376_2.OPCCoreProperties()
    cp.created = datetime.datetime(2020, 1, 1, 0, 0, 0)
    cp.creator = "Eclipse BaSyx Python Testing Framework"
    cp.description = "Test_Description"
    cp.lastModifiedBy = "Eclipse BaSyx Python Testing Framework Compliance Tool"
    cp.modified = datetime.datetime(2020, 1, 1, 0, 0, 1)
    cp.revision = "1.0"
    cp.version = "2.0.1"
    cp.title = "Test Title"

    def mutated(store, name):
        p = os.path.join(tmp, name + ".src.json")
        write_store(store, "json", p)
        doc = canonical_doc(json.load(open(p, encoding="utf-8")))
        path = next(pa for pa, fr in leaves(doc) if pa and pa[-1] == "value" and fr and fr[-1][0] == "Property"
                    and isinstance(_get(doc, pa), str) and "valueId" not in pa)
        p2 = os.path.join(tmp, name + ".mutated.json")
        json.dump(mutate_leaf(doc, path), open(p2, "w", encoding="utf-8"))
        with open(p2, encoding="utf-8") as f:
            return p2, read_aas_json_file(f)
    files["json"]["example"] = os.path.join(tmp, "hist-example.json")
    write_store(create_example(), "json", files["json"]["example"])
    files["xml"]["example"] = os.path.join(tmp, "hist-example.xml")
    write_store(create_example(), "xml", files["xml"]["example"])
    files["aasx"]["example"] = os.path.join(tmp, "hist-example.aasx")
    write_store(create_example_aas_binding(), "aasx-xml", files["aasx"]["example"], core=cp)
    pm, stm = mutated(create_example(), "hist-example")
    files["json"]["example-mutated"] = pm
    files["xml"]["example-mutated"] = os.path.join(tmp, "hist-example-mutated.xml")
    write_store(stm, "xml", files["xml"]["example-mutated"])
    _, stb = mutated(create_example_aas_binding(), "hist-binding")
    files["aasx"]["example-mutated"] = os.path.join(tmp, "hist-example-mutated.aasx")
    write_store(stb, "aasx-xml", files["aasx"]["example-mutated"], core=cp)
    return files


def _get(doc, path):
    for k in path:
        doc = doc[k]
    return doc


EXAMPLE_KINDS = ("example", "example-mutated")
FIRST_CALL_CHILD = (
    "import sys, json, logging\n"
    "import c20\n"
    "logging.getLogger('basyx').addHandler(logging.NullHandler())\n"
    "one, two = c20.functions()\n"
    "fn = one.get(sys.argv[1]) or two[sys.argv[1]]\n"
    "raised, st, ov = c20.call(fn, *sys.argv[2:])\n"
    "print('@@' + json.dumps([type(raised).__name__ if raised is not None else None, st]))\n")


def first_call_verdicts(jobs, parallel=6):
    """the verdict of each (function, paths) as the first and only call of a fresh interpreter"""
    import subprocess
    import sys
    res, running, pending = {}, [], list(jobs)

    def reap(job, p):
        out, _ = p.communicate()
        m = re.search(r"@@(.*)", out)
        res[job] = tuple(json.loads(m.group(1))) if m else ("child-failed", out[-300:])
    while pending or running:
        while pending and len(running) < parallel:
            job = pending.pop(0)
            running.append((job, subprocess.Popen([sys.executable, "-c", FIRST_CALL_CHILD, job[0]] + list(job[1]),
                                                  stdout=subprocess.PIPE, stderr=subprocess.DEVNULL, text=True)))
        job, p = running.pop(0)
        reap(job, p)
    return {k: (v[0], v[1]) for k, v in res.items()}


def check_history(chk, rng, quick, tmp, esc_model):
    """state kept between calls: every check function is called many times in one process with fresh state managers,
    alternating formats, good and damaged inputs; each verdict must be the one the same call gives as the first call
    of a process"""
    one, two = functions()
    files = history_files(tmp)
    eq = {"json": "json.check_json_files_equivalence", "xml": "xml.check_xml_files_equivalence",
          "aasx": "aasx.check_aasx_files_equivalence"}
    steps = []
    exts = ["xml", "json", "aasx"]
    # a fixed prefix that visits every function with a good and a damaged input, then seeded random steps
    for ext in exts:
        kinds = sorted(files[ext])
        for fname in sorted(f for f in one if f.startswith(ext + ".")):
            for kind in kinds:
                steps.append((fname, (kind,)))
        pair_kinds = [k for k in kinds if k not in EXAMPLE_KINDS]
        for a in pair_kinds:
            for b in pair_kinds:
                if a <= b:
                    steps.append((eq[ext], (a, b)))
    rng.shuffle(steps)
    extra = []
    for _ in range(30 if quick else 300):
        ext = rng.choice(exts)
        kinds = sorted(files[ext])
        if rng.random() < 0.6:
            extra.append((rng.choice(sorted(f for f in one if f.startswith(ext + "."))), (rng.choice(kinds),)))
        else:
            extra.append((eq[ext], (rng.choice(kinds), rng.choice(kinds))))
    steps += extra
    # the example checks once more at the end, after everything else (and after each other)
    steps += [("aasx.check_aas_example", ("example",)), ("json.check_aas_example", ("example",)),
              ("xml.check_aas_example", ("example",)), ("json.check_aas_example", ("example-mutated",)),
              ("xml.check_aas_example", ("example-mutated",)), ("aasx.check_aas_example", ("example-mutated",)),
              ("aasx.check_aas_example", ("example",)), ("json.check_aas_example", ("example",))]
    # create_example() hands out independent objects: changing what one call returned (or building the AASX
    # binding) must not show in the next call's result
    from basyx.aas.examples.data import create_example, create_example_aas_binding
    from basyx.aas import model as _model

    def example_doc(tag):
        p = os.path.join(tmp, f"hist-independence-{tag}.json")
        write_store(create_example(), "json", p)
        return canonical_doc(json.load(open(p, encoding="utf-8")))
    d0 = example_doc("a")
    victim = create_example()
    for o in victim:
        if isinstance(o, _model.Submodel):
            o.id_short = "Changed" + (o.id_short or "")
            for e in list(o.submodel_element)[:1]:
                o.submodel_element.remove(e)
    create_example_aas_binding()
    chk.seen(("example-independence",), nontrivial=True)
    if example_doc("b") != d0:
        chk.fail("C20:example-data:not-independent-between-calls",
                 "create_example() returns other data after an earlier result was modified / after "
                 "create_example_aas_binding() was called",
                 {"how": "tools/c20.py check_history: modify the result of create_example(), call create_example_aas_binding(), "
                         "serialise create_example() again"})

    def run(step, cleanup):
        fname, kinds = step
        ext = fname.split(".")[0]
        fn = one.get(fname) or two[fname]
        raised, statuses, overall = call(fn, *[files[ext][k] for k in kinds], cleanup=cleanup)
        return (type(raised).__name__ if raised is not None else None, statuses), raised
    detach_managers()
    history = [run(s, cleanup=False) for s in steps]            # as the tool leaves the process
    detach_managers()
    # first-call verdicts from really fresh interpreters: for every example check (quick) / every distinct step
    # (thorough); the other steps are compared with the same call made after removing all handlers
    distinct = list(dict.fromkeys(s for s in steps if not quick or s[0].endswith("check_aas_example")))
    fresh = first_call_verdicts([(s[0], tuple(files[s[0].split(".")[0]][k] for k in s[1])) for s in distinct])
    fresh = {s: fresh[(s[0], tuple(files[s[0].split(".")[0]][k] for k in s[1]))] for s in distinct}
    chk.cov["history_first_call_processes"] = len(fresh)
    reported = set()
    for k, (step, (got, raised)) in enumerate(zip(steps, history)):
        want = (fresh[step][0], fresh[step][1]) if step in fresh else run(step, cleanup=True)[0]
        if step[0].endswith("check_aas_example") and step[1][0] in EXAMPLE_KINDS and raised is None:
            ok = all(x == 0 for x in got[1]) if step[1][0] == "example" else max(got[1], default=0) != 0
            if not ok and ("abs", step[0], step[1][0]) not in reported:
                reported.add(("abs", step[0], step[1][0]))
                chk.fail(f"C20:example:{'rejected' if step[1][0] == 'example' else 'mutated-accepted'}:{step[0]}",
                         f"{step[0]} on {'the example data itself' if step[1][0] == 'example' else 'the example data with one value changed'} "
                         f"as call number {k + 1} of the process: steps {got[1]}",
                         {"input_kind": "history", "step": k, "function": step[0], "inputs": list(step[1]),
                          "earlier_calls": [[s[0], list(s[1])] for s in steps[:k]][-12:]})
        chk.seen(("history", k, step), nontrivial=True)
        chk.count("history-steps")
        rp = {"input_kind": "history", "step": k, "function": step[0], "inputs": list(step[1]),
              "earlier_calls": [[s[0], list(s[1])] for s in steps[:k]][-12:],
              "how": "tools/c20.py check_history: the calls in this order in one process, fresh state manager each"}
        if raised is not None:
            report_raise(chk, step[0], raised, esc_model, rp)
        if got != want and step[0] not in reported:
            reported.add(step[0])
            chk.fail(f"C20:history:verdict-depends-on-earlier-calls:{step[0]}",
                     f"{step[0]}({', '.join(step[1])}) as call number {k + 1} of the process: {got}; as the first call of a "
                     f"process: {want}", rp)
    chk.cov["history_steps"] = len(steps)


def model_exc_name(e):
    """name of the first class in the model's enumeration the exception is an instance of"""
    for name, cls in zip(EXC_ORDER, exc_classes()):
        if type(e) is cls:
            return name
    for name, cls in zip(EXC_ORDER, exc_classes()):
        if cls is not Exception and isinstance(e, cls):
            return name
    return "Exception"


# ------------------------------------------------------------------ single-leaf mutations

SNAKE = {"submodelElements": "submodel_element", "qualifiers": "qualifier", "extensions": "extension",
         "statements": "statement", "annotations": "annotation", "inputVariables": "input_variable",
         "outputVariables": "output_variable", "inoutputVariables": "in_output_variable", "submodels": "submodel",
         "specificAssetIds": "specific_asset_id", "supplementalSemanticIds": "supplemental_semantic_id",
         "isCaseOf": "is_case_of", "embeddedDataSpecifications": "embedded_data_specifications",
         "levelType": "level_types", "modelType": "modelType"}
CONTEXT_CLASS = {"qualifiers": "Qualifier", "specificAssetIds": "SpecificAssetId", "extensions": "Extension",
                 "assetInformation": "AssetInformation", "defaultThumbnail": "Resource",
                 "dataSpecificationContent": "DataSpecificationIEC61360"}


def snake(k):
    return SNAKE.get(k) or re.sub(r"([A-Z])", lambda m: "_" + m.group(1).lower(), k)


def leaves(doc, path=(), frames=()):
    """yields (path, frames) for every scalar leaf; frames = ((class, attribute), ...) from the identifiable down
    to the innermost object the checker has a method for: the leaf lives under `attribute` of each `class`"""
    if isinstance(doc, dict):
        if "modelType" in doc and doc["modelType"] != "DataSpecificationIec61360":
            frames = frames + ((doc["modelType"], None),)
        for k, v in doc.items():
            fr = frames
            if fr and fr[-1][1] is None:
                fr = fr[:-1] + ((fr[-1][0], snake(k)),)
            if k in CONTEXT_CLASS:
                fr = fr + ((CONTEXT_CLASS[k], None),)
            yield from leaves(v, path + (k,), fr)
    elif isinstance(doc, list):
        for i, v in enumerate(doc):
            yield from leaves(v, path + (i,), frames)
    else:
        yield path, frames


def member_keys(doc, path=(), frames=()):
    """yields (path of the JSON object, key, frames) for every member of every JSON object, in document order"""
    if isinstance(doc, dict):
        if "modelType" in doc and doc["modelType"] != "DataSpecificationIec61360":
            frames = frames + ((doc["modelType"], None),)
        for k, v in doc.items():
            fr = frames
            if fr and fr[-1][1] is None:
                fr = fr[:-1] + ((fr[-1][0], snake(k)),)
            yield path, k, fr
            if k in CONTEXT_CLASS:
                fr = fr + ((CONTEXT_CLASS[k], None),)
            yield from member_keys(v, path + (k,), fr)
    elif isinstance(doc, list):
        for i, v in enumerate(doc):
            yield from member_keys(v, path + (i,), frames)


def mutate_leaf(doc, path):
    d = copy.deepcopy(doc)
    cur = d
    for k in path[:-1]:
        cur = cur[k]
    v = cur[path[-1]]
    key = path[-1]
    if isinstance(v, bool):
        cur[path[-1]] = not v
    elif isinstance(v, (int, float)):
        cur[path[-1]] = v + 1
    elif isinstance(v, str):
        swaps = {"Instance": "Template", "Template": "Instance", "ConceptQualifier": "ValueQualifier",
                 "ValueQualifier": "TemplateQualifier", "CoManagedEntity": "SelfManagedEntity",
                 "SelfManagedEntity": "CoManagedEntity", "input": "output", "output": "input", "on": "off", "off": "on",
                 "ExternalReference": "ModelReference", "ModelReference": "ExternalReference",
                 "xs:string": "xs:anyURI", "xs:int": "xs:long", "xs:anyURI": "xs:string",
                 "true": "false", "false": "true"}
        if v in swaps:
            cur[path[-1]] = swaps[v]
        elif key == "language":
            cur[path[-1]] = "fr" if v != "fr" else "it"
        elif re.fullmatch(r"-?\d+", v):
            cur[path[-1]] = str(int(v) + 1)
        elif re.fullmatch(r"-?\d+\.\d+", v):
            cur[path[-1]] = v + "1"
        elif re.fullmatch(r"\d{4}-\d\d-\d\dT.*", v):
            cur[path[-1]] = "1999" + v[4:]
        elif key == "value" and re.fullmatch(r"[A-Za-z0-9+/]+=*", v) and len(v) % 4 == 0 and "contentType" in cur:
            cur[path[-1]] = "AAAA" + v       # base64 of a Blob: trailing garbage would be ignored by the decoder
        else:
            cur[path[-1]] = v + "x"
    else:
        return None
    return d


SKIP_KEYS = {"modelType", "type", "valueType", "typeValueListElement", "valueTypeListElement", "contentType", "id",
             "idShort", "keys"}


# ------------------------------------------------------------------ minimal perturbations of typed values

def typed_bases():
    """xsd type name -> (SDK type, [base values], perturbation function value -> [other values])"""
    import datetime as dtm
    import decimal
    import math
    from dateutil.relativedelta import relativedelta
    from basyx.aas.model import datatypes as dt
    tz = dtm.timezone(dtm.timedelta(hours=2))
    res = {}

    def fl(v):
        return [math.nextafter(v, math.inf), math.nextafter(v, -math.inf)]
    for name in ("Double", "Float"):
        res[name] = (getattr(dt, name), [0.3, 1e22, 1.0, -2.5e-07, 5e-324], fl)
    res["Decimal"] = (dt.Decimal, [decimal.Decimal("1.5"), decimal.Decimal("0"), decimal.Decimal("-12345678901234567890.125")],
                      lambda v: [decimal.Context(prec=200).add(v, decimal.Decimal("1e-25")),      # exact: one more digit
                                 decimal.Context(prec=200).subtract(v, decimal.Decimal("1e-25"))])
    ints = {"Integer": 10 ** 20, "Long": 2 ** 40, "Int": 7, "Short": 300, "Byte": -5, "NonPositiveInteger": -3,
            "NegativeInteger": -3, "NonNegativeInteger": 3, "PositiveInteger": 3, "UnsignedLong": 2 ** 40,
            "UnsignedInt": 70000, "UnsignedShort": 300, "UnsignedByte": 200}
    for name, b in ints.items():
        res[name] = (getattr(dt, name), [b], lambda v: [v + 1, v - 1])
    res["Boolean"] = (dt.Boolean, [True, False], lambda v: [not v])
    res["String"] = (dt.String, ["abc", "a b", "x"], lambda v: [v[:-1] + ("d" if v[-1] != "d" else "e"), v + "x", v + " ", " " + v])
    res["NormalizedString"] = (dt.NormalizedString, ["abc"], lambda v: [v[:-1] + "d", v + "x", v + " "])
    res["AnyURI"] = (dt.AnyURI, ["http://example.org/a"], lambda v: [v[:-1] + "b", v + "x"])
    us = dtm.timedelta(microseconds=1)
    res["DateTime"] = (dt.DateTime, [dtm.datetime(2020, 1, 2, 3, 4, 5, 250000), dtm.datetime(2020, 1, 2, 3, 4, 5, 0, tz),
                                     dtm.datetime(1999, 12, 31, 23, 59, 59, 999998, dtm.timezone.utc)],
                       lambda v: [v + us, v - us])
    res["Date"] = (dt.Date, [dt.Date(2020, 1, 2), dt.Date(2020, 2, 28, tz)],
                   lambda v: [dt.Date(v.year, v.month, v.day + 1, v.tzinfo)])
    res["Time"] = (dt.Time, [dtm.time(3, 4, 5, 250000), dtm.time(3, 4, 5, 0, tz)],
                   lambda v: [v.replace(microsecond=v.microsecond + 1)])
    res["Duration"] = (dt.Duration, [relativedelta(days=1, seconds=2, microseconds=250000), relativedelta(years=1, months=2)],
                       lambda v: [v + relativedelta(microseconds=1), v + relativedelta(days=1)])
    res["GYear"] = (dt.GYear, [dt.GYear(2020)], lambda v: [dt.GYear(v.year + 1)])
    res["GYearMonth"] = (dt.GYearMonth, [dt.GYearMonth(2020, 5)], lambda v: [dt.GYearMonth(v.year, v.month + 1)])
    res["GMonthDay"] = (dt.GMonthDay, [dt.GMonthDay(5, 6)], lambda v: [dt.GMonthDay(v.month, v.day + 1)])
    res["GMonth"] = (dt.GMonth, [dt.GMonth(5)], lambda v: [dt.GMonth(v.month + 1)])
    res["GDay"] = (dt.GDay, [dt.GDay(6)], lambda v: [dt.GDay(v.day + 1)])

    def by(v):
        b = bytes(v)
        return [type(v)(b[:-1] + bytes([b[-1] ^ 1])), type(v)(b + b"\x00")]
    res["Base64Binary"] = (dt.Base64Binary, [dt.Base64Binary(b"\x01\x02\x03"), dt.Base64Binary(b"\x00")], by)
    res["HexBinary"] = (dt.HexBinary, [dt.HexBinary(b"\x01\x02\xff")], by)
    return res


CARRIERS = ["prop-top", "prop-coll", "prop-list", "prop-entity", "prop-operation", "prop-annotation",
            "range-min", "range-max", "qualifier", "extension"]


def typed_store(tname, typ, values):
    """one submodel; values: {(base index, carrier): value}"""
    from basyx.aas import model
    top, inner, stmts, ops, anns, lists = [], [], [], [], [], []
    for (bi, carrier), v in sorted(values.items(), key=lambda kv: (kv[0][0], CARRIERS.index(kv[0][1]))):
        n = f"{carrier.replace('-', '_')}{bi}"
        if carrier == "prop-top":
            top.append(model.Property(n, typ, v))
        elif carrier == "prop-coll":
            inner.append(model.Property(n, typ, v))
        elif carrier == "prop-list":
            lists.append(model.SubmodelElementList(n, model.Property, [model.Property(None, typ, v)],
                                                   value_type_list_element=typ))
        elif carrier == "prop-entity":
            stmts.append(model.Property(n, typ, v))
        elif carrier == "prop-operation":
            ops.append(model.Property(n, typ, v))
        elif carrier == "prop-annotation":
            anns.append(model.Property(n, typ, v))
        elif carrier == "range-min":
            inner.append(model.Range(n, typ, min=v))
        elif carrier == "range-max":
            stmts.append(model.Range(n, typ, max=v))
        elif carrier == "qualifier":
            ops.append(model.Capability(n, qualifier=[model.Qualifier("q", typ, v)]))
        elif carrier == "extension":
            anns.append(model.Property(n, model.datatypes.String, "x", extension=[model.Extension("e", typ, v)]))
    r = model.ModelReference((model.Key(model.KeyTypes.SUBMODEL, "urn:x"),), model.Submodel)
    elems = top + lists + [
        model.SubmodelElementCollection("c", [model.SubmodelElementCollection("cc", inner)]),
        model.Entity("e", model.EntityType.CO_MANAGED_ENTITY, stmts),
        model.Operation("o", in_output_variable=ops),
        model.AnnotatedRelationshipElement("a", r, r, annotation=anns)]
    return model.DictObjectStore([model.Submodel("urn:typed:" + tname, elems)])


def check_typed_values(chk, rng, quick, tmp, esc_model):
    """every value-carrying class x every xsd type x every nesting position: a minimal perturbation of one value in
    the second file must turn the verdict of the equivalence check to FAILED; the unperturbed pair must succeed"""
    _, two = functions()
    bases = typed_bases()
    tried = undetected = rejected = 0
    for tname, (typ, vals, perturb) in bases.items():
        if quick:
            vals = vals[:2]
        base = {(bi, c): v for bi, v in enumerate(vals) for c in CARRIERS}
        st0 = typed_store(tname, typ, base)
        paths = {}
        for fmt, fn in (("json", "json.check_json_files_equivalence"), ("xml", "xml.check_xml_files_equivalence")):
            p0 = os.path.join(tmp, f"typed-{tname}.{fmt}")
            write_store(st0, fmt, p0)
            paths[fmt] = (p0, fn)
            raised, statuses, overall = call(two[fn], p0, p0)
            chk.seen(("typed-self", tname, fmt), nontrivial=True)
            if raised is not None:
                report_raise(chk, fn, raised, esc_model, {"input_kind": f"typed store {tname} twice"})
            elif overall != 0:
                chk.fail(f"C20:equivalence:equal-data-rejected:typed:{tname}", f"store of xs:{tname} values compared "
                         f"with itself in {fmt}: steps {statuses}", {"typed": tname, "format": fmt})
        keys = list(base)
        if quick:
            rng.shuffle(keys)
            keys = keys[:8]
        for key in keys:
            alts = perturb(base[key])
            if quick:
                alts = alts[:2]
            for alt in alts:
                vals2 = dict(base)
                vals2[key] = alt
                try:
                    st1 = typed_store(tname, typ, vals2)
                except Exception as e:     # perturbed value outside the type's value space: not a test
                    chk.count("perturbation=not-constructible")
                    continue
                for fmt, (p0, fn) in paths.items():
                    p1 = os.path.join(tmp, f"typed-mut.{fmt}")
                    write_store(st1, fmt, p1)
                    raised, statuses, overall = call(two[fn], p0, p1)
                    tried += 1
                    chk.seen(("typed-mut", tname, key, repr(alt), fmt), nontrivial=True)
                    chk.count("perturbation=xs:" + tname)
                    chk.count("perturbation-at=" + key[1])
                    rp = {"typed": tname, "base_index": key[0], "carrier": key[1], "base": repr(base[key]),
                          "perturbed": repr(alt), "format": fmt,
                          "how": "tools/c20.py replay: rebuilds both stores, writes them and compares the files"}
                    if raised is not None:
                        report_raise(chk, fn, raised, esc_model, rp)
                        continue
                    loaded = len(statuses) >= 4 and statuses[:4] == [0, 0, 0, 0]
                    if not loaded:
                        rejected += 1
                        chk.count("perturbation=second-file-rejected-by-reader")
                    if overall == 0 or (loaded and statuses[-1] != 2):
                        undetected += 1
                        chk.fail(f"C20:equivalence:undetected-perturbation:xs:{tname}",
                                 f"two {fmt} files differing only in one xs:{tname} value ({key[1]}: {base[key]!r} vs "
                                 f"{alt!r}) compare as equal: steps {statuses}", rp)
    # Blob contents (bytes outside the xsd value types) and the special float values
    from basyx.aas import model

    def blob_store(b1, b2):
        return model.DictObjectStore([model.Submodel("urn:typed:blob", [
            model.Blob("b", "application/octet-stream", b1),
            model.Entity("e", model.EntityType.CO_MANAGED_ENTITY, [model.Blob("b", "application/octet-stream", b2)])])])
    for fmt, fn in (("json", "json.check_json_files_equivalence"), ("xml", "xml.check_xml_files_equivalence")):
        p0 = os.path.join(tmp, f"blob0.{fmt}")
        write_store(blob_store(b"\x01\x02\x03", b"\x00\xff"), fmt, p0)
        for k, (b1, b2) in enumerate([(b"\x01\x02\x02", b"\x00\xff"), (b"\x01\x02\x03", b"\x00\xfe"),
                                      (b"\x01\x02\x03\x00", b"\x00\xff"), (b"\x01\x02\x03", b"\x00")]):
            p1 = os.path.join(tmp, f"blob1.{fmt}")
            write_store(blob_store(b1, b2), fmt, p1)
            raised, statuses, overall = call(two[fn], p0, p1)
            tried += 1
            chk.seen(("blob-mut", k, fmt), nontrivial=True)
            chk.count("perturbation=blob-bytes")
            if raised is not None:
                report_raise(chk, fn, raised, esc_model, {"input_kind": "blob perturbation"})
            elif overall == 0:
                undetected += 1
                chk.fail("C20:equivalence:undetected-perturbation:Blob.value", f"two {fmt} files differing in one byte of a "
                         f"Blob compare as equal: steps {statuses}", {"blob": [b1.hex(), b2.hex()], "format": fmt})
        ps = os.path.join(tmp, f"special.{fmt}")
        specials = [("nan", float("nan")), ("inf", float("inf")), ("ninf", float("-inf")), ("nzero", -0.0)]
        write_store(model.DictObjectStore([model.Submodel("urn:typed:special", [
            model.Property(n, model.datatypes.Double, v) for n, v in specials])]), fmt, ps)
        raised, statuses, overall = call(two[fn], ps, ps)
        chk.seen(("special-self", fmt), nontrivial=True)
        if raised is not None:
            report_raise(chk, fn, raised, esc_model, {"input_kind": "special float values twice"})
        elif overall != 0:
            chk.fail("C20:equivalence:equal-data-rejected:NaN", f"a {fmt} file holding xs:double NaN / INF / -INF / -0 compared "
                     f"with itself: steps {statuses}", {"special": [n for n, _ in specials], "format": fmt})
    chk.cov["typed_perturbations_tried"] = tried
    chk.cov["typed_perturbations_undetected"] = undetected
    chk.cov["typed_perturbed_files_rejected_by_reader"] = rejected



# ------------------------------------------------------------------ the check

def run(chk):
    rng = chk.rng
    quick = chk.tier == "quick"
    del REPORT_ISSUES[:]
    logging.disable(logging.NOTSET)
    logging.getLogger("basyx").addHandler(logging.NullHandler())   # SDK warnings about crafted inputs: not part of the verdict
    # --- tie T: regenerate the tables from the current sources
    gen = None
    try:
        from py2coq import compliance
        gen = compliance.regenerate()
    except Exception as e:   # TranslationError or anything else: the obligation no longer checks
        chk.tie_broken("translator", f"{type(e).__name__}: {e}")
    chk.theorems("props.C20", THEOREMS, ["theories/props/C20.vo", "theories/model/ComplianceObs.vo"])

    # --- model values needed below
    esc_model, compared_model = {}, {}
    try:
        txt = common.coq_eval("C20a", PRELUDE, "(map (fun f => (f, enc_esc (escapes functions checker_raises fuel f))) public_functions, "
                              "subclass_table, map (fun r => (fst (fst r), compared checker_methods 6 (snd (fst r)))) class_table)")
        body = txt.split(":", 1)[0] if False else txt
        for m in re.finditer(r'\("([a-z_.]+)",\s*\[([^\]]*)\]\)', body):
            nums = [int(x) for x in re.findall(r"-?\d+", m.group(2))]
            if "." in m.group(1) and m.group(1).split(".")[0] in ("json", "xml", "aasx"):
                esc_model[m.group(1)] = None if nums[:1] != [0] else {EXC_ORDER[k] for k in nums[1:]}
        for m in re.finditer(r'\("([A-Z][A-Za-z0-9]+)",\s*\[([^\]]*)\]\)', body):
            compared_model[m.group(1)] = set(re.findall(r'"([a-z_0-9]+)"', m.group(2)))
        tab = re.search(r"\[\[[01;\s\]\[]+\]\]", body)
        rows = [[int(x) for x in re.findall(r"[01]", r)] for r in re.findall(r"\[([01;\s]+)\]", tab.group(0))] if tab else []
        cls = exc_classes()
        want = [[1 if issubclass(a, b) else 0 for b in cls] for a in cls]
        if rows != want:
            chk.tie_broken("translator-validation:subclass-table", {"model": rows, "python": want})
    except Exception as e:
        chk.tie_broken("model-evaluation", f"{type(e).__name__}: {e}")
    if len(esc_model) < 12 or len(compared_model) < 20:
        chk.tie_broken("model-evaluation", {"functions": sorted(esc_model), "classes": sorted(compared_model)})

    # --- tie C: state manager
    mcases = [gen_mops(rng) for _ in range(400 if quick else 4000)]
    mterms = []
    for ops in mcases:
        tr, fail = run_mgr(ops)
        chk.seen(("mgr", ops), nontrivial=len(ops) >= 3)
        chk.count("manager-sequences")
        if fail:
            chk.fail("C20:status-not-worst", fail, {"ops": ops, "how": "tools/c20.py run_mgr(ops)"})
        mterms.append("(" + coq_list(coq_mop(o) for o in ops) + ", " + coq_z(common.zhash_d(tr, 2)) + ")")
    bad, errs = common.run_mismatch_shards("C20m", PRELUDE, mterms, "check_mgr", shard=500)
    chk.traces = common.run_mismatch_shards.evaluated - len(bad)
    for e in errs:
        chk.tie_broken("correspondence-run", e)
    if bad:
        ops = mcases[bad[0]]
        chk.tie_broken("correspondence-state-manager", {"n": len(bad), "ops": ops, "sdk_trace": run_mgr(ops)[0],
                                                        "model_trace": common.coq_eval("C20m", PRELUDE, "mtrace [] " + coq_list(coq_mop(o) for o in ops))})

    # --- the check functions on files
    os.makedirs(os.path.join(common.VERIF, "work"), exist_ok=True)      # git-ignored scratch space
    tmp = tempfile.mkdtemp(prefix="c20-", dir=os.path.join(common.VERIF, "work"))
    try:
        check_files(chk, rng, quick, tmp, esc_model, compared_model)
        check_typed_values(chk, rng, quick, tmp, esc_model)
        check_history(chk, rng, quick, tmp, esc_model)
        seen_issue = set()
        for fname, inputs, k, statuses in REPORT_ISSUES:
            if fname not in seen_issue:
                seen_issue.add(fname)
                chk.fail(f"C20:report:error-record-under-success-step:{fname}",
                         f"{fname}({', '.join(inputs)}): step {k} has status SUCCESS but carries an ERROR log record; "
                         f"steps {statuses}", {"function": fname, "inputs": inputs})
        chk.cov["report_consistency_issues"] = len(REPORT_ISSUES)
    finally:
        shutil.rmtree(tmp, ignore_errors=True)
    chk.trusted = [
        "Coq 8.16.1 kernel (coqc, vm_compute for the finite table checks and the correspondence; no native_compute)",
        "tools/py2coq/compliance.py (fail-closed ast translator), validated on every run against issubclass and "
        "against single-leaf mutation experiments",
        "model/Compliance.v:raises - hand-written table of what each callee can raise; every exception observed "
        "leaving a check function must be in the model's escape set",
        "the state-manager model, tied by differential execution of operation sequences",
        "jsonschema / lxml schema validation, the JSON/XML readers (C09) and AASXReader (C08) are not modelled",
        "tools/c20.py (generators, mutation operator, oracle), tools/common.py",
    ]
    chk.assumptions = ["the raise table is complete for the callees it lists", "metamodel attributes = constructor "
                       "parameters of the SDK classes", "the schema files shipped with the tool are present and valid"]
    return chk.finish(level="proof",
                      rule="state manager: seeded operation sequences (<= 12 ops); check functions: arbitrary bytes, "
                           "well-formed non-AAS documents, damaged SDK-written JSON/XML/AASX (6 damage operators), "
                           "crafted AASX packages, SDK-written files of 5 example stores in JSON/XML/AASX, shuffled "
                           "copies, single-leaf mutations of the full example, and minimal perturbations (next float up/down, "
                           "one more decimal digit, +-1, +1 microsecond / day, one character changed/added incl. a "
                           "trailing space, bool flipped, one byte changed/added) of one typed value per xsd type x "
                           "carrier (Property at 6 nesting positions, Range min/max, Qualifier, Extension, Blob) in JSON "
                           "and XML as second file; removal of one member of one JSON object (set -> absent) compared in both "
                           "directions; a history of >= 100 calls of all functions in one process with fresh state managers, "
                           "alternating formats and good / truncated / broken-object / missing inputs, each verdict compared "
                           "with the verdict of the same call as first call of a process; non-trivial = a "
                           "manager sequence of >= 3 ops or a function call that produced a report")


def report_raise(chk, fname, e, esc_model, replay):
    name = model_exc_name(e)
    allowed = esc_model.get(fname)
    if allowed is not None and name not in allowed and not any(
            issubclass(type(e), c) for n, c in zip(EXC_ORDER, exc_classes()) if n in allowed):
        chk.tie_broken("raise-table-incomplete", {"function": fname, "raised": type(e).__name__, "as": name,
                                                  "model_escapes": sorted(allowed), "input": replay})
    chk.fail(f"C20:raises:{fname}:{type(e).__name__}", f"{fname} raised {type(e).__name__}: {str(e)[:200]}", replay)


def check_files(chk, rng, quick, tmp, esc_model, compared_model):
    one, two = functions()
    stores = example_stores()
    seq = [0]

    def wf(data, ext):
        seq[0] += 1
        p = os.path.join(tmp, f"f{seq[0]}.{ext}")
        with open(p, "wb") as f:
            f.write(data)
        return p

    def run_one(fname, path, kind, expect_success=False, data=None, expect_not_success=False):
        raised, statuses, overall = call(one[fname], path)
        if os.environ.get("C20_TRACE"):
            import hashlib
            with open(os.environ["C20_TRACE"], "a") as tf:
                tf.write(f"{fname} {kind} {hashlib.md5(open(path, 'rb').read()).hexdigest() if os.path.isfile(path) else '-'} "
                         f"{type(raised).__name__ if raised else None} {statuses}\n")
        chk.seen((fname, kind, seq[0]), nontrivial=bool(statuses))
        chk.count(f"input={kind}")
        chk.count("verdict=" + ("raised" if raised is not None else str(overall)))
        rp = {"function": fname, "input_kind": kind, "bytes_hex": data[:4000].hex() if data is not None else None,
              "how": "tools/c20.py replay: writes the bytes to a temp file and calls the function"}
        if raised is not None:
            report_raise(chk, fname, raised, esc_model, rp)
            return
        if not statuses:
            chk.fail(f"C20:no-report:{fname}", f"{fname} returned without adding a step", rp)
        if overall != max(statuses, default=0):
            chk.fail("C20:status-not-worst", f"{fname}: overall {overall}, steps {statuses}", rp)
        if expect_success and overall != 0:
            chk.fail(f"C20:own-output-rejected:{fname}:{kind}", f"{fname} on an SDK-written file: steps {statuses}", rp)
        if expect_not_success and overall == 0:
            chk.fail(f"C20:invalid-input-accepted:{fname}:{kind}", f"{fname} on {kind}: steps {statuses}", rp)

    by_fmt = {"json": [f for f in one if f.startswith("json.")], "xml": [f for f in one if f.startswith("xml.")],
              "aasx": [f for f in one if f.startswith("aasx.")]}
    # 1. arbitrary bytes and well-formed non-AAS documents, through every function
    blobs = [b"", b"\xff\xfe\x00abc\x80", b'{"assetAdministrationShells": [', b"[1,2]", b'"x"', b'{"a": 1}', b"null",
             b"<a><b/></a>", b"<a><b>", b"<?xml version='1.0'?><environment xmlns='https://admin-shell.io/aas/3/0'/>",
             b'{"submodels": [{"modelType": "Submodel"}]}', b'{"submodels": 5}', b"PK\x03\x04garbage",
             b"[" * 3000 + b"]" * 3000, b"\xef\xbb\xbf{}", b'{"assetAdministrationShells": [], "x": "\\ud800"}',
             # literals the json module refuses or mangles: an integer beyond the int/str conversion limit, huge exponents
             b'{"assetAdministrationShells": [], "x": ' + b"1" * 5000 + b"}", b'{"x": 1e999999, "y": -1E-999999}',
             b'{"x": NaN, "y": Infinity, "z": -Infinity}']
    for _ in range(10 if quick else 60):
        blobs.append(bytes(rng.randrange(256) for _ in range(rng.randint(1, 200))))
    for data in blobs:
        for ext, fns in by_fmt.items():
            p = wf(data, ext)
            for fname in fns:
                run_one(fname, p, "arbitrary-bytes", data=data)
    missing = os.path.join(tmp, "does-not-exist")
    for fname in one:
        run_one(fname, missing, "missing-file")
        run_one(fname, tmp, "directory")
    # 2. SDK-written files: must pass schema + deserialisation; damaged copies: a verdict, never an exception
    written = {}
    for sname, st in stores.items():
        for fmt in ("json", "xml", "aasx-json", "aasx-xml"):
            ext = fmt.split("-")[0]
            p = os.path.join(tmp, f"{sname}.{fmt}.{ext}")
            write_store(st, fmt, p)
            written[(sname, fmt)] = p
            for fname in by_fmt[ext]:
                if fname.endswith("check_aas_example"):
                    continue
                run_one(fname, p, f"sdk-written:{fmt}", expect_success=True)
            data = canonical_bytes(p, fmt)      # same data, process-independent bytes
            pc = wf(data, ext)
            for fname in by_fmt[ext]:
                if not fname.endswith("check_aas_example"):
                    run_one(fname, pc, f"canonical-rendering:{fmt}", expect_success=True)
            for _ in range(3 if quick else 25):
                d = damage(rng, data)
                pd = wf(d, ext)
                for fname in by_fmt[ext]:
                    run_one(fname, pd, f"damaged:{fmt}", data=d)
    # check_aas_example on the example it is meant for
    for fmt, fname in (("json", "json.check_aas_example"), ("xml", "xml.check_aas_example")):
        run_one(fname, written[("all", fmt)], f"example:{fmt}", expect_success=True)
    # 3. crafted AASX packages
    for kind, p in crafted_aasx(tmp).items():
        for fname in by_fmt["aasx"]:
            run_one(fname, p, kind, expect_not_success=(fname == "aasx.check_schema" and "schema-invalid" in kind))
        raised, statuses, overall = call(two["aasx.check_aasx_files_equivalence"], p, p)
        chk.seen(("aasx-equiv", kind), nontrivial=bool(statuses))
        if raised is not None:
            report_raise(chk, "aasx.check_aasx_files_equivalence", raised, esc_model, {"input_kind": kind, "both": True})
    # 4. equivalence: same data, other order -> SUCCESS; unordered list; different files
    full_json = canonical_doc(json.load(open(written[("full", "json")], encoding="utf-8")))

    def dump(doc, name):
        p = os.path.join(tmp, name)
        with open(p, "w", encoding="utf-8") as f:
            json.dump(doc, f)
        return p
    # same data, other element order: every collection without an order in the metamodel is permuted (and the
    # members of every JSON object); ordered ones (keys of a reference, SubmodelElementList.value, operation
    # variables) are left alone
    from basyx.aas.adapter.json import read_aas_json_file as _read_json
    coll_path = os.path.join(tmp, "collections.json")
    write_store(collections_store(), "json", coll_path)
    sources = {"full": (full_json, written[("full", "json")]),
               "collections": (canonical_doc(json.load(open(coll_path, encoding="utf-8"))), coll_path),
               "example": (canonical_doc(json.load(open(written[("all", "json")], encoding="utf-8"))),
                           written[("all", "json")])}
    xml_of = {}
    for sname, (doc, pjson) in sources.items():
        with open(pjson, encoding="utf-8") as f:
            st = _read_json(f)
        xml_of[sname] = os.path.join(tmp, f"perm-src-{sname}.xml")
        write_store(st, "xml", xml_of[sname])
    for k in range(4 if quick else 24):
        for sname, (doc, pjson) in sources.items():
            permuted = {}
            d = permute_unordered(doc, rng, stats=permuted)
            for key, cnt in permuted.items():
                chk.count("permuted:" + key, cnt)
            p2 = dump(d, f"shuffled-{sname}{k}.json")
            with open(p2, encoding="utf-8") as f:
                st2 = _read_json(f)
            px2 = os.path.join(tmp, f"shuffled-{sname}{k}.xml")
            write_store(st2, "xml", px2)
            runs = [("json.check_json_files_equivalence", two["json.check_json_files_equivalence"], (pjson, p2)),
                    ("xml.check_xml_files_equivalence", two["xml.check_xml_files_equivalence"], (xml_of[sname], px2))]
            if sname == "example":
                runs += [("json.check_aas_example", one["json.check_aas_example"], (p2,)),
                         ("xml.check_aas_example", one["xml.check_aas_example"], (px2,))]
            for fname, fn, args in runs:
                raised, statuses, overall = call(fn, *args)
                chk.seen(("equiv-shuffled", sname, k, fname), nontrivial=True)
                chk.count("equivalence=shuffled")
                rp = {"input_kind": "permuted", "store": sname, "function": fname,
                      "how": "tools/c20.py: permute_unordered(doc, rng) of the SDK-written store, compared with the original"}
                if raised is not None:
                    report_raise(chk, fname, raised, esc_model, rp)
                elif overall != 0:
                    # which collection is it?  permute one kind of collection at a time
                    culprits = []
                    for key in sorted(permuted):
                        d1 = permute_unordered(doc, rng, only=key)
                        p3 = dump(d1, "shuffled-one.json")
                        if fname.startswith("xml."):
                            with open(p3, encoding="utf-8") as f:
                                st3 = _read_json(f)
                            p3 = os.path.join(tmp, "shuffled-one.xml")
                            write_store(st3, "xml", p3)
                        r1, s1, o1 = call(fn, *(args[:-1] + (p3,)))
                        if r1 is None and o1 != 0:
                            culprits.append(key)
                    for key in culprits or ["?"]:
                        chk.fail(f"C20:equivalence:equal-data-rejected:permuted:{key}",
                                 f"{fname}: the {sname} store and a copy with its {key} lists permuted are reported as "
                                 f"different: steps {statuses}", dict(rp, permuted_only=key))
    for (sname, fmt), p in written.items():
        ext = fmt.split("-")[0]
        fname = {"json": "json.check_json_files_equivalence", "xml": "xml.check_xml_files_equivalence",
                 "aasx": "aasx.check_aasx_files_equivalence"}[ext]
        raised, statuses, overall = call(two[fname], p, p)
        chk.seen(("equiv-self", sname, fmt), nontrivial=True)
        chk.count("equivalence=self")
        if raised is not None:
            report_raise(chk, fname, raised, esc_model, {"input_kind": f"{sname}.{fmt} twice"})
        elif overall != 0:
            chk.fail(f"C20:equivalence:equal-data-rejected:{fmt}", f"{sname}.{fmt} compared with itself: steps {statuses}",
                     {"input_kind": f"{sname}.{fmt} twice"})
        other = written[("mandatory" if sname != "mandatory" else "full", fmt)]
        raised, statuses, overall = call(two[fname], p, other)
        if raised is None and overall == 0 and sname != "empty":
            chk.fail("C20:equivalence:different-files-accepted", f"{sname} vs another store in {fmt}: SUCCESS", {})
    # unordered SubmodelElementLists: AASDataChecker refuses them (NotImplementedError); the comparing functions
    # must report that as a step, never raise.  Equal data reported as FAILED is the (open) verdict defect.
    eq_fn = {"json": "json.check_json_files_equivalence", "xml": "xml.check_xml_files_equivalence",
             "aasx": "aasx.check_aasx_files_equivalence"}
    for fmt in ("json", "xml", "aasx-json"):
        ext = fmt.split("-")[0]
        pu = os.path.join(tmp, "unordered." + ext)
        write_store(unordered_list_store(), fmt, pu)
        raised, statuses, overall = call(two[eq_fn[ext]], pu, pu)
        chk.seen(("equiv-unordered", fmt), nontrivial=True)
        chk.count("equivalence=unordered-list")
        rp = {"input_kind": f"SubmodelElementList with orderRelevant=false in {fmt}, compared with itself"}
        if raised is not None:
            report_raise(chk, eq_fn[ext], raised, esc_model, rp)
        elif overall != 0:
            chk.fail(f"C20:equivalence:equal-data-rejected:unordered-list:{ext}",
                     f"{eq_fn[ext]}: a file holding a SubmodelElementList with orderRelevant=false compared with "
                     f"itself: steps {statuses}", rp)
        # DIFFERENT data around the unordered list (before it, inside it, after it in the same submodel, in the next
        # submodel): whatever the checker's refusal does to the report, the verdict must not be SUCCESS
        pbag = os.path.join(tmp, "unordered-bag." + ext)
        write_store(unordered_list_store(inside=[1, 1, 2]), fmt, pbag)
        for where, kw, base in (("before", {"before": 5}, pu), ("inside", {"inside": 5}, pu), ("after", {"after": 5}, pu),
                                # the same members with other multiplicities: equal as sets, different as bags
                                ("bag-inside", {"inside": [1, 2, 2]}, pbag), ("longer-inside", {"inside": [1, 1, 2, 2]}, pbag)):
            pd = os.path.join(tmp, f"unordered-{where}." + ext)
            write_store(unordered_list_store(**kw), fmt, pd)
            for a, b, direction in ((base, pd, "ab"), (pd, base, "ba")):
                raised, statuses, overall = call(two[eq_fn[ext]], a, b)
                chk.seen(("equiv-unordered-diff", fmt, where, direction), nontrivial=True)
                chk.count("equivalence=different-data-around-unordered-list")
                rp2 = {"input_kind": f"unordered-list-different in {fmt},", "where": where, "direction": direction}
                if raised is not None:
                    report_raise(chk, eq_fn[ext], raised, esc_model, rp2)
                elif overall == 0:
                    chk.fail(f"C20:equivalence:different-data-accepted:{where}-unordered-list:{ext}",
                             f"{eq_fn[ext]}: two files that differ in a property {where} a SubmodelElementList with "
                             f"orderRelevant=false are reported as equal: steps {statuses}", rp2)
    # check_aas_example on the example data with its lists made unordered: FAILED is the right verdict
    from basyx.aas.adapter.json import read_aas_json_file
    from basyx.aas.examples.data import create_example, create_example_aas_binding

    def unordered_copy(store, name):
        p = os.path.join(tmp, name + ".src.json")
        write_store(store, "json", p)
        doc = json.load(open(p, encoding="utf-8"))
        n = [0]

        def flip(x):
            if isinstance(x, dict):
                if x.get("modelType") == "SubmodelElementList":
                    x["orderRelevant"] = False
                    n[0] += 1
                for v in x.values():
                    flip(v)
            elif isinstance(x, list):
                for v in x:
                    flip(v)
        flip(doc)
        p2 = os.path.join(tmp, name + ".unordered.json")
        json.dump(doc, open(p2, "w", encoding="utf-8"))
        return p2, n[0]
    pj, nlists = unordered_copy(create_example(), "example")
    chk.cov["example_lists_made_unordered"] = nlists
    with open(pj, encoding="utf-8") as f:
        st_u = read_aas_json_file(f)
    px = os.path.join(tmp, "example.unordered.xml")
    write_store(st_u, "xml", px)
    pb, _ = unordered_copy(create_example_aas_binding(), "binding")
    with open(pb, encoding="utf-8") as f:
        st_b = read_aas_json_file(f)
    pa = os.path.join(tmp, "example.unordered.aasx")
    write_store(st_b, "aasx-xml", pa)
    for fname, p in (("json.check_aas_example", pj), ("xml.check_aas_example", px), ("aasx.check_aas_example", pa)):
        raised, statuses, overall = call(one[fname], p)
        chk.seen(("example-unordered", fname), nontrivial=True)
        chk.count("input=example-with-unordered-lists")
        rp = {"function": fname, "input_kind": "the example data with orderRelevant=false on its lists"}
        if raised is not None:
            report_raise(chk, fname, raised, esc_model, rp)
        elif overall == 0 and nlists:
            chk.fail(f"C20:example:unordered-lists-accepted:{fname}", f"{fname}: data differing from the example in "
                     f"orderRelevant reported as SUCCESS", rp)
        elif overall != max(statuses, default=0):
            chk.fail("C20:status-not-worst", f"{fname}: overall {overall}, steps {statuses}", rp)
    # 5. single-leaf mutations of the full example as the second file
    pdir = os.path.join(tmp, "directed.json")
    write_store(directed_store(), "json", pdir)
    directed_json = canonical_doc(json.load(open(pdir, encoding="utf-8")))
    bases = {"full": (full_json, written[("full", "json")]), "directed": (directed_json, pdir)}
    all_leaves = [("full", p, fr) for p, fr in leaves(full_json)
                  if p and p[-1] not in SKIP_KEYS and fr and fr[-1][1] is not None]
    directed_leaves = [("directed", p, fr) for p, fr in leaves(directed_json)
                       if p and p[-1] not in SKIP_KEYS and fr and fr[-1][1] is not None]
    # a fixed enumeration in both tiers: every scalar leaf of both documents, in document order (no sampling, so
    # that no attribute - e.g. administration.templateId - is covered in one run and missed in another)
    all_leaves = all_leaves + directed_leaves
    chk.cov["mutation_targets"] = len({(fr[-1][0],) + tuple(k for k in p if isinstance(k, str))[-4:]
                                       for _, p, fr in all_leaves})
    undetected = {}
    nmut = 0
    for base, path, frames in all_leaves:
        base_doc, base_path = bases[base]
        d = mutate_leaf(base_doc, path)
        if d is None:
            continue
        nmut += 1
        p2 = dump(d, "mut.json")
        raised, statuses, overall = call(two["json.check_json_files_equivalence"], base_path, p2)
        chk.seen(("mutation", base, path), nontrivial=True)
        chk.count("mutations")
        label = f"{frames[-1][0]}.{frames[-1][1]}"
        if raised is not None:
            report_raise(chk, "json.check_json_files_equivalence", raised, esc_model,
                         {"input_kind": "mutation", "path": list(path)})
            continue
        detected = overall != 0          # any verdict other than SUCCESS
        loaded = len(statuses) >= 4 and statuses[1] == 0 and statuses[3] == 0
        # translator validation: the model predicts detection from the compared-attribute table - the leaf is
        # seen iff every object on the way down compares the attribute the leaf lives under
        if all(c in compared_model for c, _ in frames) and loaded:
            pred = all(a in compared_model[c] for c, a in frames)
            if pred != detected:
                chk.tie_broken("translator-validation:compared-attributes",
                               {"store": base, "leaf": list(path), "frames": [list(f) for f in frames], "model_says_compared": pred,
                                "checker_detected": detected})
        if not detected:
            undetected.setdefault(label, (base, list(path)))
    chk.cov["single_leaf_mutations_tried"] = nmut
    chk.cov["undetected_mutation_classes"] = sorted(undetected)
    for label, (base, path) in undetected.items():
        chk.fail(f"C20:equivalence:undetected:{label}",
                 f"the {base} store and a copy differing only in {label} (JSON path {path}) compare as equal",
                 {"store": base, "path": path,
                  "how": "tools/c20.py replay: mutates that leaf of the SDK-written store and compares the two files"})
    # 6. "set -> absent": one member of one JSON object removed in the second file (an optional attribute dropped,
    #    or a mandatory one - then the reader rejects the file), compared in both directions.  Never an exception;
    #    and when the SDK itself reads the two files as different data, never SUCCESS.
    from basyx.aas.adapter.json import read_aas_json_file as _rj

    def reread(p):
        logging.disable(logging.CRITICAL)       # the failsafe reader's complaints about reduced files are expected
        try:
            with open(p, encoding="utf-8") as f:
                st = _rj(f, failsafe=True)
            pr = os.path.join(tmp, "reread.json")
            write_store(st, "json", pr)
            return json.dumps(canonical_doc(json.load(open(pr, encoding="utf-8"))), sort_keys=True)
        except Exception as e:      # the reader's own business (C09); then no statement about equal data is made
            return ("unreadable", type(e).__name__)
        finally:
            logging.disable(logging.NOTSET)
    targets, seen_t = [], set()
    for base, doc in (("full", full_json), ("directed", directed_json)):
        for path, key, frames in member_keys(doc):
            if key == "modelType" or not frames:
                continue
            t = (frames[-1][0],) + tuple(k for k in path if isinstance(k, str))[-3:] + (key,)
            if quick and t in seen_t:
                continue                      # quick tier: the first object of each (class, key path) in document order
            seen_t.add(t)
            targets.append((base, path, key, frames))
    base_reread = {b: reread(bases[b][1]) for b in bases}
    ndel = 0
    for base, path, key, frames in targets:
        base_doc, base_path = bases[base]
        d = copy.deepcopy(base_doc)
        cur = d
        for k in path:
            cur = cur[k]
        del cur[key]
        p2 = dump(d, "del.json")
        same_data = None
        ndel += 1
        chk.count("deletions")
        for first, second, direction in ((base_path, p2, "original-vs-reduced"), (p2, base_path, "reduced-vs-original")):
            raised, statuses, overall = call(two["json.check_json_files_equivalence"], first, second)
            chk.seen(("deletion", base, path, key, direction), nontrivial=True)
            label = f"{frames[-1][0]}.{snake(key) if len(path) == 0 or True else key}"
            rp = {"input_kind": "deletion", "store": base, "path": list(path), "key": key, "direction": direction,
                  "how": "tools/c20.py replay: removes that member from the SDK-written store's JSON and compares"}
            if raised is not None:
                report_raise(chk, "json.check_json_files_equivalence", raised, esc_model, rp)
            elif overall == 0 and not (same_data if same_data is not None else
                                       (same_data := reread(p2) == base_reread[base])):
                chk.fail(f"C20:equivalence:undetected-removal:{label}",
                         f"the {base} store and a copy without the member {key!r} at {list(path)} ({direction}) compare as "
                         f"equal although the SDK reads them as different data", rp)
    chk.cov["member_removals_tried"] = ndel


def replay(path):
    r = json.load(open(path))
    rp = r.get("replay") or {}
    print(json.dumps({k: v for k, v in r.items() if k != "replay"}, indent=1)[:1500])
    one, two = functions()
    os.makedirs(os.path.join(common.VERIF, "work"), exist_ok=True)
    tmp = tempfile.mkdtemp(prefix="c20-replay-", dir=os.path.join(common.VERIF, "work"))
    try:
        if rp.get("bytes_hex") is not None and rp.get("function") in one:
            ext = rp["function"].split(".")[0]
            p = os.path.join(tmp, "input." + ext)
            open(p, "wb").write(bytes.fromhex(rp["bytes_hex"]))
            raised, statuses, overall = call(one[rp["function"]], p)
            print("raised:", repr(raised), "steps:", statuses, "overall:", overall)
            return 1 if raised is not None or overall != max(statuses, default=0) else 0
        kind = rp.get("input_kind") or ""
        if kind == "history":
            files = history_files(tmp)

            def run(fname, kinds, cleanup):
                ext = fname.split(".")[0]
                fn = one.get(fname) or two[fname]
                raised, statuses, overall = call(fn, *[files[ext][k] for k in kinds], cleanup=cleanup)
                return type(raised).__name__ if raised is not None else None, statuses
            detach_managers()
            for fname, kinds in rp["earlier_calls"]:
                run(fname, kinds, False)
            got = run(rp["function"], rp["inputs"], False)
            detach_managers()
            want = run(rp["function"], rp["inputs"], True)
            print("after the earlier calls:", got, " as first call:", want)
            return 0 if got == want and got[0] is None else 1
        if kind == "deletion":
            st = directed_store() if rp.get("store") == "directed" else example_stores()["full"]
            p1 = os.path.join(tmp, "a.json")
            write_store(st, "json", p1)
            d = canonical_doc(json.load(open(p1, encoding="utf-8")))
            cur = d
            for k in rp["path"]:
                cur = cur[k]
            del cur[rp["key"]]
            p2 = os.path.join(tmp, "b.json")
            json.dump(d, open(p2, "w", encoding="utf-8"))
            a, b = (p1, p2) if rp.get("direction") != "reduced-vs-original" else (p2, p1)
            raised, statuses, overall = call(two["json.check_json_files_equivalence"], a, b)
            print("raised:", repr(raised), "steps:", statuses, "overall:", overall)
            return 1 if raised is not None else 0
        if kind == "permuted":
            import random
            from basyx.aas.adapter.json import read_aas_json_file
            src = {"full": lambda: example_stores()["full"], "collections": collections_store,
                   "example": lambda: example_stores()["all"]}[rp["store"]]()
            p0 = os.path.join(tmp, "a.json")
            write_store(src, "json", p0)
            doc = canonical_doc(json.load(open(p0, encoding="utf-8")))
            p1 = os.path.join(tmp, "b.json")
            json.dump(permute_unordered(doc, random.Random(0), only=rp.get("permuted_only")), open(p1, "w", encoding="utf-8"))
            fn = rp["function"]
            if fn.startswith("xml."):
                paths = []
                for p in (p0, p1):
                    with open(p, encoding="utf-8") as f:
                        st = read_aas_json_file(f)
                    write_store(st, "xml", p[:-4] + "xml")
                    paths.append(p[:-4] + "xml")
                p0, p1 = paths
            raised, statuses, overall = call(two[fn], p0, p1) if fn in two else call(one[fn], p1)
            print(fn, "raised:", repr(raised), "steps:", statuses, "overall:", overall)
            return 1 if raised is not None or overall != 0 else 0
        if kind.startswith("unordered-list-different"):
            fmt = next(f for f in ("aasx-json", "json", "xml") if f" in {f}," in kind)
            ext = fmt.split("-")[0]
            pa, pb = os.path.join(tmp, "u0." + ext), os.path.join(tmp, "u1." + ext)
            kws = {"before": ({}, {"before": 5}), "inside": ({}, {"inside": 5}), "after": ({}, {"after": 5}),
                   "bag-inside": ({"inside": [1, 1, 2]}, {"inside": [1, 2, 2]}),
                   "longer-inside": ({"inside": [1, 1, 2]}, {"inside": [1, 1, 2, 2]})}[rp["where"]]
            write_store(unordered_list_store(**kws[0]), fmt, pa)
            write_store(unordered_list_store(**kws[1]), fmt, pb)
            fn = {"json": "json.check_json_files_equivalence", "xml": "xml.check_xml_files_equivalence",
                  "aasx": "aasx.check_aasx_files_equivalence"}[ext]
            a, b = (pa, pb) if rp.get("direction") != "ba" else (pb, pa)
            raised, statuses, overall = call(two[fn], a, b)
            print(fn, "raised:", repr(raised), "steps:", statuses, "overall:", overall)
            return 1 if raised is not None or overall == 0 else 0
        if "orderRelevant=false" in kind:
            from basyx.aas.adapter.json import read_aas_json_file
            from basyx.aas.examples.data import create_example, create_example_aas_binding
            if "compared with itself" in kind:
                fmt = next(f for f in ("aasx-json", "json", "xml") if f" in {f}," in kind)
                ext = fmt.split("-")[0]
                p = os.path.join(tmp, "unordered." + ext)
                write_store(unordered_list_store(), fmt, p)
                fn = {"json": "json.check_json_files_equivalence", "xml": "xml.check_xml_files_equivalence",
                      "aasx": "aasx.check_aasx_files_equivalence"}[ext]
                raised, statuses, overall = call(two[fn], p, p)
            else:
                fn = rp["function"]
                ext = fn.split(".")[0]
                src = create_example_aas_binding() if ext == "aasx" else create_example()
                p0 = os.path.join(tmp, "src.json")
                write_store(src, "json", p0)
                doc = json.load(open(p0, encoding="utf-8"))

                def flip(x):
                    if isinstance(x, dict):
                        if x.get("modelType") == "SubmodelElementList":
                            x["orderRelevant"] = False
                        for v in x.values():
                            flip(v)
                    elif isinstance(x, list):
                        for v in x:
                            flip(v)
                flip(doc)
                p = os.path.join(tmp, "u.json")
                json.dump(doc, open(p, "w", encoding="utf-8"))
                if ext != "json":
                    with open(p, encoding="utf-8") as f:
                        st = read_aas_json_file(f)
                    p = os.path.join(tmp, "u." + ext)
                    write_store(st, "xml" if ext == "xml" else "aasx-xml", p)
                raised, statuses, overall = call(one[fn], p)
            print(fn, "raised:", repr(raised), "steps:", statuses, "overall:", overall)
            return 1 if raised is not None or ("compared with itself" in kind and overall != 0) else 0
        if "typed" in rp and "carrier" in rp:
            typ, vals, perturb = typed_bases()[rp["typed"]]
            base = {(bi, c): v for bi, v in enumerate(vals) for c in CARRIERS}
            key = (rp["base_index"], rp["carrier"])
            alt = next(a for a in perturb(base[key]) if repr(a) == rp["perturbed"])
            fn = {"json": "json.check_json_files_equivalence", "xml": "xml.check_xml_files_equivalence"}[rp["format"]]
            p0, p1 = os.path.join(tmp, "a." + rp["format"]), os.path.join(tmp, "b." + rp["format"])
            write_store(typed_store(rp["typed"], typ, base), rp["format"], p0)
            write_store(typed_store(rp["typed"], typ, dict(base, **{})) if False else
                        typed_store(rp["typed"], typ, {**base, key: alt}), rp["format"], p1)
            raised, statuses, overall = call(two[fn], p0, p1)
            print(f"{base[key]!r} vs {alt!r}: raised:", repr(raised), "steps:", statuses, "overall:", overall)
            return 0 if raised is None and overall == 2 else 1
        if "path" in rp:
            st = directed_store() if rp.get("store") == "directed" else example_stores()["full"]
            p1 = os.path.join(tmp, "a.json")
            write_store(st, "json", p1)
            doc = canonical_doc(json.load(open(p1, encoding="utf-8")))
            d = mutate_leaf(doc, tuple(rp["path"]))
            p2 = os.path.join(tmp, "b.json")
            json.dump(d, open(p2, "w", encoding="utf-8"))
            raised, statuses, overall = call(two["json.check_json_files_equivalence"], p1, p2)
            print("raised:", repr(raised), "steps:", statuses, "overall:", overall)
            return 0 if raised is None and overall == 2 else 1
    finally:
        shutil.rmtree(tmp, ignore_errors=True)
    return 1
