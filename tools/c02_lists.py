"""C02, fragment 2: ConstrainedList with the hooks of Entity (AASd-014) and AssetInformation (AASd-131).
Operation sequences run on the real classes (public API only) and on model/ConstraintsModel.v; the oracle
checks AASd-014/-131 as written in constraints.rst after every accepted call and 'documented error + unchanged'
after every rejected one."""
import itertools

import common
from common import coq_z, coq_list

POOL_N = 4
GIDS = [None, "urn:g0", "urn:g1"]
BAD_GIDS = ["", "x" * 2001, "a\ud800"]


SEM_KINDS = ["Qualifier", "Extension", "Property", "Submodel", "SubmodelElementCollection", "Entity-sem",
             "SubmodelElementList", "Operation", "Property-listitem"]
# HasSemantics objects that can be put into / taken out of a namespace during a history ("contain" ops); the
# containment state is part of the model state for these kinds (etype of owner OSem)
ATTACHABLE = [k for k in SEM_KINDS if k != "Submodel"]


class Holder:
    """puts an object into a container of a kind suitable for it and takes it out again"""
    def __init__(self, kind, variant):
        from basyx.aas import model
        I = model.datatypes.Int
        self.kind = kind
        if kind == "Qualifier":
            self.owner = [model.Property("h", I), model.Submodel("urn:h"), model.SubmodelElementCollection("h")][variant % 3]
            self.set = self.owner.qualifier
        elif kind == "Extension":
            self.owner = [model.Submodel("urn:h"), model.Property("h", I)][variant % 2]
            self.set = self.owner.extension
        elif kind == "Property-listitem":
            self.owner = model.SubmodelElementList("h", model.Property, value_type_list_element=I)
            self.set = self.owner.value
        else:
            if variant % 3 == 0:
                self.owner = model.Submodel("urn:h")
                self.set = self.owner.submodel_element
            elif variant % 3 == 1:
                self.owner = model.SubmodelElementCollection("h")
                self.set = self.owner.value
            else:
                self.owner = model.Entity("h", model.EntityType.CO_MANAGED_ENTITY)
                self.set = self.owner.statement

    def contain(self, obj, flag):
        if flag and obj.parent is None:
            self.set.add(obj)
        elif not flag and obj.parent is not None:
            self.set.remove(obj)



def is_sem(kind):
    return kind in SEM_KINDS


def cnum(kind):
    return 14 if kind == "Entity" else 131 if kind == "AssetInformation" else 118


def pool(kind="Entity"):
    from basyx.aas import model
    if is_sem(kind):
        return [model.ExternalReference((model.Key(model.KeyTypes.GLOBAL_REFERENCE, f"urn:s{i}"),)) for i in range(POOL_N)]
    return [model.SpecificAssetId(f"n{i}", "v") for i in range(POOL_N)]


def sem_refs():
    from basyx.aas import model
    return [None] + [model.ExternalReference((model.Key(model.KeyTypes.GLOBAL_REFERENCE, f"urn:sem{i}"),)) for i in range(2)]


def attrs(kind):
    return ("semantic_id", "supplemental_semantic_id") if is_sem(kind) else ("global_asset_id", "specific_asset_id")


def construct(kind, t, g, items):
    from basyx.aas import model
    I = model.datatypes.Int
    if kind == "Entity":
        return model.Entity("e", model.EntityType.SELF_MANAGED_ENTITY if t else model.EntityType.CO_MANAGED_ENTITY,
                            global_asset_id=g, specific_asset_id=items)
    if kind == "AssetInformation":
        return model.AssetInformation(global_asset_id=g, specific_asset_id=items)
    kw = dict(semantic_id=g, supplemental_semantic_id=items)
    if kind == "Qualifier":
        return model.Qualifier("q", I, **kw)
    if kind == "Extension":
        return model.Extension("x", **kw)
    if kind == "Property":
        return model.Property("p", I, **kw)
    if kind == "Property-listitem":
        return model.Property(None, I, **kw)
    if kind == "Submodel":
        return model.Submodel("urn:sm", **kw)
    if kind == "SubmodelElementCollection":
        return model.SubmodelElementCollection("c", **kw)
    if kind == "Entity-sem":
        return model.Entity("e", model.EntityType.CO_MANAGED_ENTITY, **kw)
    if kind == "SubmodelElementList":
        return model.SubmodelElementList("l", model.Property, value_type_list_element=I, **kw)
    if kind == "Operation":
        return model.Operation("o", **kw)
    raise AssertionError(kind)


class OneShot:
    """an iterable that can be consumed exactly once and has no __len__ (like a generator)"""
    def __init__(self, xs):
        self.it = iter(list(xs))

    def __iter__(self):
        return self.it


N_FLAVOURS = 6


def ctor_flavour(fl):
    """fl: bits 0-1 and the container bits select one of the six argument flavours for the constructor"""
    return (fl % 4) if (fl // 4) % 2 else (fl % 4 + 2) % N_FLAVOURS


def as_arg(xs, flavour, kind="Entity"):
    """the same items as a list / generator / one-shot iterable / tuple / a ConstrainedList of the SDK itself /
    the live list attribute of a sibling object"""
    from basyx.aas import model
    flavour = flavour % N_FLAVOURS
    if flavour == 0:
        return list(xs)
    if flavour == 1:
        return (x for x in list(xs))
    if flavour == 2:
        return OneShot(xs)
    if flavour == 3:
        return tuple(xs)
    if flavour == 4:
        return model.ConstrainedList(list(xs))
    if is_sem(kind):
        sib = model.Qualifier("sibling", model.datatypes.Int, semantic_id=pool("Qualifier")[0],
                              supplemental_semantic_id=list(xs))
        return sib.supplemental_semantic_id
    return model.AssetInformation(global_asset_id="urn:sibling", specific_asset_id=list(xs)).specific_asset_id


# ---------------------------------------------------------------- generation

def gen_g(rng, allow_bad=True):
    r = rng.random()
    if r < 0.4:
        return ("none",)
    if r < 0.9 or not allow_bad:
        return ("ok", rng.randrange(2))
    return ("bad", rng.randrange(len(BAD_GIDS)))


def gen_xs(rng, maxn=3):
    n = rng.choice([0, 0, 1, 1, 2, maxn, 4])
    return [rng.randrange(POOL_N) for _ in range(n)]


def gen_idx(rng):
    return rng.randint(-5, 5)


def gen_bound(rng):
    return None if rng.random() < 0.4 else rng.randint(-5, 5)


def gen_op(rng, entity):
    k = rng.choice(["append", "insert", "extend", "iadd", "pop", "remove", "clear", "setitem", "delitem", "setslice",
                    "delslice", "setlist", "delxslice", "delxslice", "setgaid", "settype" if entity else "setgaid", "extendbad", "setslicebad",
                    "setlist", "setgaid", "clear", "pop"])
    fl = rng.randrange(N_FLAVOURS)
    if k == "append":
        return (k, rng.randrange(POOL_N))
    if k == "insert":
        return (k, gen_idx(rng), rng.randrange(POOL_N))
    if k in ("extend", "iadd", "setlist"):
        return (k, gen_xs(rng), fl)
    if k == "pop":
        return (k, None if rng.random() < 0.5 else gen_idx(rng))
    if k == "remove":
        return (k, rng.randrange(POOL_N))
    if k in ("clear", "extendbad"):
        return (k,)
    if k == "setitem":
        return (k, gen_idx(rng), rng.randrange(POOL_N))
    if k == "delitem":
        return (k, gen_idx(rng))
    if k == "setslice":
        return (k, gen_bound(rng), gen_bound(rng), gen_xs(rng), fl)
    if k in ("delslice", "setslicebad"):
        return (k, gen_bound(rng), gen_bound(rng))
    if k == "delxslice":
        b1, b2 = gen_bound(rng), gen_bound(rng)
        if rng.random() < 0.4:
            b1 = b2 = None
        return (k, b1, b2, rng.choice([2, -1, -2, 3, -3, -1, 0]))
    if k == "settype":
        return (k, rng.random() < 0.5)
    return ("setgaid", gen_g(rng))


def gen_case(rng, maxlen):
    r = rng.random()
    kind = "Entity" if r < 0.4 else "AssetInformation" if r < 0.65 else rng.choice(SEM_KINDS)
    entity = kind == "Entity"
    t = rng.random() < 0.6 if entity else (rng.random() < 0.5 if kind in ATTACHABLE else True)
    g = gen_g(rng, allow_bad=not is_sem(kind))
    xs = gen_xs(rng)
    if rng.random() < 0.7:     # bias towards constructible objects
        if entity and not t:
            g, xs = ("none",), []
        elif g == ("none",) and not xs and not is_sem(kind):
            xs = [0]
        elif is_sem(kind) and g == ("none",):
            xs = []
        if g[0] == "bad":
            g = ("ok", 0)
    ops = [gen_op(rng, entity) for _ in range(rng.randint(1, maxlen))]
    if is_sem(kind):
        ops = [o if not (o[0] == "setgaid" and o[1][0] == "bad") else ("setgaid", ("ok", 1)) for o in ops]
    if kind in ATTACHABLE:
        ops = [("contain", rng.random() < 0.5) if rng.random() < 0.2 else o for o in ops]
    # fl: bits 0-1 = flavour of the iterable arguments, higher bits = which container is used
    return (kind, t, g, xs, rng.randrange(4) + 4 * rng.randrange(6), ops)


# ---------------------------------------------------------------- SDK side

_SEM = []


def gval(g, kind="Entity"):
    if is_sem(kind):
        if not _SEM:
            _SEM.extend(sem_refs())
        return None if g[0] == "none" else _SEM[1 + g[1]]
    return None if g[0] == "none" else GIDS[1 + g[1]] if g[0] == "ok" else BAD_GIDS[g[1]]


def snapshot(obj, kind, P):
    from basyx.aas import model
    ga, la = attrs(kind)
    t = (obj.entity_type is model.EntityType.SELF_MANAGED_ENTITY) if kind == "Entity" else True
    if kind in ATTACHABLE:
        t = id(obj.parent)
    g = getattr(obj, ga)
    items = list(getattr(obj, la))
    return (t, id(g) if is_sem(kind) else g, [id(x) for x in items])


def encode_state(obj, kind, P):
    from basyx.aas import model
    ga, la = attrs(kind)
    t = 1 if (kind != "Entity" or obj.entity_type is model.EntityType.SELF_MANAGED_ENTITY) else 0
    if kind in ATTACHABLE:
        t = 1 if obj.parent is not None else 0
    g = getattr(obj, ga)
    if is_sem(kind):
        gi = 0 if g is None else ([id(x) for x in _SEM].index(id(g)) if id(g) in [id(x) for x in _SEM] else -1)
    else:
        gi = 0 if g is None else (GIDS.index(g) if g in GIDS else -1)
    ids = {id(p): i for i, p in enumerate(P)}
    return [[t, gi], [ids.get(id(x), -7) for x in getattr(obj, la)]]


def wf_text(obj, kind):
    """AASd-014 / AASd-131 / AASd-118 as written in constraints.rst, on public attributes; plus Identifier syntax
    of globalAssetId"""
    from basyx.aas import model
    entity = kind == "Entity"
    if is_sem(kind):
        if len(list(obj.supplemental_semantic_id)) > 0 and obj.semantic_id is None:
            return "AASd-118: supplementalSemanticId without semanticId"
        return None
    g = obj.global_asset_id
    n = len(list(obj.specific_asset_id))
    if g is not None and not (isinstance(g, str) and 1 <= len(g) <= 2000):
        return "globalAssetId is not a valid Identifier"
    if entity:
        if obj.entity_type is model.EntityType.SELF_MANAGED_ENTITY:
            if g is None and n == 0:
                return "AASd-014: self-managed entity without globalAssetId and specificAssetId"
        elif g is not None or n != 0:
            return "AASd-014: co-managed entity with globalAssetId or specificAssetId"
    elif g is None and n == 0:
        return "AASd-131: AssetInformation without globalAssetId and specificAssetId"
    return None


def apply_op(obj, op, P, kind="Entity", alias=None):
    """performs the op through the public API; returns the value of pop() or None"""
    from basyx.aas import model
    ga, la = attrs(kind)
    L = getattr(obj, la) if alias is None else alias
    k = op[0]
    if k == "append":
        L.append(P[op[1]])
    elif k == "insert":
        L.insert(op[1], P[op[2]])
    elif k == "extend":
        L.extend(as_arg([P[i] for i in op[1]], op[2], kind))
    elif k == "extendbad":
        L.extend(5)
    elif k == "iadd":
        if is_sem(kind):
            obj.supplemental_semantic_id += as_arg([P[i] for i in op[1]], op[2], kind)
        else:
            obj.specific_asset_id += as_arg([P[i] for i in op[1]], op[2], kind)
    elif k == "pop":
        return L.pop() if op[1] is None else L.pop(op[1])
    elif k == "remove":
        L.remove(P[op[1]])
    elif k == "clear":
        L.clear()
    elif k == "setitem":
        L[op[1]] = P[op[2]]
    elif k == "delitem":
        del L[op[1]]
    elif k == "setslice":
        L[op[1]:op[2]] = as_arg([P[i] for i in op[3]], op[4], kind)
    elif k == "setslicebad":
        L[op[1]:op[2]] = 5
    elif k == "delslice":
        del L[op[1]:op[2]]
    elif k == "setlist":
        setattr(obj, la, as_arg([P[i] for i in op[1]], op[2], kind))
    elif k == "settype":
        obj.entity_type = model.EntityType.SELF_MANAGED_ENTITY if op[1] else model.EntityType.CO_MANAGED_ENTITY
    elif k == "setgaid":
        setattr(obj, ga, gval(op[1], kind))
    # ---- SDK-only operations (oracle stream; not in the Coq model)
    elif k == "reverse":
        L.reverse()
    elif k == "setxslice":
        L[op[1]:op[2]:op[3]] = as_arg([P[i] for i in op[4]], op[5], kind)
    elif k == "delxslice":
        del L[op[1]:op[2]:op[3]]
    else:
        raise AssertionError(k)
    return None


def documented(kind, op, exc):
    """is the exception one the documentation announces for this call?"""
    from basyx.aas.model import AASConstraintViolation
    k = op[0]
    if isinstance(exc, AASConstraintViolation):
        return exc.constraint_id == cnum(kind)
    if type(exc) is IndexError:
        return k in ("pop", "setitem", "delitem")
    if type(exc) is ValueError:
        return k in ("remove", "setxslice") or (k == "setgaid" and op[1][0] == "bad") or (k == "delxslice" and op[3] == 0)
    if type(exc) is TypeError:
        return k in ("extendbad", "setslicebad")
    return False


def run_sdk(case, with_trace=True):
    """-> (trace for the model comparison, first oracle failure or None)"""
    from basyx.aas import model
    from c02 import enc_exc, call
    entity, t, g, xs, fl, ops = case      # `entity` is the kind of object
    P = pool(entity)
    fail = None
    try:
        obj = construct(entity, t, gval(g, entity), as_arg([P[i] for i in xs], ctor_flavour(fl), entity))
    except Exception as e:  # noqa
        code = enc_exc(e)
        ok_doc = (code == 1000 + cnum(entity)) or (code == 1 and g[0] == "bad")
        if not ok_doc:
            fail = (-1, f"constructor raised {type(e).__name__}: {e}")
        return [[[code]]], fail
    m = wf_text(obj, entity)
    if m:
        fail = (-1, "constructor accepted: " + m)
    holder = None
    if entity in ATTACHABLE:
        holder = Holder(entity, fl // 4)
        holder.contain(obj, t)
    elif entity == "Entity" and (fl // 4) % 2:
        # the entity rules do not depend on containment: the same history inside a namespace (not a model state)
        Holder("Entity-sem", fl // 8).contain(obj, True)
    trace = [[[0]] + encode_state(obj, entity, P)]
    # alias mode: all list operations go through the list object obtained once, before any setter ran
    alias = getattr(obj, attrs(entity)[1]) if (fl // 4) % 3 == 1 else None
    for k, op in enumerate(ops):
        before = snapshot(obj, entity, P)
        try:
            if op[0] == "contain":
                holder.contain(obj, op[1])
                v = None
            else:
                v = apply_op(obj, op, P, entity, alias)
            out = [0] if v is None else [0, P.index(v)]
            m = wf_text(obj, entity)
            if m and not fail:
                fail = (k, f"{op[0]} accepted: " + m)
        except Exception as e:  # noqa
            out = [enc_exc(e)]
            if not fail:
                if snapshot(obj, entity, P) != before:
                    fail = (k, f"{op[0]} raised {type(e).__name__} but changed the object")
                elif not documented(entity, op, e):
                    fail = (k, f"{op[0]} raised undocumented {type(e).__name__}: {e}")
                else:
                    m = wf_text(obj, entity)
                    if m:
                        fail = (k, f"after rejected {op[0]}: " + m)
        trace.append([out] + encode_state(obj, entity, P))
    return trace, fail


# ---------------------------------------------------------------- Coq side

def coq_g(g):
    return "GNone" if g[0] == "none" else f"(GOk {g[1]}%nat)" if g[0] == "ok" else "GBad"


def coq_nl(xs):
    return coq_list(f"{x}%nat" for x in xs) if xs else "(@nil nat)"


def coq_oz(b):
    return "None" if b is None else f"(Some {coq_z(b)})"


def coq_op(op):
    k = op[0]
    if k == "append":
        return f"Append {op[1]}%nat"
    if k == "insert":
        return f"Insert {coq_z(op[1])} {op[2]}%nat"
    if k == "extend":
        return f"Extend {coq_nl(op[1])}"
    if k == "extendbad":
        return "ExtendBad"
    if k == "iadd":
        return f"IAdd {coq_nl(op[1])}"
    if k == "pop":
        return f"Pop {coq_oz(op[1])}"
    if k == "remove":
        return f"Remove {op[1]}%nat"
    if k == "clear":
        return "Clear"
    if k == "setitem":
        return f"SetItem {coq_z(op[1])} {op[2]}%nat"
    if k == "delitem":
        return f"DelItem {coq_z(op[1])}"
    if k == "setslice":
        return f"SetSlice {coq_oz(op[1])} {coq_oz(op[2])} {coq_nl(op[3])}"
    if k == "setslicebad":
        return f"SetSliceBad {coq_oz(op[1])} {coq_oz(op[2])}"
    if k == "delslice":
        return f"DelSlice {coq_oz(op[1])} {coq_oz(op[2])}"
    if k == "delxslice":
        return f"DelXSlice {coq_oz(op[1])} {coq_oz(op[2])} {coq_z(op[3])}"
    if k == "setlist":
        return f"SetList {coq_nl(op[1])}"
    if k in ("settype", "contain"):
        return f"SetType {'true' if op[1] else 'false'}"
    if k == "setgaid":
        return f"SetGaid {coq_g(op[1])}"
    raise AssertionError(k)


def coq_owner(kind):
    return "OEntity" if kind == "Entity" else "OAsset" if kind == "AssetInformation" else "OSem"


def coq_case(case, trace):
    entity, t, g, xs, fl, ops = case
    return (f"({coq_owner(entity)}, {'true' if (t or entity not in ['Entity'] + ATTACHABLE) else 'false'}, {coq_g(g)}, {coq_nl(xs)}, "
            + (coq_list(coq_op(o) for o in ops) if ops else "(@nil op)") + ", " + coq_z(common.zhash_d(trace, 3)) + ")")


def shrink_ops(case, pred):
    entity, t, g, xs, fl, ops = case
    cur = list(ops)
    changed = True
    while changed:
        changed = False
        for i in range(len(cur)):
            cand = cur[:i] + cur[i + 1:]
            if pred((entity, t, g, xs, fl, cand)):
                cur, changed = cand, True
                break
    return (entity, t, g, xs, fl, cur)


def signature(case, k, msg):
    import re
    entity = case[0]
    op = case[5][k][0] if k >= 0 else "ctor"
    flav = ""
    if k >= 0 and op in ("extend", "iadd", "setlist", "setslice", "setxslice"):
        flav = ":iterator" if case[5][k][-1] in (1, 2) else ":list"
    if k < 0:
        flav = ":iterator" if ctor_flavour(case[4]) in (1, 2) else ":list"
    m = re.sub(r"'[^']*'|\d+", "_", msg.split(":")[0] if "AASd" not in msg else msg)[:50]
    cont = ""
    if entity in ATTACHABLE:
        state = case[1]
        for o in case[5][:max(k, 0)]:
            if o[0] == "contain":
                state = o[1]
        cont = ":contained" if state else ":free-standing"
    return f"C02:{entity}{cont}:{op}{flav}:{m}"


PRELUDE = ("From Coq Require Import List ZArith Bool.\n"
           "From Basyx Require Import model.Corr model.ConstraintsBase model.ConstraintsModel model.ConstraintsObs.\n")


def exhaustive_cases(maxlen):
    """every order of setter and list operations over a small alphabet, from every constructible
    (entity type, globalAssetId present?, list empty?) combination"""
    alpha_e = [("append", 0), ("pop", None), ("clear",), ("setlist", [], 1), ("setlist", [1], 2), ("iadd", [0], 0),
               ("setgaid", ("none",)), ("setgaid", ("ok", 0)), ("settype", True), ("settype", False),
               ("delslice", 0, 1), ("setslice", 0, 1, [], 1), ("remove", 0), ("extend", [1], 1)]
    alpha_a = [a for a in alpha_e if a[0] != "settype"]
    starts = []
    for t in (True, False):
        for g in (("none",), ("ok", 0)):
            for xs in ([], [0], [0, 1]):
                starts.append(("Entity", t, g, xs))
    for kind in ("AssetInformation", "Qualifier", "Property"):
        for g in (("none",), ("ok", 0)):
            for xs in ([], [0], [0, 1]):
                starts.append((kind, True, g, xs))
                if kind in ATTACHABLE:
                    starts.append((kind, False, g, xs))     # free-standing as well as contained
    alpha_s = alpha_a + [("contain", True), ("contain", False)]
    cases = []
    for (entity, t, g, xs) in starts:
        alpha = alpha_e if entity == "Entity" else alpha_s if entity in ATTACHABLE else alpha_a
        for L in range(1, maxlen + 1):
            for seq in itertools.product(alpha, repeat=L):
                cases.append((entity, t, g, xs, 1 + 4 * (len(cases) % 6), list(seq)))
    return cases


XB = [None, 0, 1, -1, 2, -3, 5]
XSTEPS = [2, -1, -2, 3, -3]


def xslice_cases():
    """every extended slice (bounds from XB, steps from XSTEPS) as a deletion (model + oracle) and as an assignment
    (oracle only) on lists of length 0..4, for the owners whose delete / set hooks depend on the length"""
    dels, sets = [], []
    states = [("Entity", True, ("none",)), ("Entity", True, ("ok", 0)), ("AssetInformation", True, ("none",)),
              ("AssetInformation", True, ("ok", 0)), ("Qualifier", False, ("ok", 0))]
    for kind, t, g in states:
        for n in range(5):
            if n == 0 and g == ("none",):
                continue
            xs = [i % POOL_N for i in range(n)]
            for a in XB:
                for b in XB:
                    for st in XSTEPS:
                        fl = (len(dels) % N_FLAVOURS)
                        dels.append((kind, t, g, xs, fl % 4, [("delxslice", a, b, st)]))
                        k = len(range(n)[a:b:st])
                        for m in {k, 0, k + 1}:
                            sets.append((kind, t, g, xs, fl % 4, [("setxslice", a, b, st, [j % POOL_N for j in range(m)], fl)]))
    return dels, sets


def frag_lists(chk, can_eval=True):
    rng = chk.rng
    cases = []
    nrand, maxlen, exh = (2500, 8, 2) if chk.tier == "quick" else (20000, 12, 3)
    ex = exhaustive_cases(exh)
    cases += ex
    chk.cov["list_exhaustive"] = (f"every sequence of length <= {exh} over 14 (Entity) / 12 (AssetInformation, Qualifier, "
                                  f"Property) operations from each of 30 constructor argument combinations: {len(ex)} sequences")
    xd, xsets = xslice_cases()
    if chk.tier == "quick":
        xsets = xsets[chk.seed % 2::2]
    cases += xd
    chk.cov["list_extended_slices"] = (f"every slice [a:b:step] with a, b in {XB} and step in {XSTEPS} on lists of length 0..4 of "
                                       f"Entity / AssetInformation (globalAssetId present and absent) and Qualifier: {len(xd)} deletions "
                                       f"(model + oracle), {len(xsets)} assignments with matching and non-matching sizes (oracle)")
    for _ in range(nrand):
        cases.append(gen_case(rng, maxlen))
    terms = []
    for case in cases:
        trace, fail = run_sdk(case)
        chk.seen(("list",) + tuple(map(repr, case)), nontrivial=len(case[5]) >= 2 and len(trace) > 1)
        chk.count("list:owner=" + case[0])
        if len(trace) == 1:
            chk.count("list:ctor-rejected")
        for o, tr in zip(case[5], trace[1:]):
            chk.count(f"list:op={o[0]}:" + ("ok" if tr[0][0] == 0 else "rejected"))
        if fail:
            k, msg = fail
            small = shrink_ops((case[0], case[1], case[2], case[3], case[4], case[5][:k + 1]),
                               lambda c: run_sdk(c)[1] is not None)
            k2, msg2 = run_sdk(small)[1]
            chk.fail(signature(small, k2, msg2), msg2,
                     {"kind": "list", "case": [small[0], small[1], list(small[2]), small[3], small[4], [list(o) for o in small[5]]]})
        terms.append(coq_case(case, trace))
        if len(chk.samples) < 3 and len(case[5]) >= 4 and len(trace) > 1:
            chk.samples.append({"fragment": "lists", "case": repr(case), "sdk_trace_last": trace[-1]})
    # SDK-only stream: extended-slice assignment and reverse(), judged by the oracle alone
    nx = 600 if chk.tier == "quick" else 6000
    for ix in range(nx + len(xsets)):
        case = gen_case(rng, 6) if ix < nx else xsets[ix - nx]
        ops = list(case[5])
        if ix >= nx:
            _, fail = run_sdk(case)
            chk.seen(("listx",) + tuple(map(repr, case)), nontrivial=True)
            chk.count("list:sdk-only-sequences")
            if fail:
                k2, msg2 = fail
                chk.fail(signature(case, k2, msg2), msg2,
                         {"kind": "list", "case": [case[0], case[1], list(case[2]), case[3], case[4], [list(o) for o in case[5]]]})
            continue
        for j in range(len(ops)):
            r = rng.random()
            if r < 0.2:
                ops[j] = ("reverse",)
            elif r < 0.4:
                ops[j] = ("setxslice", gen_bound(rng), gen_bound(rng), rng.choice([2, -1, -2, 3, 0]), gen_xs(rng), rng.randrange(N_FLAVOURS))
            elif r < 0.55:
                ops[j] = ("delxslice", gen_bound(rng), gen_bound(rng), rng.choice([2, -1, -2, 3]))
        case = case[:5] + (ops,)
        _, fail = run_sdk(case)
        chk.seen(("listx",) + tuple(map(repr, case)), nontrivial=True)
        chk.count("list:sdk-only-sequences")
        if fail:
            k, msg = fail
            small = shrink_ops((case[0], case[1], case[2], case[3], case[4], ops[:k + 1]), lambda c: run_sdk(c)[1] is not None)
            k2, msg2 = run_sdk(small)[1]
            chk.fail(signature(small, k2, msg2), msg2,
                     {"kind": "list", "case": [small[0], small[1], list(small[2]), small[3], small[4], [list(o) for o in small[5]]]})
    # SpecificAssetId is a frozen HasSemantics object: constructor only
    from basyx.aas import model
    from c02 import call
    P = pool("Qualifier")
    for g in (None, P[0]):
        for n in (0, 1, 2):
            for fl in range(N_FLAVOURS):
                e = call(lambda: model.SpecificAssetId("n", "v", semantic_id=g,
                                                       supplemental_semantic_id=as_arg(P[1:1 + n], fl, "Qualifier")))
                bad_args = g is None and n > 0
                chk.seen(("sid-ctor", g is None, n, fl), nontrivial=True)
                if (e is None) == bad_args or (e is not None and not (isinstance(e, model.AASConstraintViolation)
                                                                       and e.constraint_id == 118)):
                    chk.fail("C02:SpecificAssetId:ctor" + (":iterator" if fl in (1, 2) else ":list"),
                             f"SpecificAssetId(semantic_id={'None' if g is None else 'ref'}, {n} supplemental ids): "
                             + ("accepted" if e is None else f"raised {type(e).__name__}: {e}"),
                             {"kind": "sid-ctor", "sem_none": g is None, "n": n, "flavour": fl})
    if not can_eval:
        return
    bad, errs = common.run_mismatch_shards("C02ls", PRELUDE, terms, "check_list_case", shard=600)
    chk.traces += common.run_mismatch_shards.evaluated - len(bad)
    for e in errs:
        chk.tie_broken("correspondence-run", e)
    if bad:
        case = cases[bad[0]]

        def still(c):
            tr, _ = run_sdk(c)
            b, e = common.run_mismatch_shards("C02lss", PRELUDE, [coq_case(c, tr)], "check_list_case")
            return bool(b or e)
        small = shrink_ops(case, still)
        tr, _ = run_sdk(small)
        entity, t, g, xs, fl, ops = small
        mt = common.coq_eval("C02l", PRELUDE, f"list_case_trace {coq_owner(entity)} "
                             f"{'true' if (t or entity not in ['Entity'] + ATTACHABLE) else 'false'} {coq_g(g)} {coq_nl(xs)} "
                             + coq_list(coq_op(o) for o in ops))
        chk.tie_broken("correspondence", {"fragment": "ConstrainedList/Entity/AssetInformation", "n_disagreements": len(bad),
                                          "case": repr(small), "sdk_trace": tr, "model_trace": mt})


def replay_case(rp):
    c = rp["case"]
    case = (c[0], c[1], tuple(c[2]), c[3], c[4], [tuple(tuple(x) if isinstance(x, list) and o[0] == "setgaid" else x
                                                         for x in o) for o in c[5]])
    tr, fail = run_sdk(case)
    print("trace:", tr)
    print("oracle:", fail)
    return 1 if fail else 0
