import argparse
import importlib
import os
import sys
import traceback

sys.path.insert(0, os.path.dirname(os.path.abspath(__file__)))
import common  # noqa: E402


def watchdog(a, seed):
    """Runs the check in a child process group and kills it when it does not finish: an SDK operation that never returns
    (a lock left held, an endless loop) must end in a verdict, not in a check that hangs.  The harnesses have their own
    per-operation time limits where they expect this; this is the net below them."""
    import signal
    import subprocess
    limit = int(os.environ.get("VERIF_WATCHDOG_S", "0") or 0) or (1800 if a.tier == "quick" else 10800)
    env = dict(os.environ, VERIF_WATCHDOG_CHILD="1")
    p = subprocess.Popen([sys.executable, os.path.abspath(__file__), a.pid, "--tier", a.tier], env=env,
                         start_new_session=True)
    try:
        return p.wait(timeout=limit)
    except subprocess.TimeoutExpired:
        try:
            os.killpg(p.pid, signal.SIGKILL)
        except OSError:
            pass
        p.wait()
        chk = common.Check(a.pid, a.tier, seed)
        chk.tie_broken("watchdog", f"the check did not terminate within {limit} s and was killed: an operation of the SDK "
                                   "(or of the harness) never returned; the output above shows how far it got")
        return chk.finish(level="proof", rule="check killed by the watchdog")
    except KeyboardInterrupt:
        try:
            os.killpg(p.pid, signal.SIGKILL)
        except OSError:
            pass
        raise


def main():
    # SDK log records that no harness handler takes would otherwise go to stderr through logging.lastResort and
    # interleave with the verdict lines; a root NullHandler takes them (harness handlers and levels are unaffected)
    import logging
    logging.getLogger().addHandler(logging.NullHandler())
    ap = argparse.ArgumentParser()
    ap.add_argument("pid")
    ap.add_argument("--tier", default=os.environ.get("VERIF_TIER", "quick"), choices=["quick", "thorough"])
    ap.add_argument("--replay", default=None)
    a = ap.parse_args()
    seed = int(os.environ.get("VERIF_SEED", "0") or 0)
    mod = importlib.import_module(a.pid.lower())
    if a.replay:
        sys.exit(mod.replay(a.replay))
    if os.environ.get("VERIF_WATCHDOG_CHILD") != "1":
        sys.exit(watchdog(a, seed))
    chk = common.Check(a.pid, a.tier, seed)
    try:
        rc = mod.run(chk)
    except Exception:
        # a crash of the machinery is reported as "no longer checks" (never silently green)
        chk.tie_broken("harness-exception", traceback.format_exc()[-3000:])
        rc = chk.finish(level="proof", rule="harness crashed")
    sys.exit(rc)


main()
