import argparse
import importlib
import os
import sys
import traceback

sys.path.insert(0, os.path.dirname(os.path.abspath(__file__)))
import common  # noqa: E402


def main():
    # SDK log records that no harness handler takes would otherwise go to stderr through logging.lastResort and
    # interleave with the verdict lines; a root NullHandler takes them (harness handlers and levels are unaffected)
    import logging
    logging.getLogger().addHandler(logging.NullHandler())
    ap = argparse.ArgumentParser()
    ap.add_argument("pid")
    ap.add_argument("--tier", default=os.environ.get("VERIF_TIER", "quick"), choices=["quick", "thorough"])
    ap.add_argument("--replay", default=None)
    a = ap.parse_args()
    seed = int(os.environ.get("VERIF_SEED", "0") or 0)
    mod = importlib.import_module(a.pid.lower())
    if a.replay:
        sys.exit(mod.replay(a.replay))
    chk = common.Check(a.pid, a.tier, seed)
    try:
        rc = mod.run(chk)
    except Exception:
        # a crash of the machinery is reported as "no longer checks" (never silently green)
        chk.tie_broken("harness-exception", traceback.format_exc()[-3000:])
        rc = chk.finish(level="proof", rule="harness crashed")
    sys.exit(rc)


main()
