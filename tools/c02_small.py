"""C02, fragment 3: AdministrativeInformation (AASd-005), BasicEventElement (direction / max_interval / last_update),
category (AASd-090/-100/NameType), language string sets, and the typed-value setters (AASd-020; oracle only).
Each state machine: op sequences on the real classes vs model/ConstraintsModel.v part B, plus an oracle written from
the constraint texts."""
import datetime
import itertools

import common
from common import coq_z


def coq_list(items, ty=None):
    items = list(items)
    if not items and ty:
        return f"(@nil {ty})"
    return "[" + "; ".join(items) + "]"

PRELUDE = ("From Coq Require Import List ZArith Bool.\n"
           "From Basyx Require Import model.Corr model.ConstraintsBase model.ConstraintsModel model.ConstraintsObs.\n")


def _shrink(ops, pred):
    cur = list(ops)
    changed = True
    while changed:
        changed = False
        for i in range(len(cur)):
            cand = cur[:i] + cur[i + 1:]
            if pred(cand):
                cur, changed = cand, True
                break
    return cur


def _eval(chk, tag, terms, fn, what, cases, can_eval, shard=1500):
    if not can_eval:
        return
    bad, errs = common.run_mismatch_shards(tag, PRELUDE, terms, fn, shard=shard)
    chk.traces += common.run_mismatch_shards.evaluated - len(bad)
    for e in errs:
        chk.tie_broken("correspondence-run", e)
    if bad:
        chk.tie_broken("correspondence", {"fragment": what, "n_disagreements": len(bad), "first_case": repr(cases[bad[0]]),
                                          "term": terms[bad[0]][:400]})


# ===================================================================================== AdministrativeInformation
S_VALID = ["1", "23"]
S_BAD = ["01", "12345", "a", "1.0", "٣", "1\n", "999\n", "\n1", " 1"]


def s_val(a):
    return None if a[0] == "none" else S_VALID[a[1]] if a[0] == "ok" else S_BAD[a[1]] if a[0] == "bad" else ""


def s_enc(v):
    return 0 if v is None else 1 + S_VALID.index(v) if v in S_VALID else -1


def coq_s(a):
    return {"none": "SNone", "bad": "SBad", "empty": "SEmpty"}.get(a[0]) or f"(SOk {a[1]}%nat)"


def gen_s(rng):
    r = rng.random()
    return ("none",) if r < 0.35 else ("ok", rng.randrange(2)) if r < 0.75 else ("bad", rng.randrange(len(S_BAD))) \
        if r < 0.9 else ("empty",)


def version_ok(s):
    return isinstance(s, str) and 1 <= len(s) <= 4 and all(c in "0123456789" for c in s) and (len(s) == 1 or s[0] != "0")


def adm_wf(o):
    """AASd-005 + VersionType/RevisionType on public attributes"""
    if o.version is not None and not version_ok(o.version):
        return "version is not a VersionType"
    if o.revision is not None and not version_ok(o.revision):
        return "revision is not a RevisionType"
    if o.revision is not None and o.version is None:
        return "AASd-005: revision without version"
    return None


def adm_run(case):
    from basyx.aas import model
    from c02 import enc_exc
    v, r, ops = case
    try:
        o = model.AdministrativeInformation(version=s_val(v), revision=s_val(r))
    except Exception as e:  # noqa
        code = enc_exc(e)
        fail = None if code in (1, 1005) else (-1, f"constructor raised {type(e).__name__}")
        return [[code]], fail
    fail = None
    m = adm_wf(o)
    if m:
        fail = (-1, "constructor accepted: " + m)
    trace = [[0, s_enc(o.version), s_enc(o.revision)]]
    for k, (what, a) in enumerate(ops):
        before = (o.version, o.revision)
        try:
            setattr(o, what, s_val(a))
            code = 0
            m = adm_wf(o)
            if m and not fail:
                fail = (k, f"{what} = {a[0]} accepted: " + m)
        except Exception as e:  # noqa
            code = enc_exc(e)
            if not fail:
                if (o.version, o.revision) != before:
                    fail = (k, f"rejected {what} assignment changed the object")
                elif code not in (1, 1005):
                    fail = (k, f"{what} assignment raised {type(e).__name__}")
                elif code == 1 and a[0] in ("none", "ok"):
                    fail = (k, f"{what} = valid value raised ValueError")
        trace.append([code, s_enc(o.version), s_enc(o.revision)])
    return trace, fail


def frag_adm(chk, can_eval):
    rng = chk.rng
    args = [("none",), ("ok", 0), ("ok", 1), ("bad", 0), ("empty",)]
    alpha = [(w, a) for w in ("version", "revision") for a in args]
    cases = []
    exh = 3 if chk.tier == "quick" else 4
    for v in args:
        for r in args:
            for L in range(0, exh + 1):
                if L > 2 and (v[0] in ("bad", "empty") or r[0] in ("bad", "empty")):
                    continue
                for seq in itertools.product(alpha, repeat=L):
                    cases.append((v, r, list(seq)))
    chk.cov["adm_exhaustive"] = f"all setter sequences of length <= {exh} over 10 assignments from all 25 constructor argument pairs: {len(cases)}"
    for _ in range(300 if chk.tier == "quick" else 5000):
        cases.append((gen_s(rng), gen_s(rng), [(rng.choice(["version", "revision"]), gen_s(rng)) for _ in range(rng.randint(1, 10))]))
    terms = []
    for case in cases:
        tr, fail = adm_run(case)
        chk.seen(("adm", repr(case)), nontrivial=len(case[2]) >= 2)
        chk.count("adm:" + ("ctor-rejected" if len(tr[0]) == 1 else "sequences"))
        if fail:
            k, msg = fail
            small = _shrink(case[2][:k + 1], lambda o: adm_run((case[0], case[1], o))[1] is not None)
            k2, msg2 = adm_run((case[0], case[1], small))[1]
            what = small[k2][0] + "=" + small[k2][1][0] if k2 >= 0 else "ctor"
            chk.fail(f"C02:AdministrativeInformation:{what}:{msg2.split(':')[0][:40]}", msg2,
                     {"kind": "adm", "case": [list(case[0]), list(case[1]), [[w, list(a)] for w, a in small]]})
        v, r, ops = case
        terms.append(f"({coq_s(v)}, {coq_s(r)}, " + coq_list([("SetVersion " if w == "version" else "SetRevision ") + coq_s(a)
                                                               for w, a in ops], "aop") + f", {coq_z(common.zhash_d(tr, 2))})")
    _eval(chk, "C02adm", terms, "check_adm_case", "AdministrativeInformation", cases, can_eval, shard=3000)


# ===================================================================================== BasicEventElement
def lu_values():
    utc = datetime.timezone.utc
    return {"none": [None],
            "utc": [datetime.datetime(2020, 1, 1, tzinfo=utc), datetime.datetime(2021, 5, 6, 7, 8, 9, 10, tzinfo=utc),
                    datetime.datetime(2020, 1, 1, tzinfo=datetime.timezone(datetime.timedelta(0)))],
            "other": [datetime.datetime(2020, 1, 1), datetime.datetime(2020, 1, 1, tzinfo=datetime.timezone(datetime.timedelta(hours=1))),
                      datetime.datetime(2020, 1, 1, tzinfo=datetime.timezone(datetime.timedelta(hours=-5), "EST"))]}


def bee_wf(o):
    from basyx.aas import model
    if o.direction is model.Direction.INPUT and o.max_interval is not None:
        return "max_interval present although direction = input"
    lu = o.last_update
    if lu is not None and (lu.tzinfo is None or lu.utcoffset() != datetime.timedelta(0)):
        return "last_update is not given in UTC"
    return None


def bee_enc(o):
    from basyx.aas import model
    lu = o.last_update
    mi = o.max_interval
    return [1 if o.direction is model.Direction.INPUT else 0, 0 if mi is None else (2 if bool(mi) else 1),
            0 if lu is None else 1 if lu.tzname() == "UTC" else 2]


def bee_run(case, rng_pick):
    from basyx.aas import model
    from c02 import enc_exc
    import dateutil.relativedelta as rd
    d, u, m, ops = case
    LU = lu_values()
    mref = model.ModelReference((model.Key(model.KeyTypes.SUBMODEL, "x"),), model.Submodel)
    # "zero": present but falsy (relativedelta.__bool__ is False for a zero-length duration)
    DUR = {"none": [None], "pos": [rd.relativedelta(seconds=5), rd.relativedelta(minutes=10), rd.relativedelta(days=-1)],
           "zero": [rd.relativedelta(), rd.relativedelta(seconds=0), rd.relativedelta(hours=1, minutes=-60)]}

    def mval(x):
        return DUR[x][rng_pick % len(DUR[x])]

    def dval(x):
        return model.Direction.INPUT if x else model.Direction.OUTPUT

    def uval(x):
        return LU[x][rng_pick % len(LU[x])]
    try:
        o = model.BasicEventElement("e", mref, dval(d), model.StateOfEvent.ON, last_update=uval(u),
                                    max_interval=mval(m))
    except Exception as e:  # noqa
        code = enc_exc(e)
        return [[code]], (None if code == 1 else (-1, f"constructor raised {type(e).__name__}"))
    fail = None
    w = bee_wf(o)
    if w:
        fail = (-1, "constructor accepted: " + w)
    trace = [[0] + bee_enc(o)]
    for k, (what, x) in enumerate(ops):
        before = (o.direction, o.max_interval, o.last_update)
        try:
            if what == "direction":
                o.direction = dval(x)
            elif what == "max_interval":
                o.max_interval = mval(x)
            else:
                o.last_update = uval(x)
            code = 0
            w = bee_wf(o)
            if w and not fail:
                fail = (k, f"{what} accepted: " + w)
        except Exception as e:  # noqa
            code = enc_exc(e)
            if not fail:
                if (o.direction, o.max_interval, o.last_update) != before:
                    fail = (k, f"rejected {what} assignment changed the object")
                elif code != 1:
                    fail = (k, f"{what} assignment raised {type(e).__name__} instead of ValueError")
        trace.append([code] + bee_enc(o))
    return trace, fail


def frag_bee(chk, can_eval):
    rng = chk.rng
    alpha = [("direction", True), ("direction", False), ("max_interval", "pos"), ("max_interval", "none"),
             ("max_interval", "zero"), ("last_update", "none"), ("last_update", "utc"), ("last_update", "other")]
    cases = []
    exh = 3 if chk.tier == "quick" else 4
    for d in (True, False):
        for u in ("none", "utc", "other"):
            for m in ("pos", "none", "zero"):
                for L in range(0, exh + 1):
                    for seq in itertools.product(alpha, repeat=L):
                        cases.append((d, u, m, list(seq)))
    chk.cov["bee_exhaustive"] = f"all setter sequences of length <= {exh} over 8 assignments (max_interval: None / zero-length (falsy) / non-zero Duration) from all 18 constructor argument triples: {len(cases)}"
    for _ in range(200 if chk.tier == "quick" else 3000):
        cases.append((rng.random() < .5, rng.choice(["none", "utc", "other"]), rng.choice(["pos", "none", "zero"]),
                      [rng.choice(alpha) for _ in range(rng.randint(1, 12))]))
    terms = []
    cu = {"none": "UNone", "utc": "UUtc", "other": "UOther"}
    cm = {"none": "PNone", "zero": "PFalsy", "pos": "PTruthy"}
    for i, case in enumerate(cases):
        tr, fail = bee_run(case, i)
        chk.seen(("bee", repr(case)), nontrivial=len(case[3]) >= 2)
        chk.count("bee:" + ("ctor-rejected" if len(tr[0]) == 1 else "sequences"))
        if fail:
            k, msg = fail
            small = _shrink(case[3][:k + 1], lambda o: bee_run((case[0], case[1], case[2], o), i)[1] is not None)
            k2, msg2 = bee_run((case[0], case[1], case[2], small), i)[1]
            arg = ""
            if k2 >= 0 and small[k2][0] == "max_interval":
                arg = ":" + str(small[k2][1])
            elif k2 < 0 or small[k2][0] == "direction":
                arg = ":max_interval=" + str(case[2] if not [o for o in small[:max(k2, 0)] if o[0] == "max_interval"]
                                             else [o for o in small[:k2] if o[0] == "max_interval"][-1][1])
            chk.fail(f"C02:BasicEventElement:{small[k2][0] if k2 >= 0 else 'ctor'}{arg}:{msg2.split(':')[0][:40]}", msg2,
                     {"kind": "bee", "case": [case[0], case[1], case[2], [list(o) for o in small]], "pick": i})
        d, u, m, ops = case

        def cop(o):
            if o[0] == "direction":
                return f"SetDirection {'true' if o[1] else 'false'}"
            if o[0] == "max_interval":
                return f"SetMaxInterval {cm[o[1]]}"
            return f"SetLastUpdate {cu[o[1]]}"
        terms.append(f"({'true' if d else 'false'}, {cu[u]}, {cm[m]}, " + coq_list([cop(o) for o in ops], "bop")
                     + f", {coq_z(common.zhash_d(tr, 2))})")
    _eval(chk, "C02bee", terms, "check_bee_case", "BasicEventElement", cases, can_eval, shard=3000)


# ===================================================================================== category
def frag_category(chk, can_eval):
    from basyx.aas import model
    from c02 import enc_exc, call
    I = model.datatypes.Int
    mref = model.ModelReference((model.Key(model.KeyTypes.SUBMODEL, "x"),), model.Submodel)
    gref = model.ExternalReference((model.Key(model.KeyTypes.GLOBAL_REFERENCE, "x"),))
    K = {
        "CDataElement": [("Property", lambda c: model.Property("p", I, category=c)),
                         ("Range", lambda c: model.Range("r", I, category=c)),
                         ("MultiLanguageProperty", lambda c: model.MultiLanguageProperty("m", category=c)),
                         ("ReferenceElement", lambda c: model.ReferenceElement("r", category=c))],
        "CFileBlob": [("File", lambda c: model.File("f", "a/b", category=c)),
                      ("Blob", lambda c: model.Blob("b", "a/b", category=c))],
        "COther": [("Submodel", lambda c: model.Submodel("urn:s", category=c)),
                   ("SubmodelElementCollection", lambda c: model.SubmodelElementCollection("c", category=c)),
                   ("SubmodelElementList", lambda c: model.SubmodelElementList("l", model.Property, value_type_list_element=I, category=c)),
                   ("Capability", lambda c: model.Capability("c", category=c)),
                   ("Entity", lambda c: model.Entity("e", model.EntityType.CO_MANAGED_ENTITY, category=c)),
                   ("Operation", lambda c: model.Operation("o", category=c)),
                   ("RelationshipElement", lambda c: model.RelationshipElement("r", mref, mref, category=c)),
                   ("AnnotatedRelationshipElement", lambda c: model.AnnotatedRelationshipElement("r", mref, mref, category=c)),
                   ("BasicEventElement", lambda c: model.BasicEventElement("e", mref, model.Direction.OUTPUT, model.StateOfEvent.ON, category=c)),
                   ("ConceptDescription", lambda c: model.ConceptDescription("urn:c", category=c)),
                   ("AssetAdministrationShell", lambda c: model.AssetAdministrationShell(model.AssetInformation(global_asset_id="g"), "urn:a", category=c))],
    }
    A = {"CNone": [None], "CAllowed": ["CONSTANT", "PARAMETER", "VARIABLE"],
         "CValidOther": ["FOO", "x" * 128, "constant", "Variable ", "VARIABLES", "a\tb"],
         "CEmpty": [""], "CInvalid": ["x" * 129, "a\ud800", "\x00", "VARIABLE￾"]}
    allowed = {"CONSTANT", "PARAMETER", "VARIABLE"}
    terms, cases = [], []
    for kind, classes in K.items():
        for cname, mk in classes:
            for aname, vals in A.items():
                for v in vals:
                    # constructor and setter (from None and from a valid category) must agree
                    codes = [enc_exc(call(lambda: mk(v)))]
                    for start in (None, "VARIABLE"):
                        o = mk(start)
                        e = call(lambda: setattr(o, "category", v))
                        codes.append(enc_exc(e))
                        msg = None
                        if e is None and o.category != v:
                            msg = f"{cname}.category = {v!r}: accepted but stored {o.category!r}"
                        if e is not None and o.category != start:
                            msg = f"{cname}.category = {v!r}: rejected but the attribute changed to {o.category!r}"
                        if msg:
                            chk.fail(f"C02:category:{kind}:{aname}:state", msg, {"kind": "category", "class": cname, "value": v})
                    code = codes[0]
                    chk.seen(("category", cname, v), nontrivial=True)
                    chk.count(f"category:{kind}:{aname}")
                    if len(set(codes)) != 1:
                        chk.fail(f"C02:category:{kind}:{aname}:entry-points-disagree",
                                 f"{cname} category {v!r}: constructor/setter outcomes differ: {codes}",
                                 {"kind": "category", "class": cname, "value": v})
                    # oracle from the texts: NameType (1..128, AASd-130); AASd-090 for every data element
                    is_name = v is None or (1 <= len(v) <= 128 and all(
                        c in "\t\n\r" or 0x20 <= ord(c) <= 0xD7FF or 0xE000 <= ord(c) <= 0xFFFD or ord(c) >= 0x10000 for c in v))
                    ok_090 = kind == "COther" or v is None or v in allowed
                    if code == 0 and not is_name:
                        chk.fail(f"C02:category:{kind}:not-a-NameType-accepted", f"{cname}(category={v!r}) accepted",
                                 {"kind": "category", "class": cname, "value": v})
                    elif code == 0 and not ok_090:
                        chk.fail("C02:category:File-Blob-exempt" if kind == "CFileBlob" else f"C02:category:{kind}:AASd-090-not-enforced",
                                 f"{cname}(category={v!r}) accepted although AASd-090 allows only CONSTANT, PARAMETER, VARIABLE "
                                 "for data elements", {"kind": "category", "class": cname, "value": v})
                    elif code != 0 and is_name and ok_090:
                        chk.fail(f"C02:category:{kind}:valid-rejected", f"{cname}(category={v!r}) rejected with code {code}",
                                 {"kind": "category", "class": cname, "value": v})
                    elif code not in (0, 1, 1090, 1100):
                        chk.fail(f"C02:category:{kind}:error-class", f"{cname}(category={v!r}) raised code {code}",
                                 {"kind": "category", "class": cname, "value": v})
                    cases.append((cname, v))
                    terms.append(f"({kind}, {aname}, {coq_z(code)})")
    _eval(chk, "C02cat", terms, "check_cat_case", "category", cases, can_eval)


# ===================================================================================== language string sets
TAGS = ["en", "de", "en-US", "EN", "e", "eng"]          # ids 0..2 valid, 3..5 invalid (model: tag_ok k = k < 3)
EXTRA_TAGS = {"valid": ["fr", "zh-Hans-CN", "en-", "de-x"], "invalid": ["", "e1", "en_US", "-en", "Deu", " en", "e-n"]}
TXT = {True: "ok", False: ""}


def lss_classes():
    from basyx.aas import model
    return [("LangStringSet", model.LangStringSet, False, None),
            ("MultiLanguageNameType", model.MultiLanguageNameType, True, 64),
            ("MultiLanguageTextType", model.MultiLanguageTextType, True, 1023),
            ("DefinitionTypeIEC61360", model.DefinitionTypeIEC61360, True, 1023),
            ("PreferredNameTypeIEC61360", model.PreferredNameTypeIEC61360, True, 255),
            ("ShortNameTypeIEC61360", model.ShortNameTypeIEC61360, True, 18)]


def tag_form_ok(t):
    """language tag: the primary language subtag consists of exactly two lower-case letters"""
    code = t.split("-", 1)[0]
    return len(code) == 2 and all("a" <= c <= "z" for c in code)


def lss_wf(o, constrained, maxlen):
    if len(o) < 1:
        return "empty language string set"
    for k, v in o.items():
        if not tag_form_ok(k):
            return f"language tag {k!r} accepted"
        if constrained and not (1 <= len(v) <= maxlen):
            return f"text of length {len(v)} accepted"
    return None


def lss_enc(o):
    out = []
    for k, v in o.items():
        out += [TAGS.index(k) if k in TAGS else -1, 1 if v == "ok" else 0]
    return out


def lss_arg(d, src):
    """the mapping argument as a dict or as an instance of one of the SDK's own language string set classes
    (when that class can hold the content; otherwise the plain dict)"""
    if src is None:
        return d
    try:
        return lss_classes()[src][1](d)
    except Exception:  # noqa
        return d


def lss_run(case):
    """case = (target class index, [(tag id, text ok?)], ops[, source class index or None, long?]);
    a text that is not ok is either empty or (long) one character longer than the target class allows"""
    from c02 import enc_exc
    ci, kvs, ops = case[:3]
    src = case[3] if len(case) > 3 else None
    longbad = case[4] if len(case) > 4 else False
    name, cls, constrained, maxlen = lss_classes()[ci]
    TXT = {True: "ok", False: ("x" * (maxlen + 1) if (longbad and maxlen) else "")}
    try:
        o = cls(lss_arg({TAGS[k]: TXT[t] for k, t in kvs}, src))
    except Exception as e:  # noqa
        code = enc_exc(e)
        return [[code]], (None if code == 1 else (-1, f"constructor raised {type(e).__name__}"))
    fail = None
    w = lss_wf(o, constrained, maxlen)
    if w:
        fail = (-1, "constructor accepted: " + w)
    trace = [[0] + lss_enc(o)]
    for i, op in enumerate(ops):
        before = list(o.items())
        try:
            k = op[0]
            if k == "set":
                o[TAGS[op[1]]] = TXT[op[2]]
            elif k == "del":
                del o[TAGS[op[1]]]
            elif k == "clear":
                o.clear()
            elif k == "pop":
                o.pop(TAGS[op[1]])
            elif k == "popitem":
                o.popitem()
            elif k == "setdefault":
                o.setdefault(TAGS[op[1]], TXT[op[2]])
            elif k == "update":
                o.update(lss_arg({TAGS[a]: TXT[b] for a, b in op[1]}, src))
            code = 0
            w = lss_wf(o, constrained, maxlen)
            if w and not fail:
                fail = (i, f"{op[0]} accepted: " + w)
        except Exception as e:  # noqa
            code = enc_exc(e)
            if not fail:
                if list(o.items()) != before:
                    fail = (i, f"rejected {op[0]} changed the set")
                elif code not in (1, 3):
                    fail = (i, f"{op[0]} raised {type(e).__name__}")
        trace.append([code] + lss_enc(o))
    return trace, fail


def frag_lss(chk, can_eval):
    from c02 import call
    rng = chk.rng
    cases = []

    def gen_op():
        k = rng.choice(["set", "set", "del", "clear", "pop", "popitem", "setdefault", "update", "del"])
        if k in ("set", "setdefault"):
            return (k, rng.randrange(6), rng.random() < 0.75)
        if k in ("del", "pop"):
            return (k, rng.randrange(6))
        if k == "update":
            ks = rng.sample(range(6), rng.randint(0, 3))
            return (k, [(a, rng.random() < 0.8) for a in ks])
        return (k,)
    # exhaustive short sequences on a small alphabet
    alpha = [("set", 0, True), ("set", 1, True), ("set", 3, True), ("set", 1, False), ("del", 0), ("del", 1), ("clear",),
             ("pop", 0), ("popitem",), ("setdefault", 1, True), ("update", [(1, True), (3, True)]), ("update", [(1, True), (2, False)])]
    exh = 2 if chk.tier == "quick" else 3
    for ci in (0, 2):
        for kvs in ([(0, True)], [(0, True), (1, True)], [(0, False)], [(3, True)], []):
            for L in range(0, exh + 1):
                for seq in itertools.product(alpha, repeat=L):
                    cases.append((ci, kvs, list(seq), [None, 0, 1, 2, 3, 4, 5][len(cases) % 7], len(cases) % 2 == 1))
    chk.cov["lss_exhaustive"] = f"all sequences of length <= {exh} over 12 operations, 5 constructor dicts, LangStringSet and MultiLanguageTextType"
    for _ in range(1500 if chk.tier == "quick" else 12000):
        ci = rng.randrange(6)
        ks = rng.sample(range(6), rng.choice([0, 1, 1, 2, 3]))
        if rng.random() < 0.7:
            ks = [k for k in ks if k < 3] or [0]
        kvs = [(k, rng.random() < 0.85) for k in ks]
        cases.append((ci, kvs, [gen_op() for _ in range(rng.randint(1, 8))],
                      rng.choice([None, None, 0, 1, 2, 3, 4, 5]), rng.random() < 0.5))
    terms = []
    for case in cases:
        tr, fail = lss_run(case)
        chk.seen(("lss", repr(case)), nontrivial=len(case[2]) >= 2)
        chk.count("lss:" + ("ctor-rejected" if len(tr[0]) == 1 else lss_classes()[case[0]][0]))
        if fail:
            k, msg = fail
            small = _shrink(case[2][:k + 1], lambda o: lss_run((case[0], case[1], o) + tuple(case[3:]))[1] is not None)
            k2, msg2 = lss_run((case[0], case[1], small) + tuple(case[3:]))[1]
            chk.fail(f"C02:LangStringSet:{small[k2][0] if k2 >= 0 else 'ctor'}:{msg2.split(':')[0][:40]}",
                     f"{lss_classes()[case[0]][0]}: " + msg2,
                     {"kind": "lss", "case": [case[0], [list(x) for x in case[1]], [list(o) for o in small]] + list(case[3:])})
        ci, kvs, ops = case[:3]

        def cop(o):
            k = o[0]
            b = (lambda x: "true" if x else "false")
            if k == "set":
                return f"LSet {o[1]}%nat {b(o[2])}"
            if k == "del":
                return f"LDel {o[1]}%nat"
            if k == "clear":
                return "LClear"
            if k == "pop":
                return f"LPop {o[1]}%nat"
            if k == "popitem":
                return "LPopItem"
            if k == "setdefault":
                return f"LSetDefault {o[1]}%nat {b(o[2])}"
            return "LUpdate " + coq_list([f"({a}%nat, {b(t)})" for a, t in o[1]], "(nat * bool)")
        terms.append(f"({'false' if ci == 0 else 'true'}, " + coq_list([f"({k}%nat, {'true' if t else 'false'})" for k, t in kvs], "(nat * bool)")
                     + ", " + coq_list([cop(o) for o in ops], "lop") + f", {coq_z(common.zhash_d(tr, 2))})")
    _eval(chk, "C02lss", terms, "check_lss_case", "LangStringSet", cases, can_eval, shard=1500)
    # constructor / update() fed with instances of the sibling classes: texts between the two limits
    C = lss_classes()
    lens = sorted({1} | {m + d for _, _, _, m in C if m for d in (0, 1)})
    for ti, (tname, tcls, tcon, tmax) in enumerate(C):
        for si, (sname, scls, scon, smax) in enumerate(C):
            for n in lens:
                if scon and n > smax:
                    continue
                source = scls({"en": "x" * n, "de": "ok"})
                for how in ("ctor", "update"):
                    if how == "ctor":
                        holder = [None]

                        def f():
                            holder[0] = tcls(source)
                        e = call(f)
                        o = holder[0]
                    else:
                        o = tcls({"fr": "ok"})
                        e = call(lambda: o.update(source))
                    ok = (not tcon) or n <= tmax
                    chk.seen(("lss-sibling", tname, sname, n, how), nontrivial=True)
                    chk.count("lss:sibling-class-arguments")
                    msg = None
                    if e is None and o is not None and lss_wf(o, tcon, tmax):
                        msg = f"{tname} {how}({sname} with a text of length {n}): accepted - " + lss_wf(o, tcon, tmax)
                    elif e is None and not ok:
                        msg = f"{tname} {how}({sname} with a text of length {n}) accepted"
                    elif e is not None and (ok or type(e) is not ValueError):
                        msg = f"{tname} {how}({sname} with a text of length {n}) raised {type(e).__name__}"
                    elif e is not None and how == "update" and dict(o) != {"fr": "ok"}:
                        msg = f"{tname}.update({sname}) rejected but the set changed"
                    if msg:
                        chk.fail(f"C02:LangStringSet:sibling-argument:{how}:{'accepted' if e is None else 'rejected'}", msg,
                                 {"kind": "lss-sibling", "target": tname, "source": sname, "n": n, "how": how})
    # the tag predicate and the per-class text limits on the SDK alone (boundary lengths, more tags)
    for name, cls, constrained, maxlen in lss_classes():
        for t in TAGS + EXTRA_TAGS["valid"] + EXTRA_TAGS["invalid"]:
            e = call(lambda: cls({t: "ok"}))
            chk.seen(("lss-tag", name, t), nontrivial=True)
            if (e is None) != tag_form_ok(t) or (e is not None and type(e) is not ValueError):
                chk.fail(f"C02:LangStringSet:tag:{'accepted' if e is None else 'rejected'}",
                         f"{name}({{{t!r}: ...}}) " + ("accepted" if e is None else f"raised {type(e).__name__}"),
                         {"kind": "lss-tag", "class": name, "tag": t})
        if constrained:
            for n in (0, 1, maxlen - 1, maxlen, maxlen + 1):
                for how in ("ctor", "setitem"):
                    if how == "ctor":
                        e = call(lambda: cls({"en": "x" * n}))
                    else:
                        o = cls({"en": "ok"})
                        e = call(lambda: o.__setitem__("de", "x" * n))
                    ok = 1 <= n <= maxlen
                    chk.seen(("lss-len", name, n, how), nontrivial=True)
                    if (e is None) != ok or (e is not None and type(e) is not ValueError):
                        chk.fail(f"C02:LangStringSet:text-length:{how}", f"{name}: text of length {n} via {how}: "
                                 + ("accepted" if e is None else f"raised {type(e).__name__}"),
                                 {"kind": "lss-len", "class": name, "n": n, "how": how})


# ===================================================================================== typed values (oracle only)
def frag_values(chk):
    """AASd-020 and value/valueType agreement for Property, Range, Qualifier, Extension, including assignment to
    value_type.  Not modelled in Coq (trivial_cast depends on Python's class hierarchy); judged by the oracle:
    accepted => value is None or an instance of value_type (bounded integers within the XSD range);
    rejected => TypeError/ValueError and nothing changed."""
    from basyx.aas import model
    from basyx.aas.model import datatypes as dt
    from c02 import call, XSD_BOUNDS
    import decimal
    import dateutil.relativedelta as rd
    rng = chk.rng
    types = [getattr(dt, n) for n in ("Duration", "DateTime", "Date", "Time", "GYearMonth", "GYear", "GMonthDay", "GMonth",
                                      "GDay", "Boolean", "Base64Binary", "HexBinary", "Float", "Double", "Decimal", "Integer",
                                      "Long", "Int", "Short", "Byte", "NonPositiveInteger", "NegativeInteger",
                                      "NonNegativeInteger", "PositiveInteger", "UnsignedLong", "UnsignedInt", "UnsignedShort",
                                      "UnsignedByte", "AnyURI", "String", "NormalizedString")]
    utc = datetime.timezone.utc
    values = [None, 0, 5, -5, 127, 128, 255, 256, -129, 2 ** 31, 2 ** 63, 2 ** 64, -2 ** 63 - 1, 3.5, float("nan"), "s", "", "a\nb",
              b"ab", bytearray(b"cd"), True, False, datetime.date(2020, 1, 2), datetime.datetime(2020, 1, 2, 3, 4, tzinfo=utc),
              datetime.datetime(2020, 1, 2, 3, 4), datetime.time(1, 2, 3), rd.relativedelta(days=1), decimal.Decimal("1.5"),
              dt.Int(5), dt.Float(1.5), dt.NormalizedString("n"), dt.GYear(2000), dt.Byte(-1), dt.UnsignedByte(200),
              dt.Base64Binary(b"x"), dt.AnyURI("urn:x"), [1], object(),
              # present but falsy: every "value is set" premise must treat them as set
              0.0, b"", bytearray(), rd.relativedelta(), decimal.Decimal(0), dt.Int(0), dt.Float(0.0), dt.Base64Binary(b""),
              dt.NormalizedString(""), dt.AnyURI(""), datetime.time(0, 0), "s\n"]
    bounds = {getattr(dt, n): b for n, b in XSD_BOUNDS.items() if n != "Integer"}

    def consistent(v, t):
        if v is None:
            return True
        if not isinstance(v, t):
            return False
        if t in bounds:
            lo, hi = bounds[t]
            return (lo is None or lo <= v) and (hi is None or v <= hi)
        if t is dt.NormalizedString:
            return not any(c in v for c in "\r\n\t")
        return True
    holders = [
        ("Property", lambda t, v: model.Property("p", t, value=v), ["value"]),
        ("Qualifier", lambda t, v: model.Qualifier("q", t, value=v), ["value"]),
        ("Extension", lambda t, v: model.Extension("e", t, value=v), ["value"]),
        ("Range", lambda t, v: model.Range("r", t, min=v, max=v), ["min", "max"]),
    ]
    pairs = [(t, v) for t in types for v in values]
    if chk.tier == "quick":
        pairs = [p for i, p in enumerate(pairs) if i % 2 == chk.seed % 2 or p[1] is None or isinstance(p[1], int)]
    for hname, mk, attrs_ in holders:
        for t, v in pairs:
            chk.seen(("value", hname, t.__name__, repr(v)), nontrivial=v is not None)
            chk.count("value:" + hname)
            sig_t = "int" if t in bounds or t is dt.Integer else t.__name__
            # constructor
            try:
                o = mk(t, v)
                for a in attrs_:
                    if v is not None and getattr(o, a) is None:
                        chk.fail(f"C02:value:{hname}:ctor:falsy-lost", f"{hname}(value_type={t.__name__}, {a}={v!r}) accepted "
                                 "but the attribute is None (a present value was treated as absent)",
                                 {"kind": "value", "holder": hname, "type": t.__name__, "value": repr(v)})
                    if not consistent(getattr(o, a), t):
                        chk.fail(f"C02:value:{hname}:ctor:{sig_t}", f"{hname}(value_type={t.__name__}, {a}={v!r}) accepted; "
                                 f"stored {getattr(o, a)!r} is not a valid {t.__name__}",
                                 {"kind": "value", "holder": hname, "type": t.__name__, "value": repr(v)})
            except (TypeError, ValueError):
                pass
            except Exception as e:  # noqa
                chk.fail(f"C02:value:{hname}:ctor:error-class", f"{hname}(value_type={t.__name__}, value={v!r}) raised "
                         f"{type(e).__name__}", {"kind": "value", "holder": hname, "type": t.__name__, "value": repr(v)})
            # setter on an empty holder
            o = mk(t, None)
            for a in attrs_:
                e = call(lambda: setattr(o, a, v))
                cur = getattr(o, a)
                if e is None and v is not None and cur is None:
                    chk.fail(f"C02:value:{hname}:set:falsy-lost", f"{hname}.{a} = {v!r} with value_type {t.__name__} accepted "
                             "but the attribute is None afterwards (a present value was treated as absent)",
                             {"kind": "value", "holder": hname, "type": t.__name__, "value": repr(v)})
                if e is None and not consistent(cur, t):
                    chk.fail(f"C02:value:{hname}:set:{sig_t}", f"{hname}.{a} = {v!r} with value_type {t.__name__} accepted; stored {cur!r}",
                             {"kind": "value", "holder": hname, "type": t.__name__, "value": repr(v)})
                if e is not None and (not isinstance(e, (TypeError, ValueError)) or cur is not None):
                    chk.fail(f"C02:value:{hname}:set:rejected-state", f"{hname}.{a} = {v!r} with value_type {t.__name__}: "
                             f"{type(e).__name__}, attribute afterwards {cur!r}",
                             {"kind": "value", "holder": hname, "type": t.__name__, "value": repr(v)})
    # assignment to value_type while a value is present
    n2 = 0
    for hname, mk, attrs_ in holders:
        for t, v in pairs:
            try:
                o = mk(t, v)
            except Exception:  # noqa
                continue
            if v is None:
                continue
            for t2 in (types if chk.tier != "quick" else rng.sample(types, 8)):
                o = mk(t, v)
                before = (o.value_type, [getattr(o, a) for a in attrs_])
                e = call(lambda: setattr(o, "value_type", t2))
                n2 += 1
                chk.seen(("value_type", hname, t.__name__, t2.__name__, repr(v)), nontrivial=True)
                after = (o.value_type, [getattr(o, a) for a in attrs_])
                if e is None:
                    bad = [a for a in attrs_ if not consistent(getattr(o, a), o.value_type)]
                    if o.value_type is not t2 or bad:
                        chk.fail(f"C02:value_type-assignment:{hname}", f"{hname}: value_type {t.__name__} -> {t2.__name__} with "
                                 f"value {v!r} accepted; now value_type={o.value_type.__name__}, value={after[1]!r}",
                                 {"kind": "value_type", "holder": hname, "from": t.__name__, "to": t2.__name__, "value": repr(v)})
                elif not isinstance(e, (TypeError, ValueError)) or after[0] is not before[0] or \
                        any(x is not y for x, y in zip(after[1], before[1])):
                    chk.fail(f"C02:value_type-assignment:{hname}:rejected-state", f"{hname}: value_type {t.__name__} -> "
                             f"{t2.__name__} with value {v!r}: {type(e).__name__}; object changed or wrong error class",
                             {"kind": "value_type", "holder": hname, "from": t.__name__, "to": t2.__name__, "value": repr(v)})
    chk.count("value:value_type-assignments", n2)
    # Extension: value_type None
    o = model.Extension("e")
    e = call(lambda: setattr(o, "value", 5))
    if not isinstance(e, ValueError) or o.value is not None:
        chk.fail("C02:value:Extension:no-type", "Extension without value_type accepted a value", {"kind": "value-ext"})
    o = model.Extension("e", dt.Int, 5)
    e = call(lambda: setattr(o, "value_type", None))
    if not isinstance(e, (ValueError, TypeError)) or o.value_type is not dt.Int or o.value != 5:
        chk.fail("C02:value_type-assignment:Extension:none", "Extension.value_type = None with a value present: "
                 f"{e!r}, value_type={o.value_type}, value={o.value!r}", {"kind": "value-ext"})


def run_all(chk, can_eval):
    frag_adm(chk, can_eval)
    frag_bee(chk, can_eval)
    frag_category(chk, can_eval)
    frag_lss(chk, can_eval)
    frag_values(chk)


def replay_case(rp):
    k = rp["kind"]
    if k == "adm":
        c = rp["case"]
        tr, fail = adm_run((tuple(c[0]), tuple(c[1]), [(w, tuple(a)) for w, a in c[2]]))
    elif k == "bee":
        c = rp["case"]
        tr, fail = bee_run((c[0], c[1], c[2], [tuple(o) for o in c[3]]), rp.get("pick", 0))
    elif k == "lss":
        c = rp["case"]
        ops = [tuple([o[0], [tuple(x) for x in o[1]]]) if o[0] == "update" else tuple(o) for o in c[2]]
        tr, fail = lss_run((c[0], [tuple(x) for x in c[1]], ops) + tuple(c[3:]))
    else:
        print(rp)
        return 1
    print("trace:", tr)
    print("oracle:", fail)
    return 1 if fail else 0
