"""Shared by tools/c10.py and tools/c11.py: abstract objects (the same shape as model/Http.v),
their SDK / JSON / XML renderings, fixture stores, URL construction, response canonicalisation.

Abstract values (plain Python data, mirrored 1:1 by the Coq model):
  shell   = {"k": "shell", "id": str, "ids": str|None, "tok": int, "refs": [submodel id str]}
  submodel= {"k": "sm", "id": str, "ids": str|None, "tok": int, "quals": [(type, val)], "elems": [elem]}
  cd      = {"k": "cd", "id": str, "ids": str|None, "tok": int}
  elem    = {"mt": "Property"|"SubmodelElementCollection"|"SubmodelElementList"|"File"|"Blob"|"Range",
             "ids": str|None, "tok": int, "quals": [(type, val)], "children": [elem],
             "ctype": str, "value": str|None}     (ctype/value: File and Blob only)
`tok` stands for "all other attributes": it is carried by `category` ("T<tok>"); for shells by
assetInformation.globalAssetId ("urn:asset:<tok>").
"""
import base64
import io
import json

from lxml import etree

from basyx.aas import model
from basyx.aas.adapter.json import AASToJsonEncoder
from basyx.aas.adapter.xml import xml_serialization
from basyx.aas.adapter._generic import XML_NS_MAP

NS = "{" + XML_NS_MAP["aas"] + "}"
BASE = "/api/v3.0"
HOST = "http://localhost"


def b64(s):
    return base64.urlsafe_b64encode(s.encode("utf-8")).decode("ascii")


def b64_nopad(s):
    return b64(s).rstrip("=")


# ------------------------------------------------------------------ abstract -> SDK objects

def mk_quals(quals):
    return [model.Qualifier(t, model.datatypes.String, v) for (t, v) in quals]


def mk_elem(e):
    common = dict(category=f"T{e['tok']}", qualifier=mk_quals(e.get("quals", [])))
    mt = e["mt"]
    if mt == "Property":
        return model.Property(e["ids"], model.datatypes.String, value=f"v{e['tok']}", **common)
    if mt == "Range":
        return model.Range(e["ids"], model.datatypes.Int, min=e["tok"], max=e["tok"] + 1, **common)
    if mt == "SubmodelElementCollection":
        return model.SubmodelElementCollection(e["ids"], value=[mk_elem(c) for c in e.get("children", [])], **common)
    if mt == "SubmodelElementList":
        return model.SubmodelElementList(e["ids"], model.Property, value=[mk_elem(c) for c in e.get("children", [])],
                                         value_type_list_element=model.datatypes.String, **common)
    if mt == "File":
        return model.File(e["ids"], content_type=e.get("ctype", "text/plain"), value=e.get("value"), **common)
    if mt == "Blob":
        v = e.get("value")
        return model.Blob(e["ids"], content_type=e.get("ctype", "text/plain"),
                          value=None if v is None else v.encode("utf-8"), **common)
    raise ValueError(mt)


def sm_ref(smid):
    return model.ModelReference((model.Key(model.KeyTypes.SUBMODEL, smid),), model.Submodel)


def mk_obj(a):
    k = a["k"]
    if k == "shell":
        return model.AssetAdministrationShell(
            model.AssetInformation(model.AssetKind.INSTANCE, global_asset_id=f"urn:asset:{a['tok']}"),
            a["id"], id_short=a["ids"], submodel={sm_ref(s) for s in a.get("refs", [])})
    if k == "sm":
        return model.Submodel(a["id"], id_short=a["ids"], category=f"T{a['tok']}",
                              qualifier=mk_quals(a.get("quals", [])),
                              submodel_element=[mk_elem(e) for e in a.get("elems", [])])
    if k == "cd":
        return model.ConceptDescription(a["id"], id_short=a["ids"], category=f"T{a['tok']}")
    if k == "elem":
        return mk_elem(a)
    if k == "qual":
        return model.Qualifier(a["type"], model.datatypes.String, a["val"])
    if k == "ref":
        return sm_ref(a["id"])
    if k == "ai":
        return model.AssetInformation(model.AssetKind.INSTANCE, global_asset_id=f"urn:asset:{a['tok']}")
    raise ValueError(k)


def to_json_bytes(obj):
    return json.dumps(obj, cls=AASToJsonEncoder).encode("utf-8")


def to_xml_bytes(obj):
    el = xml_serialization.object_to_xml_element(obj)
    return etree.tostring(el, xml_declaration=True, encoding="utf-8")


# ------------------------------------------------------------------ responses -> abstract

def _tok(s, prefix):
    if isinstance(s, str) and s.startswith(prefix) and s[len(prefix):].isdigit():
        return int(s[len(prefix):])
    return -1


def abs_quals_json(d):
    return [(q.get("type"), q.get("value")) for q in d.get("qualifiers", [])]


def abs_elem_json(d):
    mt = d.get("modelType")
    r = {"mt": mt, "ids": d.get("idShort"), "tok": _tok(d.get("category"), "T"), "quals": abs_quals_json(d),
         "children": [], "ctype": None, "value": None}
    if mt in ("SubmodelElementCollection", "SubmodelElementList"):
        r["children"] = [abs_elem_json(c) for c in d.get("value", [])]
    if mt == "File":
        r["ctype"], r["value"] = d.get("contentType"), d.get("value")
    if mt == "Blob":
        v = d.get("value")
        r["ctype"], r["value"] = d.get("contentType"), (None if v is None else base64.b64decode(v).decode("utf-8"))
    return r


def abs_ref_json(d):
    return {"k": "ref", "keys": [(k.get("type"), k.get("value")) for k in d.get("keys", [])]}


def abs_json(d):
    """JSON response document (already json.loads'ed) -> abstract value."""
    if isinstance(d, list):
        return [abs_json(x) for x in d]
    if not isinstance(d, dict):
        return {"k": "scalar", "v": d}
    if "paging_metadata" in d and "result" in d:
        return {"k": "page", "cursor": d["paging_metadata"].get("cursor"), "items": abs_json(d["result"])}
    if "success" in d and "messages" in d:
        return {"k": "result", "success": d["success"],
                "codes": [m.get("code") for m in d["messages"]],
                "types": [m.get("messageType") for m in d["messages"]]}
    mt = d.get("modelType")
    if mt == "AssetAdministrationShell":
        return {"k": "shell", "id": d.get("id"), "ids": d.get("idShort"),
                "tok": _tok(d.get("assetInformation", {}).get("globalAssetId"), "urn:asset:"),
                "refs": [r["keys"][0]["value"] for r in d.get("submodels", [])]}
    if mt == "Submodel":
        return {"k": "sm", "id": d.get("id"), "ids": d.get("idShort"), "tok": _tok(d.get("category"), "T"),
                "quals": abs_quals_json(d), "elems": [abs_elem_json(e) for e in d.get("submodelElements", [])]}
    if mt == "ConceptDescription":
        return {"k": "cd", "id": d.get("id"), "ids": d.get("idShort"), "tok": _tok(d.get("category"), "T")}
    if mt is not None:
        r = abs_elem_json(d)
        r["k"] = "elem"
        return r
    if "keys" in d and "type" in d:
        return abs_ref_json(d)
    if "type" in d and "valueType" in d:
        return {"k": "qual", "type": d.get("type"), "val": d.get("value")}
    if "assetKind" in d:
        return {"k": "ai", "tok": _tok(d.get("globalAssetId"), "urn:asset:")}
    return {"k": "unknown", "keys": sorted(d)}


def _xt(el, name):
    c = el.find(NS + name)
    return None if c is None else (c.text or "")


def abs_quals_xml(el):
    qs = el.find(NS + "qualifiers")
    return [] if qs is None else [(_xt(q, "type"), _xt(q, "value")) for q in qs]


XML_MT = {"property": "Property", "range": "Range", "submodelElementCollection": "SubmodelElementCollection",
          "submodelElementList": "SubmodelElementList", "file": "File", "blob": "Blob"}


def abs_elem_xml(el, tagname=None):
    tag = tagname or etree.QName(el).localname
    mt = XML_MT.get(tag, tag)
    r = {"mt": mt, "ids": _xt(el, "idShort"), "tok": _tok(_xt(el, "category"), "T"), "quals": abs_quals_xml(el),
         "children": [], "ctype": None, "value": None}
    if mt in ("SubmodelElementCollection", "SubmodelElementList"):
        v = el.find(NS + "value")
        r["children"] = [] if v is None else [abs_elem_xml(c) for c in v]
    if mt == "File":
        r["ctype"], r["value"] = _xt(el, "contentType"), _xt(el, "value")
    if mt == "Blob":
        v = _xt(el, "value")
        r["ctype"], r["value"] = _xt(el, "contentType"), (None if v is None else base64.b64decode(v).decode("utf-8"))
    return r


def abs_ref_xml(el):
    ks = el.find(NS + "keys")
    return {"k": "ref", "keys": [] if ks is None else [(_xt(k, "type"), _xt(k, "value")) for k in ks]}


def abs_xml_item(el):
    tag = etree.QName(el).localname
    if tag == "assetAdministrationShell":
        ai = el.find(NS + "assetInformation")
        sms = el.find(NS + "submodels")
        return {"k": "shell", "id": _xt(el, "id"), "ids": _xt(el, "idShort"),
                "tok": _tok(None if ai is None else _xt(ai, "globalAssetId"), "urn:asset:"),
                "refs": [] if sms is None else [abs_ref_xml(r)["keys"][0][1] for r in sms]}
    if tag == "submodel":
        ses = el.find(NS + "submodelElements")
        return {"k": "sm", "id": _xt(el, "id"), "ids": _xt(el, "idShort"), "tok": _tok(_xt(el, "category"), "T"),
                "quals": abs_quals_xml(el), "elems": [] if ses is None else [abs_elem_xml(e) for e in ses]}
    if tag == "conceptDescription":
        return {"k": "cd", "id": _xt(el, "id"), "ids": _xt(el, "idShort"), "tok": _tok(_xt(el, "category"), "T")}
    if tag in XML_MT:
        r = abs_elem_xml(el)
        r["k"] = "elem"
        return r
    if tag == "reference":
        return abs_ref_xml(el)
    if tag == "qualifier":
        return {"k": "qual", "type": _xt(el, "type"), "val": _xt(el, "value")}
    if tag == "assetInformation":
        return {"k": "ai", "tok": _tok(_xt(el, "globalAssetId"), "urn:asset:")}
    return {"k": "unknown", "keys": [tag]}


def abs_xml(data, hint):
    """XML response body -> abstract value.  A single object is flattened into <response> by the
    server (children appended without their own element), so the expected kind (`hint`: 'shell',
    'sm', 'cd', 'elem:<modelType>', 'ref', 'qual', 'ai', 'list', 'result') says how to read it."""
    root = etree.fromstring(data)
    if etree.QName(root).localname != "response":
        return {"k": "unknown", "keys": [etree.QName(root).localname]}
    if root.find("success") is not None:
        msgs = root.find("messages")
        return {"k": "result", "success": {"true": True, "false": False}.get(root.find("success").text),
                "codes": [m.find("code").text for m in msgs], "types": [m.find("messageType").text for m in msgs]}
    cursor = root.get("cursor")
    if hint == "list":
        items = [abs_xml_item(c) for c in root]
        return {"k": "page", "cursor": cursor, "items": items} if cursor is not None else items
    tagmap = {"shell": "assetAdministrationShell", "sm": "submodel", "cd": "conceptDescription", "ref": "reference",
              "qual": "qualifier", "ai": "assetInformation"}
    if hint.startswith("elem:"):
        inv = {v: k for k, v in XML_MT.items()}
        fake = etree.Element(NS + inv.get(hint[5:], hint[5:]))
    else:
        fake = etree.Element(NS + tagmap[hint])
    for c in root:
        fake.append(c)
    return abs_xml_item(fake)


# ------------------------------------------------------------------ store snapshot (independent of the server)

def snap_elem(e):
    r = {"mt": type(e).__name__, "ids": e.id_short, "tok": _tok(e.category, "T"),
         "quals": sorted((q.type, q.value) for q in e.qualifier), "children": [], "ctype": None, "value": None}
    if isinstance(e, model.SubmodelElementCollection):
        r["children"] = [snap_elem(c) for c in e.value]
    elif isinstance(e, model.SubmodelElementList):
        r["children"] = [dict(snap_elem(c), ids=None) for c in e.value]
    elif isinstance(e, model.File):
        r["ctype"], r["value"] = e.content_type, e.value
    elif isinstance(e, model.Blob):
        r["ctype"], r["value"] = e.content_type, (None if e.value is None else e.value.decode("utf-8", "replace"))
    return r


def snap_obj(o):
    if isinstance(o, model.AssetAdministrationShell):
        return {"k": "shell", "id": o.id, "ids": o.id_short,
                "tok": _tok(o.asset_information.global_asset_id, "urn:asset:"),
                "refs": sorted(r.key[0].value for r in o.submodel)}
    if isinstance(o, model.Submodel):
        return {"k": "sm", "id": o.id, "ids": o.id_short, "tok": _tok(o.category, "T"),
                "quals": sorted((q.type, q.value) for q in o.qualifier),
                "elems": [snap_elem(e) for e in o.submodel_element]}
    if isinstance(o, model.ConceptDescription):
        return {"k": "cd", "id": o.id, "ids": o.id_short, "tok": _tok(o.category, "T")}
    return {"k": type(o).__name__}


def snapshot(store, files):
    """Canonical snapshot of the object store (by key, through the public store API) and of the
    file container.  For a local-file store the objects are re-read through a fresh store."""
    objs = []
    for o in store:
        objs.append(snap_obj(o))
    objs.sort(key=lambda d: json.dumps(d, sort_keys=True, default=str))
    fl = []
    for name in files:
        b = io.BytesIO()
        files.write_file(name, b)
        fl.append((name, files.get_content_type(name), b.getvalue().decode("latin-1")))
    return json.dumps({"objects": objs, "files": sorted(fl)}, sort_keys=True, default=str)
