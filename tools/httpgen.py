"""Shared by tools/c10.py and tools/c11.py: abstract objects (the same shape as model/Http.v),
their SDK / JSON / XML renderings, response and store canonicalisation into rows of integers
(mirror of model/HttpObs.v), Coq term printers, the SDK driver.

Abstract values (plain Python data, mirrored 1:1 by the Coq model):
  shell   = {"k": "shell", "id": str, "ids": str|None, "tok": int, "refs": [submodel id str]}
  submodel= {"k": "sm", "id": str, "ids": str|None, "tok": int, "quals": [(type str, val int)], "elems": [elem]}
  cd      = {"k": "cd", "id": str, "ids": str|None, "tok": int}
  elem    = {"mt": "Property"|"Range"|"SubmodelElementCollection"|"SubmodelElementList"|"File"|"Blob",
             "ids": str|None, "tok": int, "quals": [...], "children": [elem], "ctype": int,
             "val": None | ("path", str) | ("data", int)}
  qual    = {"k": "qual", "type": str, "val": int};  ref = {"k": "ref", "id": str};  ai = {"k": "ai", "tok": int}
`tok` stands for "all other attributes": carried by `description` ({"en": "T<tok>"}) AND, for submodels and
submodel elements, by semanticId / supplementalSemanticIds (sem_class(tok): 0 = neither, 1 = semanticId only,
2 = semanticId + one supplementalSemanticId; attributes that constrain each other and are taken over one after
the other by Referable.update_from).  A document whose description and semantics disagree (a half-updated object)
reads as tok -2.  For shells tok is carried by assetInformation.globalAssetId ("urn:asset:<tok>").
ctype / data are indices into CTYPES / CONTENTS.
"""
import base64
import binascii
import io
import json
import re
import sys
import urllib.parse

from lxml import etree

from basyx.aas import model
from basyx.aas.adapter.json import AASToJsonEncoder
from basyx.aas.adapter.xml import xml_serialization
from basyx.aas.adapter._generic import XML_NS_MAP

NS = "{" + XML_NS_MAP["aas"] + "}"
BASE = "/api/v3.0"
CTYPES = ["text/plain", "application/pdf", "text/plain\r\nX-Evil: 1"]   # index >= 2: cannot be sent as a header value
CONTENTS = [b"", b"hello", b"\x00\xff bin", b"other"]
MT = {"Property": 1, "Range": 2, "SubmodelElementCollection": 3, "SubmodelElementList": 4, "File": 5, "Blob": 6,
      "RelationshipElement": 7, "AnnotatedRelationshipElement": 8}
MTC = {"Property": "MProp", "Range": "MRange", "SubmodelElementCollection": "MColl", "SubmodelElementList": "MList",
       "File": "MFile", "Blob": "MBlob", "RelationshipElement": "MRel", "AnnotatedRelationshipElement": "MARel"}


def b64(s):
    return base64.urlsafe_b64encode(s.encode("utf-8")).decode("ascii")


# ------------------------------------------------------------------ abstract -> SDK objects

def _desc(tok):
    return model.MultiLanguageTextType({"en": f"T{tok}"})


LIST_SEMANTICS = model.ExternalReference((model.Key(model.KeyTypes.GLOBAL_REFERENCE, "urn:list:semantics"),))
# every semanticId of the pool is the same reference, so that the items of a SubmodelElementList may carry it whatever
# the list's semanticIdListElement is (AASd-107, AASd-114)
SEM_VALUE, SUPPL_VALUE = "urn:list:semantics", "urn:supplemental:1"
SUPPL_SEMANTICS = model.ExternalReference((model.Key(model.KeyTypes.GLOBAL_REFERENCE, SUPPL_VALUE),))


def sem_class(tok):
    """which of semanticId / supplementalSemanticIds an object with this `tok` carries"""
    return tok % 3 if tok > 0 else 0


def _sem(tok):
    c = sem_class(tok)
    return dict(semantic_id=LIST_SEMANTICS if c >= 1 else None,
                supplemental_semantic_id=[SUPPL_SEMANTICS] if c == 2 else [])


def _tok_sem(tok, sem, suppl):
    """tok read from the description + what was read from semanticId / supplementalSemanticIds (lists of the
    first key values) -> tok, or -2 if they do not belong to the same document"""
    if tok < 0:
        return tok
    want = sem_class(tok)
    ok = sem == ([SEM_VALUE] if want >= 1 else []) and suppl == ([SUPPL_VALUE] if want == 2 else [])
    return tok if ok else -2


def list_typing(type_value, semantic_id_present):
    return 1 if type_value == "Range" else (2 if semantic_id_present else 0)


def mk_quals(quals):
    return [model.Qualifier(t, model.datatypes.String, str(v)) for (t, v) in quals]


def mk_elem(e):
    common = dict(description=_desc(e["tok"]), qualifier=mk_quals(e.get("quals", [])), **_sem(e["tok"]))
    mt = e["mt"]
    val = e.get("val")
    ct = CTYPES[e.get("ctype", 0)]
    if mt == "Property":
        return model.Property(e["ids"], model.datatypes.String, value="x", **common)
    if mt == "Range":
        return model.Range(e["ids"], model.datatypes.Int, min=1, max=2, **common)
    if mt == "SubmodelElementCollection":
        return model.SubmodelElementCollection(e["ids"], value=[mk_elem(c) for c in e.get("children", [])], **common)
    if mt == "SubmodelElementList":
        # the typing of the list travels in the `ctype` field: 0 = Property/xs:string, 1 = Range/xs:int,
        # 2 = Property/xs:string with a semanticIdListElement
        lt = e.get("ctype", 0)
        return model.SubmodelElementList(
            e["ids"], model.Range if lt == 1 else model.Property, value=[mk_elem(c) for c in e.get("children", [])],
            value_type_list_element=model.datatypes.Int if lt == 1 else model.datatypes.String,
            semantic_id_list_element=LIST_SEMANTICS if lt == 2 else None, **common)
    if mt == "File":
        return model.File(e["ids"], content_type=ct, value=None if val is None else val[1], **common)
    if mt == "Blob":
        return model.Blob(e["ids"], content_type=ct, value=None if val is None else CONTENTS[val[1]], **common)
    if mt in ("RelationshipElement", "AnnotatedRelationshipElement"):
        ref = model.ExternalReference((model.Key(model.KeyTypes.GLOBAL_REFERENCE, "urn:x"),))
        cls = model.RelationshipElement if mt == "RelationshipElement" else model.AnnotatedRelationshipElement
        return cls(e["ids"], ref, ref, **common)
    raise ValueError(mt)


RSI_IDS = set()    # submodel identifiers whose references carry a referredSemanticId (set by the case generators)


def sm_ref(smid):
    rsi = None
    if smid in RSI_IDS:
        rsi = model.ExternalReference((model.Key(model.KeyTypes.GLOBAL_REFERENCE, "urn:semantics:" + str(len(smid))),))
    return model.ModelReference((model.Key(model.KeyTypes.SUBMODEL, smid),), model.Submodel, rsi)


def mk_obj(a):
    k = a["k"]
    if k == "shell":
        return model.AssetAdministrationShell(
            model.AssetInformation(model.AssetKind.INSTANCE, global_asset_id=f"urn:asset:{a['tok']}"),
            a["id"], id_short=a["ids"], submodel={sm_ref(s) for s in a.get("refs", [])})
    if k == "sm":
        return model.Submodel(a["id"], id_short=a["ids"], description=_desc(a["tok"]), **_sem(a["tok"]),
                              qualifier=mk_quals(a.get("quals", [])),
                              submodel_element=[mk_elem(e) for e in a.get("elems", [])])
    if k == "cd":
        return model.ConceptDescription(a["id"], id_short=a["ids"], description=_desc(a["tok"]))
    if k == "elem":
        return mk_elem(a)
    if k == "qual":
        return model.Qualifier(a["type"], model.datatypes.String, str(a["val"]))
    if k == "ref":
        return sm_ref(a["id"])
    if k == "ai":
        return model.AssetInformation(model.AssetKind.INSTANCE, global_asset_id=f"urn:asset:{a['tok']}")
    raise ValueError(k)


def to_json_bytes(obj):
    return json.dumps(obj, cls=AASToJsonEncoder).encode("utf-8")


def to_xml_bytes(obj):
    el = xml_serialization.object_to_xml_element(obj)
    return etree.tostring(el, xml_declaration=True, encoding="utf-8")


# ------------------------------------------------------------------ responses -> abstract

def _tok(s, prefix):
    if isinstance(s, str) and s.startswith(prefix) and s[len(prefix):].isdigit():
        return int(s[len(prefix):])
    return -1


def _int(s):
    try:
        return int(s)
    except (TypeError, ValueError):
        return -1


def _refval(r):
    try:
        return r["keys"][0]["value"]
    except (KeyError, IndexError, TypeError):
        return "?"


def _tokd(d, sem=True):
    ds = d.get("description")
    if isinstance(ds, list) and len(ds) == 1 and isinstance(ds[0], dict):
        t = _tok(ds[0].get("text"), "T")
        if not sem:
            return t
        return _tok_sem(t, [_refval(d["semanticId"])] if "semanticId" in d else [],
                        [_refval(r) for r in d.get("supplementalSemanticIds", [])])
    return -1


def _idx(pool, v):
    try:
        return pool.index(v)
    except ValueError:
        return 99


def abs_quals_json(d):
    return [(q.get("type"), _int(q.get("value"))) for q in d.get("qualifiers", [])]


def abs_elem_json(d):
    mt = d.get("modelType")
    r = {"mt": mt, "ids": d.get("idShort"), "tok": _tokd(d), "quals": abs_quals_json(d),
         "children": [], "ctype": 0, "val": None}
    if mt in ("SubmodelElementCollection", "SubmodelElementList"):
        r["children"] = [abs_elem_json(c) for c in d.get("value", [])]
    if mt == "SubmodelElementList":
        r["ctype"] = list_typing(d.get("typeValueListElement"), "semanticIdListElement" in d)
    if mt == "File":
        r["ctype"] = _idx(CTYPES, d.get("contentType"))
        r["val"] = None if d.get("value") is None else ("path", d.get("value"))
    if mt == "Blob":
        v = d.get("value")
        r["ctype"] = _idx(CTYPES, d.get("contentType"))
        r["val"] = None if v is None else ("data", _idx(CONTENTS, base64.b64decode(v)))
    return r


def abs_ref_json(d):
    return {"k": "keys", "keys": [(k.get("type"), k.get("value")) for k in d.get("keys", [])]}


def abs_json(d):
    """JSON response document (already json.loads'ed) -> abstract value."""
    if isinstance(d, list):
        return [abs_json(x) for x in d]
    if not isinstance(d, dict):
        return {"k": "scalar", "v": d}
    if "paging_metadata" in d and "result" in d:
        return {"k": "page", "cursor": d["paging_metadata"].get("cursor"), "items": abs_json(d["result"])}
    if "success" in d and "messages" in d:
        return {"k": "result", "success": d["success"],
                "codes": [m.get("code") for m in d["messages"]],
                "types": [m.get("messageType") for m in d["messages"]]}
    mt = d.get("modelType")
    if mt == "AssetAdministrationShell":
        return {"k": "shell", "id": d.get("id"), "ids": d.get("idShort"),
                "tok": _tok(d.get("assetInformation", {}).get("globalAssetId"), "urn:asset:"),
                "refs": [r["keys"][0]["value"] for r in d.get("submodels", [])]}
    if mt == "Submodel":
        return {"k": "sm", "id": d.get("id"), "ids": d.get("idShort"), "tok": _tokd(d),
                "quals": abs_quals_json(d), "elems": [abs_elem_json(e) for e in d.get("submodelElements", [])]}
    if mt == "ConceptDescription":
        return {"k": "cd", "id": d.get("id"), "ids": d.get("idShort"), "tok": _tokd(d, sem=False)}
    if mt is not None:
        r = abs_elem_json(d)
        r["k"] = "elem"
        return r
    if "keys" in d and "type" in d:
        return abs_ref_json(d)
    if "type" in d and "valueType" in d:
        return {"k": "qual", "type": d.get("type"), "val": _int(d.get("value"))}
    if "assetKind" in d:
        return {"k": "ai", "tok": _tok(d.get("globalAssetId"), "urn:asset:")}
    return {"k": "unknown", "keys": sorted(d)}


def _xt(el, name):
    c = el.find(NS + name)
    return None if c is None else (c.text or "")


def _refvalx(r):
    ks = r.find(NS + "keys")
    return _xt(ks[0], "value") if ks is not None and len(ks) else "?"


def _tokx(el, sem=True):
    d = el.find(NS + "description")
    if d is not None and len(d) == 1:
        t = _tok(_xt(d[0], "text"), "T")
        if not sem:
            return t
        si, su = el.find(NS + "semanticId"), el.find(NS + "supplementalSemanticIds")
        return _tok_sem(t, [] if si is None else [_refvalx(si)], [] if su is None else [_refvalx(r) for r in su])
    return -1


def abs_quals_xml(el):
    qs = el.find(NS + "qualifiers")
    return [] if qs is None else [(_xt(q, "type"), _int(_xt(q, "value"))) for q in qs]


XML_MT = {"property": "Property", "range": "Range", "submodelElementCollection": "SubmodelElementCollection",
          "submodelElementList": "SubmodelElementList", "file": "File", "blob": "Blob",
          "relationshipElement": "RelationshipElement", "annotatedRelationshipElement": "AnnotatedRelationshipElement"}


def abs_elem_xml(el, mt=None):
    if mt is None:
        tag = etree.QName(el).localname
        mt = XML_MT.get(tag, tag)
    r = {"mt": mt, "ids": _xt(el, "idShort"), "tok": _tokx(el), "quals": abs_quals_xml(el),
         "children": [], "ctype": 0, "val": None}
    v = el.find(NS + "value")
    if v is not None and len(v):
        r["children"] = [abs_elem_xml(c) for c in v]
    if el.find(NS + "typeValueListElement") is not None:
        r["ctype"] = list_typing(_xt(el, "typeValueListElement"), el.find(NS + "semanticIdListElement") is not None)
    ct = _xt(el, "contentType")
    if ct is not None:
        r["ctype"] = _idx(CTYPES, ct)
        if v is not None:
            txt = v.text or ""
            if mt == "Blob":
                r["val"] = ("data", _idx(CONTENTS, base64.b64decode(txt)))
            elif mt == "File":
                r["val"] = ("path", txt)
            else:   # class unknown (flattened single object): a File value is a path or URL, a Blob value is base64
                r["val"] = ("raw", txt)
    return r


def abs_ref_xml(el):
    ks = el.find(NS + "keys")
    return {"k": "keys", "keys": [] if ks is None else [(_xt(k, "type"), _xt(k, "value")) for k in ks]}


def abs_xml_item(el, flattened=False):
    tag = etree.QName(el).localname
    if tag == "assetAdministrationShell":
        ai = el.find(NS + "assetInformation")
        sms = el.find(NS + "submodels")
        return {"k": "shell", "id": _xt(el, "id"), "ids": _xt(el, "idShort"),
                "tok": _tok(None if ai is None else _xt(ai, "globalAssetId"), "urn:asset:"),
                "refs": [] if sms is None else [abs_ref_xml(r)["keys"][0][1] for r in sms]}
    if tag == "submodel":
        ses = el.find(NS + "submodelElements")
        return {"k": "sm", "id": _xt(el, "id"), "ids": _xt(el, "idShort"), "tok": _tokx(el),
                "quals": abs_quals_xml(el), "elems": [] if ses is None else [abs_elem_xml(e) for e in ses]}
    if tag == "conceptDescription":
        return {"k": "cd", "id": _xt(el, "id"), "ids": _xt(el, "idShort"), "tok": _tokx(el, sem=False)}
    if tag in XML_MT or tag == "anyElement":
        r = abs_elem_xml(el, mt=("?" if flattened else None))
        r["k"] = "elem"
        return r
    if tag == "reference":
        return abs_ref_xml(el)
    if tag == "qualifier":
        return {"k": "qual", "type": _xt(el, "type"), "val": _int(_xt(el, "value"))}
    if tag == "assetInformation":
        return {"k": "ai", "tok": _tok(_xt(el, "globalAssetId"), "urn:asset:")}
    return {"k": "unknown", "keys": [tag]}


def abs_xml(data, hint):
    """XML response body -> abstract value.  A single object is flattened into <response> by the
    server (its children are appended without the element itself), so the expected kind (`hint`:
    shell, sm, cd, elem, ref, qual, ai, list) says how to read it."""
    root = etree.fromstring(data)
    if etree.QName(root).localname != "response":
        return {"k": "unknown", "keys": [etree.QName(root).localname]}
    if root.find("success") is not None:
        msgs = root.find("messages")
        return {"k": "result", "success": {"true": True, "false": False}.get(root.find("success").text),
                "codes": [m.find("code").text for m in msgs], "types": [m.find("messageType").text for m in msgs]}
    cursor = root.get("cursor")
    if hint == "list":
        items = [abs_xml_item(c) for c in root]
        return {"k": "page", "cursor": cursor, "items": items} if cursor is not None else items
    tagmap = {"shell": "assetAdministrationShell", "sm": "submodel", "cd": "conceptDescription", "ref": "reference",
              "qual": "qualifier", "ai": "assetInformation", "elem": "anyElement"}
    fake = etree.Element(NS + tagmap[hint])
    for c in list(root):
        fake.append(c)
    return abs_xml_item(fake, flattened=True)


# ------------------------------------------------------------------ store snapshot (independent of the server)

def _toko(o, sem=True):
    d = o.description
    if d is not None and len(d) == 1 and "en" in d:
        t = _tok(d["en"], "T")
        if not sem:
            return t
        kv = lambda r: r.key[0].value if len(r.key) else "?"
        return _tok_sem(t, [] if o.semantic_id is None else [kv(o.semantic_id)], [kv(r) for r in o.supplemental_semantic_id])
    return -1


def snap_elem(e, in_list=False):
    r = {"mt": type(e).__name__, "ids": None if in_list else e.id_short, "tok": _toko(e),
         "quals": [(q.type, _int(q.value)) for q in e.qualifier], "children": [], "ctype": 0, "val": None}
    if isinstance(e, model.SubmodelElementCollection):
        r["children"] = [snap_elem(c) for c in e.value]
    elif isinstance(e, model.SubmodelElementList):
        r["children"] = [snap_elem(c, True) for c in e.value]
        r["ctype"] = list_typing(e.type_value_list_element.__name__, e.semantic_id_list_element is not None)
    elif isinstance(e, model.File):
        r["ctype"], r["val"] = _idx(CTYPES, e.content_type), (None if e.value is None else ("path", e.value))
    elif isinstance(e, model.Blob):
        r["ctype"], r["val"] = _idx(CTYPES, e.content_type), (None if e.value is None else ("data", _idx(CONTENTS, e.value)))
    return r


def snap_obj(o):
    if isinstance(o, model.AssetAdministrationShell):
        return {"k": "shell", "id": o.id, "ids": o.id_short,
                "tok": _tok(o.asset_information.global_asset_id, "urn:asset:"),
                "refs": [r.key[0].value for r in o.submodel]}
    if isinstance(o, model.Submodel):
        return {"k": "sm", "id": o.id, "ids": o.id_short, "tok": _toko(o),
                "quals": [(q.type, _int(q.value)) for q in o.qualifier],
                "elems": [snap_elem(e) for e in o.submodel_element]}
    if isinstance(o, model.ConceptDescription):
        return {"k": "cd", "id": o.id, "ids": o.id_short, "tok": _toko(o, sem=False)}
    return {"k": "unknown", "keys": [type(o).__name__]}


def snap_files(files):
    fl = []
    for name in files:
        b = io.BytesIO()
        files.write_file(name, b)
        fl.append((name, _idx(CONTENTS, b.getvalue()), _idx(CTYPES, files.get_content_type(name))))
    return fl


def snapshot(store, files):
    """canonical text snapshot of store + container for the before/after comparison of the oracle"""
    objs = sorted(json.dumps(snap_obj(o), sort_keys=True, default=str) for o in store)
    return json.dumps({"objects": objs, "files": sorted(snap_files(files))}, sort_keys=True, default=str)


# ------------------------------------------------------------------ rows of integers (mirror of HttpObs.v)

class Sym:
    """strings (identifiers, idShorts, qualifier types) -> numbers, in order of first use"""
    def __init__(self):
        self.t = {}

    def __call__(self, s):
        if s not in self.t:
            self.t[s] = len(self.t) + 1
        return self.t[s]


def enc_on(sym, s):
    return [0] if s is None else [1, sym(s)]


def enc_quals(sym, q):
    return [len(q)] + [x for (t, v) in q for x in (sym(t), v)]


def enc_val(v):
    if v is None:
        return [0]
    if v[0] == "path":
        return [1, len(v[1])] + [ord(c) for c in v[1]]
    if v[0] == "data":
        return [2, v[1]]
    # flattened XML: decide by content (a Blob value is base64 of a known content)
    try:
        b = base64.b64decode(v[1], validate=True)
        if b in CONTENTS and not v[1].startswith(("/", "http")):
            return [2, CONTENTS.index(b)]
    except (binascii.Error, ValueError):
        pass
    return [1, len(v[1])] + [ord(c) for c in v[1]]


def enc_elem(sym, e):
    out = [MT.get(e["mt"], 0)] + enc_on(sym, e["ids"]) + [e["tok"]] + enc_quals(sym, e["quals"]) + [e["ctype"]] \
        + enc_val(e["val"]) + [len(e["children"])]
    for c in e["children"]:
        out += enc_elem(sym, c)
    return out


KEYROOT = {"AssetAdministrationShell": 0, "Submodel": 1}


def enc_value(sym, a):
    k = a.get("k")
    if k == "shell":
        return [1, sym(a["id"])] + enc_on(sym, a["ids"]) + [a["tok"], len(a["refs"])] + sorted(sym(r) for r in a["refs"])
    if k == "sm":
        out = [2, sym(a["id"])] + enc_on(sym, a["ids"]) + [a["tok"]] + enc_quals(sym, a["quals"]) + [len(a["elems"])]
        for e in a["elems"]:
            out += enc_elem(sym, e)
        return out
    if k == "cd":
        return [3, sym(a["id"])] + enc_on(sym, a["ids"]) + [a["tok"]]
    if k == "elem":
        return [4] + enc_elem(sym, a)
    if k == "qual":
        return [5, sym(a["type"]), a["val"]]
    if k == "ai":
        return [7, a["tok"]]
    if k == "keys":
        ks = a["keys"]
        if not ks:
            return [8, -1]
        out = [8, KEYROOT.get(ks[0][0], -1), sym(ks[0][1]), len(ks) - 1]
        for (t, v) in ks[1:]:
            out += [MT.get(t, 0)] + enc_on(sym, v)
        return out
    return [-9]


ACC = {"application/json": 1, "application/xml": 2, "text/xml": 3}


def enc_payload_api(sym, acc, a, sorted_):
    """a: abstract payload of an API response (None = empty body)"""
    if a is None:
        return [0, acc]
    if isinstance(a, dict) and a.get("k") == "result":
        code = a["codes"][0] if a["codes"] else ""
        ok = a["success"] is False and a["types"] == ["Error"] and len(a["codes"]) == 1
        return [1, acc] + [ord(c) for c in code] + ([] if ok else [-7])
    if isinstance(a, dict) and a.get("k") == "page" or isinstance(a, list):
        items = a["items"] if isinstance(a, dict) else a
        cur = [1, _int(a["cursor"])] if isinstance(a, dict) else [0]
        rows = [enc_value(sym, x) for x in items]
        if sorted_:
            rows.sort()
        return [3, acc] + cur + [len(rows)] + [x for r in rows for x in r]
    if a.get("k") == "elem":
        e = enc_elem(sym, a)
        if acc != 1:
            e = [0] + e[1:]
        return [2, acc, 4] + e
    return [2, acc] + enc_value(sym, a)


def enc_state(sym, store, files, backed):
    rows = [enc_value(sym, snap_obj(o)) for o in store]
    if backed:
        rows.sort()
    out = [len(rows)] + [x for r in rows for x in r] + [-1]
    for (name, c, t) in snap_files(files):
        out += [len(name)] + [ord(ch) for ch in name] + [c, t]
    return out


# ------------------------------------------------------------------ Coq term printers

def cz(n):
    return f"({n})" if n < 0 else str(n)


def cstr(s):
    assert all(32 <= ord(c) < 127 for c in s), repr(s)
    return '"' + s.replace('"', '""') + '"'


def con(sym, s):
    return "None" if s is None else f"(Some {sym(s)})"


def cquals(sym, q):
    return "[" + "; ".join(f"({sym(t)}, {cz(v)})" for (t, v) in q) + "]"


def cval(v):
    if v is None:
        return "ANone"
    if v[0] == "path":
        return f"(APath {cstr(v[1])})"
    return f"(AData {v[1]}%nat)"


def celem(sym, e, in_list=False):
    ch = "[" + "; ".join(f"({'None' if e['mt'] == 'SubmodelElementList' else con(sym, c.get('key', c['ids']))}, "
                         f"{celem(sym, c)})" for c in e.get("children", [])) + "]"
    return (f"(Elem {MTC[e['mt']]} {con(sym, e['ids'])} {cz(e['tok'])} {cquals(sym, e.get('quals', []))} "
            f"{e.get('ctype', 0)}%nat {cval(e.get('val'))} {ch})")


def cchildren(sym, elems):
    return "[" + "; ".join(f"({con(sym, c.get('key', c['ids']))}, {celem(sym, c)})" for c in elems) + "]"


def cvalue(sym, a):
    k = a["k"]
    if k == "shell":
        return (f"(VShell (mksh {sym(a['id'])} {con(sym, a['ids'])} {cz(a['tok'])} "
                f"[{'; '.join(str(sym(r)) for r in a.get('refs', []))}]))")
    if k == "sm":
        return (f"(VSm (mksm {sym(a['id'])} {con(sym, a['ids'])} {cz(a['tok'])} {cquals(sym, a.get('quals', []))} "
                f"{cchildren(sym, a.get('elems', []))}))")
    if k == "cd":
        return f"(VCd (mkcd {sym(a['id'])} {con(sym, a['ids'])} {cz(a['tok'])}))"
    if k == "elem":
        return f"(VElem {celem(sym, a)})"
    if k == "qual":
        return f"(VQual {sym(a['type'])} {cz(a['val'])})"
    if k == "ref":
        return f"(VRef {sym(a['id'])})"
    if k == "ai":
        return f"(VAsset {cz(a['tok'])})"
    raise ValueError(k)


def cobj(sym, a):
    v = cvalue(sym, a)
    ctor = {"shell": "OShell", "sm": "OSm", "cd": "OCd"}[a["k"]]
    inner = v[v.index(" ") + 1:-1]
    return f"({sym(a.get('key', a['id']))}, {ctor} {inner})"


def cstate(sym, objs, files, backed):
    fl = "[" + "; ".join(f"({cstr(n)}, {c}%nat, {t}%nat)" for (n, c, t) in files) + "]"
    return f"(mkst [{'; '.join(cobj(sym, o) for o in objs)}] (mkfiles {fl}) {'true' if backed else 'false'})"
