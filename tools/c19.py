"""C19 - DictSupplementaryFileContainer: theorems in coq/theories/props/C19.v over model/Files.v;
tie C: operation sequences run on the SDK and on the model (vm_compute); oracle: a Python dict."""
import io
import json

import common
from common import coq_str, coq_list, coq_zll, enc_str

THEOREMS = ["C19_inv", "C19_history", "C19_getters", "C19_add", "C19_delete",
            "C19_candidates_distinct", "C19_example", "C19_stream", "C19_stream_example"]

NAME_POOLS = [
    ["a.pdf", "a_0001.pdf", "b/c", "b/c.d.e", "x"],
    ["/aasx/f.txt", "/aasx/f_0001.txt", "/aasx/f_0002.txt", "f.txt", "/aasx/f"],
    ["n", "n_0001", "n_0001_0001", "n.", ".n"],
    ["a.b/c", "a.b/c_0001", "a.b/c.x", "a.b/", "/"],
    ["", ".", "..", "_0001", "a//b.c"],
    ["x", "/x", "x/", "//x", "/x_0001"],                      # names equal up to a leading / trailing slash
    ["docs/a.pdf", "/docs/a.pdf", "a.pdf", "docs/a_0001.pdf", "/docs/a_0001.pdf"],
    ["README", "README_0001", "manual.pdf", "manual_0001.pdf", "manual"],   # no '/' at all
]
# contents are opaque tokens for the model; sizes around the chunk sizes an implementation may read / write / hash with
CONTENTS = [b"", b"one", b"two", b"\x00\xff", b"k" * 65536, b"m" * 131072, b"n" * 65537, b"p" * 8192, b"q" * 4096]
# content types are opaque tokens for the container: variants that differ only in case or parameters are different types
CTYPES = ["application/pdf", "text/plain", "", "text/plain; charset=utf-8", "TEXT/PLAIN", "text/plain; charset=iso-8859-1"]


class ShortRaw(io.RawIOBase):
    """an unbuffered binary stream that hands out at most 5 bytes per read call (pipes and sockets behave like this)"""

    def __init__(self, data):
        self.data, self.pos = data, 0

    def readable(self):
        return True

    def readinto(self, b):
        n = min(len(b), 5, len(self.data) - self.pos)
        b[:n] = self.data[self.pos:self.pos + n]
        self.pos += n
        return n


class MemStream(io.BytesIO):
    """an in-memory stream of a caller's own class (e.g. one that counts the bytes handed out)"""

    def __init__(self, data):
        super().__init__(data)
        self.handed_out = 0

    def read(self, n=-1):
        r = super().read(n)
        self.handed_out += len(r)
        return r


# what a caller may have consumed from the stream before handing it over (a length prefix, an earlier payload in the same
# buffer; the second and third are themselves contents of the pool, so an exhausted stream's buffer looks like a real content)
PREFIXES = [b"\x00\x00\x00*", b"one", b"two", b"r" * 4096]


def _consume(f, n):
    while n > 0:
        got = f.read(n)
        if not got:
            raise AssertionError("harness: prefix longer than the stream")
        n -= len(got)


def stream_of(data, k):
    """The bytes as one of the binary streams a caller may pass - BytesIO, a subclass of it, a raw stream with short reads,
    a buffered reader, a real file - in one of the states such a stream may be in: fresh (position 0), or positioned behind
    a prefix the caller has consumed by read() or skipped by seek().  In every case `data` is exactly what read() yields
    from the current position, i.e. the content handed to the container (for b"": also an exhausted stream)."""
    j = (7 * k + len(data)) % 60          # 7 is coprime to 60: the selectors 0..59 run through all kind x state x prefix cells
    kind, state = j % 5, (j // 5) % 3
    prefix = PREFIXES[j // 15] if state else b""
    if len(data) > 4096 and kind in (2, 3):
        kind = 0
    if kind == 0:
        f = io.BytesIO(prefix + data)
    elif kind == 1:
        f = MemStream(prefix + data)
    elif kind == 2:
        f = ShortRaw(prefix + data)
    elif kind == 3:
        f = io.BufferedReader(ShortRaw(prefix + data), buffer_size=16)
    else:
        import tempfile
        f = tempfile.TemporaryFile()
        f.write(prefix + data)
        f.seek(0)
    if state == 1 or (state == 2 and not f.seekable()):
        _consume(f, len(prefix))
    elif state == 2:
        f.seek(len(prefix))
    return f


def gen_case(rng, maxlen):
    pool = rng.choice(NAME_POOLS)
    n = rng.randint(1, maxlen)
    ops = []
    for _ in range(n):
        if rng.random() < 0.62:
            # bias towards conflicts: few contents, few types
            # the last component selects the file object (kind x state x consumed prefix, see stream_of) the content arrives in
            ops.append(("add", rng.choice(pool), rng.randrange(len(CONTENTS) if rng.random() < .25 else (4 if rng.random() < .5 else 2)),
                        rng.randrange(len(CTYPES) if rng.random() < .35 else 2), rng.randrange(60)))
        else:
            ops.append(("del", rng.choice(pool)))
    return pool, ops


def observe(cont, out, pool):
    rows = [out, [10] + [x for n in cont for x in enc_str(n) + [-1]]]
    for n in pool:
        r = [11]
        try:
            b = io.BytesIO()
            cont.write_file(n, b)
            r += [1, CONTENTS.index(b.getvalue())]
        except KeyError:
            r += [6]
        try:
            r += [2, CTYPES.index(cont.get_content_type(n))]
        except KeyError:
            r += [6]
        try:
            h = cont.get_sha256(n)
            import hashlib
            r += [3, [hashlib.sha256(c).digest() for c in CONTENTS].index(h)]
        except KeyError:
            r += [6]
        r += [4, 1 if n in cont else 0]
        rows.append(r)
    return rows


def run_sdk(pool, ops):
    """Runs the ops on the real container.  Returns (trace, oracle_failure or None)."""
    from basyx.aas.adapter.aasx import DictSupplementaryFileContainer
    cont = DictSupplementaryFileContainer()
    ghost = {}     # independent reference: name -> (bytes, ctype), kept by a client
    trace = []
    fail = None
    for k, op in enumerate(ops):
        try:
            if op[0] == "add":
                _, name, ci, ti = op[:4]
                before = dict(ghost)
                res = cont.add_file(name, stream_of(CONTENTS[ci], op[4] if len(op) > 4 else k), CTYPES[ti])
                out = [0] + enc_str(res)
                want = (CONTENTS[ci], CTYPES[ti])
                if not isinstance(res, str):
                    fail = fail or (k, "add_file returned a non-string")
                else:
                    if before.get(name) in (None, want) and res != name:
                        fail = fail or (k, f"add_file({name!r}) returned {res!r} although the name was free or identical")
                    if res in before and before[res] != want:
                        fail = fail or (k, f"add_file handed out name {res!r} that holds a different file")
                    ghost[res] = want
            else:
                _, name = op
                cont.delete_file(name)
                out = [5]
                if name not in ghost:
                    fail = fail or (k, f"delete_file({name!r}) of an unknown name did not raise KeyError")
                ghost.pop(name, None)
        except KeyError:
            out = [6]
            if op[0] == "add" or op[1] in ghost:
                fail = fail or (k, f"{op} raised KeyError")
        except Exception as e:  # any other exception class is outside the documented behaviour
            out = [99]
            fail = fail or (k, f"{op} raised {type(e).__name__}: {e}")
        # oracle: listed names = ghost keys; each yields its bytes and content type
        try:
            listed = list(cont)
            if sorted(listed) != sorted(ghost) or len(set(listed)) != len(listed):
                fail = fail or (k, f"listed names {sorted(listed)} != names handed out {sorted(ghost)}")
            for n in set(pool) | set(ghost):
                if (n in cont) != (n in ghost):
                    fail = fail or (k, f"membership of {n!r} wrong")
            for n, (b, t) in ghost.items():
                bio = io.BytesIO()
                cont.write_file(n, bio)
                if bio.getvalue() != b or cont.get_content_type(n) != t:
                    fail = fail or (k, f"name {n!r} yields other bytes/content type than supplied")
            for n in pool:
                if n not in ghost:
                    for f in (lambda: cont.write_file(n, io.BytesIO()), lambda: cont.get_content_type(n),
                              lambda: cont.get_sha256(n)):
                        try:
                            f()
                            fail = fail or (k, f"query of absent name {n!r} did not raise KeyError")
                        except KeyError:
                            pass
            trace.append(observe(cont, out, pool))
        except Exception as e:
            fail = fail or (k, f"observation raised {type(e).__name__}: {e}")
            trace.append([[98]])
    return trace, fail


class Client:
    """one container with its independent reference (name -> (bytes, content type)) as a client would keep it"""

    def __init__(self, pool):
        from basyx.aas.adapter.aasx import DictSupplementaryFileContainer
        self.cont = DictSupplementaryFileContainer()
        self.ghost = {}
        self.pool = pool

    def step(self, op):
        """applies op; returns a failure message or None"""
        cont, ghost = self.cont, self.ghost
        try:
            if op[0] == "add":
                _, name, ci, ti = op[:4]
                want = (CONTENTS[ci], CTYPES[ti])
                res = cont.add_file(name, stream_of(CONTENTS[ci], op[4] if len(op) > 4 else len(self.ghost) + ci), CTYPES[ti])
                if not isinstance(res, str):
                    return "add_file returned a non-string"
                if ghost.get(name) in (None, want) and res != name:
                    return f"add_file({name!r}) returned {res!r} although the name was free or identical"
                if res in ghost and ghost[res] != want:
                    return f"add_file handed out name {res!r} that holds a different file"
                ghost[res] = want
            else:
                cont.delete_file(op[1])
                if op[1] not in ghost:
                    return f"delete_file({op[1]!r}) of an unknown name did not raise KeyError"
                del ghost[op[1]]
        except KeyError:
            if op[0] == "add" or op[1] in ghost:
                return f"{op} raised KeyError"
        except Exception as e:
            return f"{op} raised {type(e).__name__}: {e}"
        return None

    def query(self, n):
        """all accessors on one name against the reference; returns a failure message or None"""
        cont, ghost = self.cont, self.ghost
        import hashlib
        try:
            got = {}
            for key, f in (("type", lambda: cont.get_content_type(n)), ("sha", lambda: cont.get_sha256(n)),
                           ("bytes", lambda: (lambda b: (cont.write_file(n, b), b.getvalue())[1])(io.BytesIO()))):
                try:
                    got[key] = f()
                except KeyError:
                    got[key] = KeyError
            if n in ghost:
                b, t = ghost[n]
                if got != {"type": t, "sha": hashlib.sha256(b).digest(), "bytes": b}:
                    return f"name {n!r} yields other bytes/content type/hash than supplied"
                if n not in cont:
                    return f"membership of {n!r} wrong"
            else:
                if any(v is not KeyError for v in got.values()):
                    return f"query of absent name {n!r} did not raise KeyError"
                if n in cont:
                    return f"membership of {n!r} wrong"
        except Exception as e:
            return f"observation raised {type(e).__name__}: {e}"
        return None

    def listing(self):
        try:
            listed = list(self.cont)
        except Exception as e:
            return f"observation raised {type(e).__name__}: {e}"
        if sorted(listed) != sorted(self.ghost) or len(set(listed)) != len(listed):
            return f"listed names {sorted(listed)} != names handed out {sorted(self.ghost)}"
        return None


def run_sparse(pool, ops, mode):
    """Second observation schedule (caches make the order of observations matter): after each operation only the name the
    operation touched is queried FIRST (mode 0), or nothing is queried until the end (mode 1), or the names are queried in
    reverse pool order (mode 2); full comparison at the end.  Returns (k, msg) or None."""
    c = Client(pool)
    for k, op in enumerate(ops):
        msg = c.step(op)
        if msg is None and mode == 0:
            msg = c.query(op[1]) or c.listing()
        if msg is None and mode == 2:
            for n in reversed(pool):
                msg = msg or c.query(n)
        if msg:
            return (k, msg)
    for n in list(pool) + sorted(c.ghost):
        msg = c.query(n)
        if msg:
            return (len(ops) - 1, msg)
    msg = c.listing()
    return (len(ops) - 1, msg) if msg else None


def run_pair(pool, ops_a, ops_b, schedule):
    """Two containers alive at the same time, operations interleaved by schedule (list of 0/1): each must behave like its own
    reference whatever the other does.  Returns (k, msg) or None; k indexes the merged history."""
    cl = [Client(pool), Client(pool)]
    its = [iter(ops_a), iter(ops_b)]
    merged = 0
    for who in schedule:
        op = next(its[who], None)
        if op is None:
            continue
        msg = cl[who].step(op)
        for c in cl:
            msg = msg or c.listing()
            for n in pool:
                msg = msg or c.query(n)
        if msg:
            return (merged, f"container {who}: " + msg)
        merged += 1
    return None


HANG_S = 5
HANGS = [0]      # number of hangs seen in this run; after three the streams stop (every further case would hang too)


def _guard(f, hang_result):
    def g(*a):
        try:
            with common.deadline(HANG_S):
                return f(*a)
        except common.Hang:
            HANGS[0] += 1
            return hang_result(*a)
    return g


_run_sdk_raw, _run_sparse_raw, _run_pair_raw = run_sdk, run_sparse, run_pair
_HANG_MSG = f"an operation of the container did not return within {HANG_S} s (hang)"
run_sdk = _guard(_run_sdk_raw, lambda pool, ops: ([[[97]]], (len(ops) - 1, _HANG_MSG)))
run_sparse = _guard(_run_sparse_raw, lambda pool, ops, mode: (len(ops) - 1, _HANG_MSG))
run_pair = _guard(_run_pair_raw, lambda pool, a, b, sched: (0, _HANG_MSG))


def coq_op(op):
    if op[0] == "add":
        return f"Add {coq_str(op[1])} {op[2]}%nat {op[3]}%nat"
    return f"Del {coq_str(op[1])}"


def coq_case(pool, ops, trace):
    return ("(" + coq_list(coq_op(o) for o in ops) + ", " + coq_list(coq_str(n) for n in pool) + ", "
            + common.coq_z(common.zhash_d(trace, 3)) + ")")


def shrink(pool, ops, pred):
    """delta debugging on the op list; pred(ops) -> True if still failing"""
    cur = list(ops)
    changed = True
    n_eval = 0
    while changed:
        changed = False
        for i in range(len(cur)):
            cand = cur[:i] + cur[i + 1:]
            n_eval += 1
            if n_eval > (8 if HANGS[0] else 400):      # every evaluation of a hanging history costs HANG_S seconds
                return cur
            if cand and pred(cand):
                cur = cand
                changed = True
                break
    return cur


def signature_of(msg):
    import re
    m = re.sub(r"'[^']*'|\"[^\"]*\"|\[[^\]]*\]|\d+", "_", msg)
    return "C19:" + m[:70]


PRELUDE = ("From Coq Require Import List ZArith String.\nFrom Basyx Require Import model.Files model.FileStreams model.FilesObs.\n"
           "Open Scope string_scope.")


def run(chk):
    rng = chk.rng
    nseq, maxlen = (1500, 10) if chk.tier == "quick" else (30000, 16)
    chk.theorems("props.C19", THEOREMS, ["theories/props/C19.vo", "theories/model/FilesObs.vo"])
    # corpus first, then exhaustive short sequences (thorough), then random
    cases = []
    corpus = common.VERIF + "/corpus/C19"
    import os
    if os.path.isdir(corpus):
        for fn in sorted(os.listdir(corpus)):
            c = json.load(open(os.path.join(corpus, fn)))
            cases.append((c["pool"], [tuple(o) for o in c["ops"]]))
    if chk.tier == "thorough":
        import itertools
        pool = ["a.b", "a_0001.b", "c"]
        alpha = [("add", n, c, t) for n in pool[:2] for c in (0, 1) for t in (0, 1)] + [("del", n) for n in pool[:2]]
        for L in range(1, 5):
            for seq in itertools.product(alpha, repeat=L):
                cases.append((pool, list(seq)))
        chk.cov["exhaustive_short_sequences"] = f"all sequences of length <= 4 over {len(alpha)} ops: {len(cases)}"
    for _ in range(nseq):
        cases.append(gen_case(rng, maxlen))
    terms = []
    for pool, ops in cases:
        if HANGS[0] >= 3:
            break
        trace, fail = run_sdk(pool, ops)
        chk.seen((pool, ops), nontrivial=len(ops) >= 2)
        chk.count(f"len={len(ops)}")
        for o in ops:
            chk.count("op=" + o[0])
        for t in trace:
            chk.count("out=" + {0: "name", 5: "deleted", 6: "KeyError"}.get(t[0][0], "other"))
        if fail:
            k, msg = fail
            small = shrink(pool, ops[:k + 1], lambda o: run_sdk(pool, o)[1] is not None)
            if run_sdk(pool, small)[1] is None:      # the failure needs the whole history (never the case for a sequential run)
                small = ops
            msg2 = (run_sdk(pool, small)[1] or fail)[1]
            chk.fail(signature_of(msg2), msg2, {"pool": pool, "ops": small, "how": "tools/c19.py run_sdk(pool, ops)"})
        terms.append(coq_case(pool, ops, trace))
        if len(chk.samples) < 4 and len(ops) >= 4:
            chk.samples.append({"pool": pool, "ops": ops, "sdk_trace_first_step": trace[0]})
    # further observation schedules and two containers alive at once (oracle only; the model has no cache and no shared state)
    for idx, (pool, ops) in enumerate(cases):
        if HANGS[0] >= 3:
            break
        mode = idx % 3
        bad_s = run_sparse(pool, ops, mode)
        chk.count(f"sparse-mode={mode}")
        if bad_s:
            small = shrink(pool, ops[:bad_s[0] + 1], lambda o: run_sparse(pool, o, mode) is not None)
            msg2 = run_sparse(pool, small, mode)[1]
            chk.fail(signature_of(msg2), msg2 + f" (observation schedule {mode})",
                     {"pool": pool, "ops": small, "mode": mode, "how": "tools/c19.py run_sparse(pool, ops, mode)"})
    n_pairs = 0
    for idx in range(0, len(cases) - 1, 2):
        if HANGS[0] >= 3:
            break
        (pool, ops_a), (pool_b, ops_b) = cases[idx], cases[idx + 1]
        if pool != pool_b:
            ops_b = [(o[0], pool[pool_b.index(o[1])]) + tuple(o[2:]) for o in ops_b]
        schedule = [rng.randrange(2) for _ in range(2 * (len(ops_a) + len(ops_b)))]
        n_pairs += 1
        bad_p = run_pair(pool, ops_a, ops_b, schedule)
        if bad_p:
            chk.fail(signature_of("two containers: " + bad_p[1]), bad_p[1] + " (two containers alive at the same time)",
                     {"pool": pool, "ops_a": ops_a, "ops_b": ops_b, "schedule": schedule,
                      "how": "tools/c19.py run_pair(pool, ops_a, ops_b, schedule)"})
    chk.cov["two_container_interleavings"] = n_pairs
    # _append_counter alone on many names
    from basyx.aas.adapter.aasx import DictSupplementaryFileContainer as D
    ac_terms = []
    alphabet = "ab./_0"
    for _ in range(400 if chk.tier == "quick" else 4000):
        nm = "".join(rng.choice(alphabet) for _ in range(rng.randint(0, 9)))
        i = rng.choice([1, 2, 9, 10, 99, 100, 999, 1000, 1001, 4999])
        ac_terms.append(f"({coq_str(nm)}, {i}%nat, {common.coq_list(common.coq_z(x) for x in enc_str(D._append_counter(nm, i)))})")
    # read() of positioned in-memory streams against model/FileStreams.v (position anywhere, also behind the end)
    rd_terms = []
    for _ in range(300 if chk.tier == "quick" else 3000):
        b = bytes(rng.randrange(256) for _ in range(rng.randint(0, 12)))
        p = rng.randint(0, len(b) + 2)
        f = (io.BytesIO, MemStream)[rng.randrange(2)](b)
        if rng.random() < .5:
            f.seek(p)
        else:
            p = len(f.read(p))
        first, second = f.read(), f.read()
        zl = lambda bs: "(" + coq_list(common.coq_z(x) for x in bs) + " : list Z)"      # typed: an empty list alone is untypable
        rd_terms.append(f"({zl(b)}, {p}%nat, {zl(first)}, {zl(second)})")
    bad, errs = common.run_mismatch_shards("C19", PRELUDE, terms, "check_case", shard=300)
    n1 = common.run_mismatch_shards.evaluated
    bad2, errs2 = common.run_mismatch_shards("C19ac", PRELUDE, ac_terms, "check_ac", shard=2000)
    n2 = common.run_mismatch_shards.evaluated
    bad3, errs3 = common.run_mismatch_shards("C19rd", PRELUDE, rd_terms, "check_read", shard=2000)
    chk.traces = n1 + n2 + common.run_mismatch_shards.evaluated - len(bad) - len(bad2) - len(bad3)
    for e in errs + errs2 + errs3:
        chk.tie_broken("correspondence-run", e)
    if bad:
        pool, ops = cases[bad[0]]

        def still(o):
            tr, _ = run_sdk(pool, o)
            b, e = common.run_mismatch_shards("C19s", PRELUDE, [coq_case(pool, o, tr)], "check_case")
            return bool(b or e)
        small = shrink(pool, ops, still)
        tr, _ = run_sdk(pool, small)
        model = common.coq_eval("C19", PRELUDE, "trace init " + coq_list(coq_op(o) for o in small) + " " + coq_list(coq_str(n) for n in pool))
        chk.tie_broken("correspondence", {"n_disagreements": len(bad), "pool": pool, "ops": small, "sdk_trace": tr, "model_trace": model})
    if bad3:
        chk.tie_broken("correspondence-stream-read", {"n": len(bad3), "first": rd_terms[bad3[0]]})
    if bad2:
        chk.tie_broken("correspondence-append_counter", {"n": len(bad2), "first": ac_terms[bad2[0]]})
    chk.trusted = [
        "Coq 8.16.1 kernel (coqc, vm_compute for the Example and the correspondence; no native_compute)",
        "hand-written model coq/theories/model/Files.v (+ FileStreams.v: data = file.read() of a positioned stream) tied to aasx.py "
        "by this correspondence run",
        "SHA-256 injective on the contents used (the model keys the content store by the content token)",
        "tools/c19.py (generator, SDK driver, canonicaliser, dict oracle), tools/common.py",
    ]
    chk.assumptions = ["sha256 collision freedom", "the content supplied by a file-like object is what its read() returns from the current position"]
    return chk.finish(level="proof",
                      rule="seeded random add/delete sequences over 8 name pools x 9 contents (sizes 0 B - 128 KiB) x 6 content types (case / parameter variants), "
                           "contents handed over as 5 kinds of stream (BytesIO, a subclass, short-read raw, buffered, real file) x 3 states "
                           "(fresh, behind a prefix consumed by read(), behind a prefix skipped by seek(); exhausted for empty content), "
                           "each also under three sparser observation schedules and pairwise interleaved on two live containers "
                           "(+ all sequences of length<=4 over 10 ops in the thorough tier); non-trivial = at least 2 ops; "
                           "distinct by (pool, ops)")


def replay(path):
    r = json.load(open(path))
    rp = r.get("replay") or {}
    if "ops_a" in rp:
        fail = run_pair(rp["pool"], [tuple(o) for o in rp["ops_a"]], [tuple(o) for o in rp["ops_b"]], rp["schedule"])
        print("oracle:", fail)
        return 1 if fail else 0
    if "mode" in rp:
        fail = run_sparse(rp["pool"], [tuple(o) for o in rp["ops"]], rp["mode"])
        print("oracle:", fail)
        return 1 if fail else 0
    if "ops" in rp:
        tr, fail = run_sdk(rp["pool"], [tuple(o) for o in rp["ops"]])
        print("oracle:", fail)
        return 1 if fail else 0
    print(json.dumps(r, indent=1)[:3000])
    return 1
