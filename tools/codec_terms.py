"""Metamodel object -> Coq `value` term (model/Codec.v), and the order-independent hash of a JSON value that
model/CodecObs.v:hdoc computes for the model's `doc`.  Used by the C03 / C18 correspondence."""
import base64

from basyx.aas import model
from basyx.aas.model import datatypes

import aasgen
import common

LEVEL_ORDER = ["MIN", "NOM", "TYP", "MAX"]


def q(s):
    """Coq string literal for an arbitrary str (UTF-8 bytes; '"' doubled).  Control characters are not supported
    by the callers' generators (strings='plain')."""
    b = s.encode("utf-8")
    if any(c < 32 or c == 127 for c in b):
        raise ValueError("control character in string for a Coq literal")
    return '"' + s.replace('"', '""') + '"'


class Val:
    """tiny AST mirroring Codec.value"""
    __slots__ = ("tag", "a", "b")

    def __init__(self, tag, a=None, b=None):
        self.tag, self.a, self.b = tag, a, b

    def term(self):
        t = self.tag
        if t == "VNone":
            return "VNone"
        if t == "VStr":
            return f"VStr {q(self.a)}"
        if t == "VBool":
            return f"VBool {'true' if self.a else 'false'}"
        if t == "VLeaf":
            return f"VLeaf {q(self.a)}"
        if t == "VList":
            return "VList [" + "; ".join(x.term() for x in self.a) + "]"
        return f"VObj {q(self.a)} [" + "; ".join(f"({q(k)}, {v.term()})" for k, v in self.b) + "]"


def leaf(v, falsy):
    if isinstance(v, (bytes, bytearray)) and not isinstance(v, (datatypes.Base64Binary, datatypes.HexBinary)):
        lex = base64.b64encode(v).decode()
    else:
        lex = datatypes.xsd_repr(v)
    if not v:
        falsy.add(lex)
    return Val("VLeaf", lex)


def to_value(obj, falsy, in_list=False):
    """falsy: set collecting the literals whose Python value is falsy"""
    if obj is None:
        return Val("VNone")
    cname = aasgen.meta_class_name(obj)
    fs = []
    for attr, kind in aasgen.META[cname]:
        v = getattr(obj, attr)
        fs.append((attr, attr_value(v, kind, attr, falsy, in_list)))
    return Val("VObj", cname, fs)


def lang(v):
    return Val("VList", [Val("VObj", "LangString", [("language", Val("VStr", k)), ("text", Val("VStr", t))])
                         for k, t in v.items()])


def attr_value(v, kind, attr, falsy, in_list):
    if kind in ("str", "ostr", "ostr0"):
        if v is None or (attr == "id_short" and in_list):
            return Val("VNone")
        return Val("VStr", v)
    if kind == "bool":
        return Val("VBool", bool(v))
    if kind.startswith("enum:") or kind.startswith("oenum:"):
        return Val("VNone") if v is None else Val("VStr", v.name)
    if kind in ("xsdtype", "oxsdtype", "keytypeclass"):
        return Val("VNone") if v is None else Val("VStr", v.__name__)
    if kind in ("leaf", "odatetime", "oduration", "obytes"):
        return Val("VNone") if v is None else leaf(v, falsy)
    if kind.startswith("obj:") or kind.startswith("oobj:") or kind in ("ref", "oref", "mref", "omref"):
        return to_value(v, falsy)
    if kind == "set:enum:IEC61360LevelType":
        names = {x.name for x in v}
        return Val("VList", [Val("VStr", n) for n in LEVEL_ORDER if n in names])
    if kind.startswith("list:") or kind.startswith("set:") or kind in ("reflist", "refset"):
        il = kind == "list:SubmodelElement"
        return Val("VList", [to_value(x, falsy, il) for x in v])
    if kind.startswith("oset:"):
        return Val("VNone") if v is None else Val("VList", [to_value(x, falsy) for x in v])
    if kind.startswith("olang:") or kind.startswith("lang:"):
        return Val("VNone") if v is None else lang(v)
    raise KeyError(kind)


# ---------------------------------------------------------------- hash of a JSON value (= CodecObs.hdoc)
def codes(s):
    return list(s.encode("utf-8"))


def key_hash(s):
    return common.zhash_d(codes(s), 1, 17)


def hdoc(h, d):
    hm = common._hmix
    if d is None:
        return hm(h, 0)
    if isinstance(d, str):
        return common.zhash_d(codes(d), 1, hm(h, 1))
    if isinstance(d, bool):
        return hm(hm(h, 2), 1 if d else 0)
    if isinstance(d, (int, float)):
        return hm(h, 3)
    if isinstance(d, list):
        h = hm(h, 4)
        for x in d:
            h = hdoc(h, x)
        return hm(h, -5)
    if isinstance(d, dict):
        hs = sorted(((key_hash(k), hdoc(key_hash(k), v)) for k, v in d.items()), key=lambda p: p[0])
        h = hm(h, 6)
        for a, b in hs:
            h = hm(hm(h, a), b)
        return hm(h, -7)
    raise TypeError(type(d))


def hval(v):
    """= CodecObs.hval on a Val"""
    hm = common._hmix
    t = v.tag
    if t == "VNone":
        return hm(11, 0)
    if t == "VStr":
        return common.zhash_d(codes(v.a), 1, hm(11, 1))
    if t == "VBool":
        return hm(hm(11, 2), 1 if v.a else 0)
    if t == "VLeaf":
        return common.zhash_d(codes(v.a), 1, hm(11, 3))
    if t == "VList":
        h = hm(11, 4)
        for x in sorted(hval(y) for y in v.a):
            h = hm(h, x)
        return hm(h, -5)
    h = common.zhash_d(codes(v.a), 1, hm(11, 6))
    for k, x in v.b:
        h = hm(common.zhash_d(codes(k), 1, h), hval(x))
    return hm(h, -7)
