"""C18 - stripped rendering / stripped reading.
tie T: gen/Gen_JsonRules.v (tools/py2coq/jsonrules.py) and gen/Gen_XmlReader.v (tools/py2coq/xmlrules.py, property C04's
       translator) carry the `not cls.stripped` guards of the JSON writer, JSON reader and XML reader; props/C18.v.
tie C: stripped encoder output vs model (hash), stripped strict reader vs model's dec in stripped mode (hash).
oracle (independent of the model): stripped JSON == full JSON minus the detachable members named in the property;
       the four stripped readers (failsafe/strict x JSON/XML) on full and stripped documents == the full reading
       with the detachable attributes emptied."""
import io
import json

import aasgen
import codec_terms
import common
import c03
from codec_terms import q

THEOREMS = ["C18_writer_guards", "C18_json_reader_guards", "C18_xml_reader_guards", "C18_writer_generic",
            "C18_json_guards_ok", "C18_json_writer", "C18_reader_generic", "C18_json_side_conditions",
            "C18_json_reader", "C18_example"]
PRELUDE = c03.PRELUDE

# ---- the detachable parts, from the property text (by JSON member / by model attribute)
BY_MODELTYPE = {"Submodel": ["submodelElements"], "SubmodelElementCollection": ["value"], "SubmodelElementList": ["value"],
                "Entity": ["statements"], "AnnotatedRelationshipElement": ["annotations"],
                "AssetAdministrationShell": ["submodels"]}
EVERYWHERE = ["qualifiers", "extensions", "embeddedDataSpecifications"]
ATTR_BY_CLASS = {"Submodel": ["submodel_element"], "SubmodelElementCollection": ["value"], "SubmodelElementList": ["value"],
                 "Entity": ["statement"], "AnnotatedRelationshipElement": ["annotation"],
                 "AssetAdministrationShell": ["submodel"]}
ATTR_EVERYWHERE = ["qualifier", "extension", "embedded_data_specifications"]


def strip_json(d):
    if isinstance(d, list):
        return [strip_json(x) for x in d]
    if isinstance(d, dict):
        drop = set(EVERYWHERE) | set(BY_MODELTYPE.get(d.get("modelType"), []))
        return {k: strip_json(v) for k, v in d.items() if k not in drop}
    return d


def strip_canon(c):
    if isinstance(c, list):
        return [strip_canon(x) for x in c]
    if isinstance(c, dict):
        cls = c.get("_class")
        out = {}
        for k, v in c.items():
            if cls in aasgen.META and (k in ATTR_EVERYWHERE or k in ATTR_BY_CLASS.get(cls, [])):
                out[k] = []
            else:
                out[k] = strip_canon(v)
                kind = dict(aasgen.META.get(cls, [])).get(k, "")
                if isinstance(out[k], list) and (kind.startswith("set:") or kind.startswith("oset:") or kind == "refset") \
                        and not kind.startswith("set:enum"):
                    # the canonical order of an unordered collection was computed on the unstripped members
                    out[k] = sorted(out[k], key=aasgen._sortkey)
        return out
    return c


def sig(kind, d):
    import re
    path = d.partition(": ")[0]
    attrs = [p.split("[")[0] for p in path.split("/") if re.fullmatch(r"[A-Za-z_]+(\[\d+\])*", p)]
    return f"C18:{kind}:{'/'.join(attrs[-2:])}"


def snake_upper(cls):
    import re
    return re.sub(r"(?<=[a-z0-9])(?=[A-Z])", "_", cls).upper()



def _user_classes():
    from basyx.aas.adapter.json import AASToJsonEncoder, AASFromJsonDecoder, StrictAASFromJsonDecoder

    class UserStrippedEncoder(AASToJsonEncoder):
        stripped = True

    class UserStrippedDecoder(AASFromJsonDecoder):
        stripped = True

    class UserStrictStrippedDecoder(StrictAASFromJsonDecoder):
        stripped = True
    return UserStrippedEncoder, UserStrippedDecoder, UserStrictStrippedDecoder


USER_ENCODER, USER_DECODER_FAILSAFE, USER_DECODER_STRICT = _user_classes()


# ---- application-defined subtypes of the metamodel classes.  The readers construct them through the `object_class` parameter of
# their constructor methods ("allows constructing instances of subtypes", json_deserialization.py module docstring); the writer
# handles them through isinstance().  Generic: every constructor method of the decoder whose `object_class` default is a class
# gets an override passing a dynamically created direct subclass of that default - no list of classes here.
def _subtype_decoder(base, exact=frozenset()):
    """`exact`: names of classes that are constructed as they are (see exact_types)"""
    import inspect
    from basyx.aas import model
    subs, ns, holder = {}, {}, {}
    for name, fn in inspect.getmembers(base, predicate=inspect.ismethod):
        if not name.startswith("_construct_"):
            continue
        par = inspect.signature(fn).parameters.get("object_class")
        # Referables: the classes rendered with a modelType, which the writer derives from the MRO ("inherits from a known AAS
        # type"); the writer's tables for references etc. are keyed by the exact class, which is not this property's matter
        if par is None or par.default is par.empty or not inspect.isclass(par.default) or par.default.__name__ in exact \
                or not issubclass(par.default, model.Referable):
            continue
        if par.default not in subs:
            subs[par.default] = type("App" + par.default.__name__, (par.default,), {"__doc__": "an application-defined subtype"})

        def make(name, sub, signature):
            def construct(cls, *a, **kw):
                # like `def _construct_x(cls, dct, object_class=Sub)`: an object_class the caller names itself is kept
                if "object_class" not in signature.bind_partial(*a, **kw).arguments:
                    kw["object_class"] = sub
                return getattr(super(holder["cls"], cls), name)(*a, **kw)
            construct.__name__ = name
            return classmethod(construct)
        ns[name] = make(name, subs[par.default], inspect.signature(fn))
    holder["cls"] = type("AppSubtype" + base.__name__, (base,), ns)
    return holder["cls"], subs


_SUBTYPE = {}


def exact_types(d):
    """the classes a document names as typeValueListElement: SubmodelElementList accepts only items whose type IS that class
    (constraint AASd-108, deliberately not isinstance - model/submodel.py), so these stay unsubtyped in that document"""
    if isinstance(d, list):
        return frozenset().union(*[exact_types(x) for x in d]) if d else frozenset()
    if isinstance(d, dict):
        own = frozenset([d["typeValueListElement"]]) if isinstance(d.get("typeValueListElement"), str) else frozenset()
        return own.union(*[exact_types(x) for x in d.values()]) if d else own
    return frozenset()


def subtype_decoders(exact=frozenset()):
    if exact not in _SUBTYPE:
        from basyx.aas.adapter.json import (AASFromJsonDecoder, StrictAASFromJsonDecoder, StrippedAASFromJsonDecoder,
                                            StrictStrippedAASFromJsonDecoder)
        _SUBTYPE[exact] = {key: _subtype_decoder(base, exact) for key, base in (
            ("full", AASFromJsonDecoder), ("strict", StrictAASFromJsonDecoder),
            ("stripped", StrippedAASFromJsonDecoder), ("strict-stripped", StrictStrippedAASFromJsonDecoder))}
    return _SUBTYPE[exact]


def subtype_case(cls, full, want_canon):
    """`full` (the full JSON of a generated object) is read with a decoder that constructs application-defined subtypes of
    every metamodel class; the resulting object is rendered at both levels by the shipped encoders and the user-declared one.
    Yields (kind, difference, data) when a stripped rendering is not the full rendering OF THE SAME OBJECT minus the detachable
    members, or when the stripped subtype-constructing readers do not deliver the stripped object."""
    from basyx.aas.adapter.json import AASToJsonEncoder, StrippedAASToJsonEncoder
    exact = exact_types(full)
    decs = subtype_decoders(exact)
    dec, subs = decs["full"]
    sub_obj = json.loads(json.dumps(full), cls=dec)
    if cls not in exact and type(sub_obj) not in subs.values():
        yield "subtype-construction", f"/: reading a {cls} with object_class overrides gave a {type(sub_obj).__name__}", {}
        return
    full_sub = json.loads(json.dumps(sub_obj, cls=AASToJsonEncoder))
    want = strip_json(full_sub)
    for enc_name, enc in (("StrippedAASToJsonEncoder", StrippedAASToJsonEncoder), ("user subclass with stripped = True", USER_ENCODER)):
        try:
            got = json.loads(json.dumps(sub_obj, cls=enc))
        except Exception as e:
            got = {"_raised": f"{type(e).__name__}: {str(e)[:120]}"}
        if got != want:
            yield "writer-subtype", aasgen.diff(want, got) or "?", {"encoder": enc_name, "full_json_of_subtype_object": full_sub,
                                                                    "rendered": got, "type": type(sub_obj).__name__}
    for key in ("stripped", "strict-stripped"):
        o2 = json.loads(json.dumps(full), cls=decs[key][0])
        d = aasgen.diff(want_canon, c03.strip_type(aasgen.canon(o2)))
        if not d and cls not in exact and type(o2) not in decs[key][1].values():
            d = f"/: object_class override ignored, got a {type(o2).__name__}"
        if d:
            yield "json-reader-subtype", d, {"decoder": key}


# ---- the AASX package reader as an entry point of both readers: read_into(..., stripped=True, failsafe=...) hands its keyword
# arguments to read_aas_json_file / read_aas_xml_file depending on the format of the AAS part
def aasx_stripped_reads(store):
    """writes `store` into two in-memory packages (AAS part as JSON / as XML) and reads each back with stripped=True in both
    failsafe modes.  Returns [((part format, failsafe), canonical store read or exception text)]"""
    from basyx.aas import model
    from basyx.aas.adapter import aasx
    out = []
    for write_json in (True, False):
        buf = io.BytesIO()
        with aasx.AASXWriter(buf) as w:
            w.write_all_aas_objects("/aasx/data." + ("json" if write_json else "xml"), store,
                                    aasx.DictSupplementaryFileContainer(), write_json=write_json)
        for failsafe in (True, False):
            try:
                got = model.DictObjectStore()
                with aasx.AASXReader(io.BytesIO(buf.getvalue())) as r:
                    r.read_into(got, aasx.DictSupplementaryFileContainer(), stripped=True, failsafe=failsafe)
                res = c03.strip_type(aasgen.canon_store(got))
            except Exception as e:
                res = f"/: raised {type(e).__name__}: {str(e)[:120]}"
            out.append((("json" if write_json else "xml", failsafe), res))
    return out


def aasx_case(store, want):
    for (fmt, failsafe), res in aasx_stripped_reads(store):
        d = res if isinstance(res, str) else aasgen.diff(want, res)
        if d:
            yield fmt, failsafe, d


_HTTP_SM = None


def http_bodies(chk, i):
    """parses one JSON and one XML request body through basyx.aas.adapter.http.HTTPApiDecoder, alternating level=core and
    full, and checks what comes back (the qualifier of the submodel must be there iff the request was not stripped)"""
    global _HTTP_SM
    from basyx.aas import model
    from basyx.aas.adapter.http import HTTPApiDecoder
    from basyx.aas.adapter.json import AASToJsonEncoder
    from basyx.aas.adapter.xml import object_to_xml_element
    from lxml import etree
    if _HTTP_SM is None:
        sm = model.Submodel("urn:c18:http", submodel_element=[model.Property("p", model.datatypes.Int, 1)],
                            qualifier=[model.Qualifier("q", model.datatypes.Int, 2)])
        _HTTP_SM = (json.dumps(sm, cls=AASToJsonEncoder), etree.tostring(object_to_xml_element(sm)))
    stripped = (i // 4) % 2 == 0
    for fmt, body in (("json", _HTTP_SM[0]), ("xml", _HTTP_SM[1])):
        try:
            got = HTTPApiDecoder.json(body, model.Submodel, stripped) if fmt == "json" else HTTPApiDecoder.xml(body, model.Submodel, stripped)
            n = (len(got.qualifier), len(got.submodel_element))
            d = None if n == ((0, 0) if stripped else (1, 1)) else f"/: {n} (qualifiers, elements) for stripped={stripped}"
        except Exception as e:
            d = f"/: raised {type(e).__name__}: {str(e)[:120]}"
        chk.count(f"http-body:{fmt}:{'core' if stripped else 'full'}")
        if d:
            chk.fail(sig(f"http-{fmt}-body", d), f"HTTP adapter body decoder ({fmt}, level={'core' if stripped else 'deep'}): {d}",
                     {"format": fmt, "stripped": stripped})


# ---- HTTP responses (the level=core anchor of the property): the response classes every route renders with, sequentially and
# with two responses of different levels overlapping in time (a threaded WSGI server renders them in one process)
class _Overlap:
    """Deterministic schedule for two overlapping computations: `first()` runs in the calling thread; when it enters its k-th
    Python function of the SDK (files below .../basyx/), a second thread runs `second()` to completion, then `first`
    continues.  Implemented with sys.setprofile of the calling thread only (no patching of the SDK, no dependence on which
    functions there are); k = 0 counts only.  Returns (result of first, result of second or None, number of SDK calls)."""

    def __init__(self, first, second, k):
        self.first, self.second, self.k = first, second, k
        self.calls = 0
        self.out2 = None

    def _second(self):
        try:
            self.out2 = ("ok", self.second())
        except Exception as e:   # reported by the caller
            self.out2 = ("raised", f"{type(e).__name__}: {str(e)[:120]}")

    def _prof(self, frame, event, arg):
        if event != "call" or "/basyx/" not in frame.f_code.co_filename:
            return
        self.calls += 1
        if self.calls == self.k:
            import sys
            import threading
            sys.setprofile(None)    # the other request is not part of the count (and runs in its own thread anyway)
            t = threading.Thread(target=self._second)
            t.start()
            t.join()
            sys.setprofile(self._prof)

    def run(self):
        import sys
        old = sys.getprofile()
        sys.setprofile(self._prof)
        try:
            out1 = self.first()
        finally:
            sys.setprofile(old)
        return out1, self.out2, self.calls


def _json_response(obj, st, paged):
    from basyx.aas.adapter.http import JsonResponse
    r = JsonResponse([obj] if paged else obj, cursor=7 if paged else None, stripped=st)
    d = json.loads(r.get_data())
    if paged:
        if set(d) != {"paging_metadata", "result"} or not isinstance(d["result"], list) or len(d["result"]) != 1:
            return {"_envelope": d}
        return d["result"][0]
    return d


def http_response_case(obj, full, i, ks=None):
    """renders `obj` as an HTTP JSON response at both levels - one after the other, then overlapping (each level interrupted
    by a complete response of the other level at several points).  Yields (kind, schedule, difference) for every rendering
    that is not the full JSON (deep) / the full JSON minus the detachable members (core)."""
    want = {False: full, True: strip_json(full)}
    paged = i % 8 == 4
    n = {}
    for st in (False, True, True, False):      # sequential, both successions of levels
        try:
            got, _, n[st] = _Overlap(lambda: _json_response(obj, st, paged), None, 0).run()
            d = aasgen.diff(want[st], got)
        except Exception as e:
            d = f"/: raised {type(e).__name__}: {str(e)[:120]}"
            n[st] = 0
        if d:
            yield "http-response", {"level": "core" if st else "deep", "paged": paged, "overlap": None}, d
    for st in (True, False):
        total = n.get(st, 0)
        if not total:
            continue
        for k in (ks or sorted({min(3, total), max(1, total // 2), 1 + (i // 4 * 5) % total, total})):
            sched = {"level": "core" if st else "deep", "paged": paged,
                     "overlap": f"a complete {'deep' if st else 'core'}-level response of the same object is rendered by a second "
                                f"thread when this rendering enters its SDK function number {k} of {total}", "k": k}
            try:
                got, other, _ = _Overlap(lambda: _json_response(obj, st, paged), lambda: _json_response(obj, not st, paged), k).run()
                d = aasgen.diff(want[st], got)
                if not d and other is not None:
                    d2 = aasgen.diff(want[not st], other[1]) if other[0] == "ok" else f"/: raised {other[1]}"
                    d = d2 and f"{d2} (in the interrupting {'deep' if st else 'core'}-level response)"
                elif not d:
                    d = "/: the schedule was not exercised (fewer SDK calls than in the sequential rendering)"
            except Exception as e:
                d = f"/: raised {type(e).__name__}: {str(e)[:120]}"
            if d:
                yield "http-response-overlap", sched, d


def http_responses(chk, cls, obj, full, i):
    for kind, sched, d in http_response_case(obj, full, i):
        chk.fail(sig(kind, d), f"HTTP JSON response (level={sched['level']}{', paged' if sched['paged'] else ''}) of a {cls} is not "
                 f"the {'full JSON minus the detachable members' if sched['level'] == 'core' else 'full JSON'}"
                 f"{'; ' + sched['overlap'] if sched['overlap'] else ''}: {d}",
                 {"kind": kind, "class": cls, "full_json": full, "index": i, "schedule": sched})
    chk.count("http-response:" + ("paged" if i % 8 == 4 else "single"))


def canon_json(d):
    """JSON value with the arrays that render unordered collections sorted (their order may differ between two renderings
    of the same store)"""
    if isinstance(d, dict):
        return {k: canon_json(v) for k, v in d.items()}
    if isinstance(d, list):
        return sorted((canon_json(x) for x in d), key=lambda x: json.dumps(x, sort_keys=True))
    return d


def xml_norm(c):
    """The XML text layer has no empty string: the four optional strings of a DataSpecificationIEC61360 come back as None
    when they are "" (property C04's input space excludes them for the same reason).  Applied to the expected value of the
    FULL XML reads only, which are made here for their interaction with the stripped reads, not for C04's sake."""
    if isinstance(c, list):
        return [xml_norm(x) for x in c]
    if isinstance(c, dict):
        out = {k: xml_norm(v) for k, v in c.items()}
        if c.get("_class") == "DataSpecificationIEC61360":
            for a in ("unit", "source_of_definition", "symbol", "value_format"):
                if out.get(a) == "":
                    out[a] = None
        return out
    return c


def run(chk):
    import logging
    logging.disable(logging.WARNING)   # the readers warn about every reference whose last key type is not its Python type
    try:
        return _run(chk)
    finally:
        logging.disable(logging.NOTSET)


def _run(chk):
    rng = chk.rng
    quick = chk.tier == "quick"
    n_obj, n_store = (220, 60) if quick else (2500, 800)
    gen_ok = c03.regenerate(chk)
    try:
        import py2coq.xmlrules as xr
        chk.notes.append(xr.regenerate())
    except Exception as e:
        chk.tie_broken("translator-xml", f"{type(e).__name__}: {e}")
        gen_ok = False
    if gen_ok:
        chk.theorems("props.C18", THEOREMS, ["theories/props/C18.vo", "theories/model/CodecObs.vo"])
    else:
        for t in THEOREMS:
            chk.obligations.append((t, "not-checked", []))
    from basyx.aas.adapter.json import (AASToJsonEncoder, StrippedAASToJsonEncoder, StrippedAASFromJsonDecoder,
                                        StrictStrippedAASFromJsonDecoder, write_aas_json_file, read_aas_json_file)
    from basyx.aas.adapter.xml import write_aas_xml_file, read_aas_xml_file
    # ---- single objects: writer oracle + correspondence cases
    enc_terms, rd_terms, meta = [], [], []
    for i in range(n_obj):
        cls = c03.MODELTYPE_CLASSES[i % len(c03.MODELTYPE_CLASSES)]
        g = aasgen.Gen(rng, strings="plain", depth=3 if i % 3 else 2)
        try:
            obj = g.obj(cls)
            full = json.loads(json.dumps(obj, cls=AASToJsonEncoder))
            stripped = json.loads(json.dumps(obj, cls=StrippedAASToJsonEncoder))
            chk.seen(("obj", cls, i))
            chk.count("object:" + cls)
            want = strip_json(full)
            if stripped != want:
                d = aasgen.diff(want, stripped) or "?"
                chk.fail(sig("writer", d), f"stripped JSON of a {cls} is not the full JSON minus the detachable members: {d}",
                         {"class": cls, "full_json": full, "stripped_json": stripped})
            # other components of the SDK use the same decoder classes in the same process: the HTTP adapter parses request
            # bodies with the strict (stripped) decoders; doing so must leave the readers as they were
            if i % 4 == 0:
                http_bodies(chk, i)
                # ... and renders its responses with a result encoder at the level the request asks for (level=core / $metadata)
                http_responses(chk, cls, obj, full, i)
            # the documented way to get stripped behaviour is the class attribute `stripped`: a user-defined subclass that only
            # declares it (as the HTTP adapter's result encoder does) must behave like the shipped stripped classes
            via_attr = json.loads(json.dumps(obj, cls=USER_ENCODER))
            if via_attr != want:
                d = aasgen.diff(want, via_attr) or "?"
                chk.fail(sig("writer-user-subclass", d), f"a subclass of AASToJsonEncoder declaring only `stripped = True` renders a "
                         f"{cls} differently from the full JSON minus the detachable members: {d}",
                         {"class": cls, "full_json": full, "rendered": via_attr})
            for fs_ in (False, True):
                for dec in ((StrippedAASFromJsonDecoder if fs_ else StrictStrippedAASFromJsonDecoder),
                            (USER_DECODER_FAILSAFE if fs_ else USER_DECODER_STRICT)):
                  for name, doc in (("full", full), ("stripped", stripped)):
                    o2 = json.loads(json.dumps(doc), cls=dec)
                    d = aasgen.diff(strip_canon(c03.strip_type(aasgen.canon(obj))), c03.strip_type(aasgen.canon(o2)))
                    if d:
                        chk.fail(sig("json-reader", d),
                                 f"stripped JSON reader ({'failsafe' if fs_ else 'strict'}) on the {name} document of a {cls}: {d}",
                                 {"class": cls, "document": doc})
            # instances of application-defined subtypes of the metamodel classes (constructed the documented way, through the
            # readers' object_class parameters) are objects of those classes: same stripped rendering, same stripped reading
            for kind, d, data in subtype_case(cls, full, strip_canon(c03.strip_type(aasgen.canon(obj)))):
                chk.fail(sig(kind, d), f"{kind} ({cls} read with object_class = application-defined subtypes"
                         f"{', rendered by ' + data['encoder'] if 'encoder' in data else ''}): "
                         f"{'stripped JSON is not the full JSON of the same object minus the detachable members: ' if kind == 'writer-subtype' else ''}{d}",
                         dict(data, kind=kind, **{"class": cls, "full_json": full}))
            chk.count("subtype-object:" + cls)
            # the stripped XML reader on the single element (reaches classes that only occur below detachable parts)
            from basyx.aas.adapter.xml import object_to_xml_element, read_aas_xml_element, XMLConstructables
            from lxml import etree
            xml_bytes = etree.tostring(object_to_xml_element(obj))
            construct = getattr(XMLConstructables, snake_upper(cls))
            # full and stripped reads share one process (module-level tables, caches): both orders occur
            modes = [(fs_, st_) for st_ in ((False, True) if i % 2 == 0 else (True, False)) for fs_ in (True, False)]
            for fs_, st_ in modes:
                try:
                    o3 = read_aas_xml_element(io.BytesIO(xml_bytes), construct, failsafe=fs_, stripped=st_)
                    want_c = c03.strip_type(aasgen.canon(obj))
                    d = aasgen.diff(strip_canon(want_c) if st_ else xml_norm(want_c), c03.strip_type(aasgen.canon(o3)))
                except Exception as e:
                    d = f"/: raised {type(e).__name__}: {str(e)[:120]}"
                chk.count(f"xml-element-reader:{'stripped' if st_ else 'full'}")
                if d:
                    chk.fail(sig("xml-element-reader" if st_ else "xml-element-full-reader", d),
                             f"{'stripped' if st_ else 'full'} XML element reader ({'failsafe' if fs_ else 'strict'}) on a {cls}, "
                             f"reads in the order {modes}: {d}",
                             {"class": cls, "xml": xml_bytes.decode()[:4000], "order": modes})
            t, _ = c03.coq_case(obj, True)
            enc_terms.append(t)
            falsy = set()
            v = codec_terms.to_value(obj, falsy)
            o2 = json.loads(json.dumps(full), cls=StrictStrippedAASFromJsonDecoder)
            v2 = codec_terms.to_value(o2, set())
            rd_terms.append(f"({q(cls)}, {v.term()}, ([" + "; ".join(q(x) for x in sorted(falsy)) + "] : list string), "
                            f"true, {common.coq_z(codec_terms.hval(v2))})")
            meta.append((cls, full))
        except ValueError as e:
            if "control character" not in str(e):
                chk.tie_broken("case-construction", f"{cls}: {type(e).__name__}: {e}")
        except Exception as e:
            chk.tie_broken("case-construction", f"{cls}: {type(e).__name__}: {e}")
    # ---- stores: all four stripped reader modes on full / stripped JSON and full XML
    for i in range(-1, n_store):
        g = aasgen.Gen(rng, strings="plain", depth=3)
        store = g.sweep_store() if i < 0 else g.store(rng.randint(1, 3))   # store -1: the deterministic value sweep
        chk.seen(("store", i))
        want = strip_canon(c03.strip_type(aasgen.canon_store(store)))
        docs = {}
        for st in (False, True):
            b = io.StringIO()
            write_aas_json_file(b, store, stripped=st)
            docs[("json", st)] = b.getvalue()
        b = io.BytesIO()
        write_aas_xml_file(b, store)
        docs[("xml", False)] = b.getvalue()
        # the stripped / full document must not depend on the kind of destination (text or binary stream, path, temporary
        # file ...) nor on the entry point (write_aas_json_file / object_store_to_json / explicit encoder class)
        kinds = c03.STREAM_KINDS + ("string",)
        for st in (True, False):
            want_doc = json.loads(docs[("json", st)])
            for how, kw in ((kinds[i % len(kinds)], {"stripped": st}), (kinds[(i + 3) % len(kinds)], {"stripped": st}),
                            (kinds[(i + 5) % len(kinds)], {"encoder": StrippedAASToJsonEncoder if st else AASToJsonEncoder}),
                            (kinds[(i + 7) % len(kinds)], {"encoder": StrippedAASToJsonEncoder if st else AASToJsonEncoder,
                                                           "stripped": not st})):
                chk.count(f"writer-destination:{how}")
                try:
                    got_doc = json.loads(c03.write_json(store, how, **kw))
                    d = aasgen.diff(canon_json(want_doc), canon_json(got_doc))
                except Exception as e:
                    d = f"/: raised {type(e).__name__}: {str(e)[:120]}"
                if d:
                    chk.fail(sig("writer-destination", d),
                             f"{'stripped' if st else 'full'} JSON document written through destination '{how}' with {sorted(kw)} "
                             f"differs from the one written to a text stream: {d}", {"destination": how, "kw": sorted(kw),
                                                                                     "stripped": st, "document": docs[("json", st)][:3000]})
        # the AASX package reader forwards stripped / failsafe to the reader of the part's format: same result for both formats
        for fmt, failsafe, d in aasx_case(store, want):
            chk.fail(sig(f"aasx-{fmt}-reader", d),
                     f"AASXReader.read_into(stripped=True, failsafe={failsafe}) on a package whose AAS part is {fmt.upper()} does not "
                     f"deliver the objects with the detachable parts removed: {d}",
                     {"kind": "aasx-reader", "part_format": fmt, "failsafe": failsafe, "document": docs[("json", False)]})
        chk.count("aasx-reader:stripped")
        want_full = c03.strip_type(aasgen.canon_store(store))
        for (fmt, st), text in docs.items():
            # a full read of the same document before (even stores) or after (odd stores) the stripped reads: the two kinds
            # of reader live in one process and must not influence each other
            def full_read():
                if st:
                    return
                for failsafe in (True, False):
                    try:
                        got = (read_aas_json_file(io.StringIO(text), failsafe=failsafe) if fmt == "json"
                               else read_aas_xml_file(io.BytesIO(text), failsafe=failsafe))
                        d = aasgen.diff(xml_norm(want_full) if fmt == "xml" else want_full, c03.strip_type(aasgen.canon_store(got)))
                    except Exception as e:
                        d = f"/: raised {type(e).__name__}: {str(e)[:120]}"
                    chk.count(f"full-reader:{fmt}")
                    if d:
                        chk.fail(sig(f"{fmt}-full-reader", d),
                                 f"full {fmt} reader ({'failsafe' if failsafe else 'strict'}) in a process that also reads "
                                 f"stripped: {d}", {"format": fmt, "document": text[:4000], "full_first": i % 2 == 0})
            if i % 2 == 0:
                full_read()
            for failsafe in (True, False):
                try:
                    if fmt == "json":
                        got = read_aas_json_file(io.StringIO(text), stripped=True, failsafe=failsafe)
                    else:
                        got = read_aas_xml_file(io.BytesIO(text), stripped=True, failsafe=failsafe)
                    d = aasgen.diff(want, c03.strip_type(aasgen.canon_store(got)))
                except Exception as e:
                    d = f"/: raised {type(e).__name__}: {str(e)[:120]}"
                chk.count(f"reader:{fmt}:{'failsafe' if failsafe else 'strict'}:{'stripped' if st else 'full'}-doc")
                if d:
                    chk.fail(sig(f"{fmt}-reader", d),
                             f"stripped {fmt} reader ({'failsafe' if failsafe else 'strict'}) on a "
                             f"{'stripped' if st else 'full'} document: {d}", {"format": fmt, "document": text[:4000]})
            if i % 2 == 1:
                full_read()
    if gen_ok and enc_terms:
        bad, errs = common.run_mismatch_shards("C18enc", PRELUDE, enc_terms, "(check_enc json_tables)", shard=10, jobs=16)
        n1 = common.run_mismatch_shards.evaluated
        bad2, errs2 = common.run_mismatch_shards("C18rd", PRELUDE, rd_terms, "(check_strip_read json_tables json_meta)",
                                                 shard=10, jobs=16)
        chk.traces = n1 + common.run_mismatch_shards.evaluated - len(bad) - len(bad2)
        for e in (errs + errs2)[:3]:
            chk.tie_broken("correspondence-run", e)
        if bad:
            chk.tie_broken("correspondence-stripped-enc", {"n": len(bad), "class": meta[bad[0]][0], "full_json": meta[bad[0]][1]})
        if bad2:
            chk.tie_broken("correspondence-stripped-read", {"n": len(bad2), "class": meta[bad2[0]][0], "full_json": meta[bad2[0]][1]})
        chk.samples.append({"class": meta[0][0], "full_json": meta[0][1], "stripped_json": strip_json(meta[0][1])})
    chk.trusted = [
        "Coq 8.16.1 kernel; vm_compute for the finite guard-set checks and the correspondence",
        "translators tools/py2coq/jsonrules.py and tools/py2coq/xmlrules.py (the latter is property C04's)",
        "the detachable-part list is written from the property text twice: props/C18.v (Coq) and tools/c18.py (Python oracle)",
        "codec abstractions of C03 (typed values as literals, JSON text layer)",
        "the model covers the JSON writer and JSON reader; the XML reader is tied by its guard set (theorem) and by the oracle only",
        "HTTP: the response class (JsonResponse) is rendered at both levels, sequentially and with two responses overlapping under a "
        "deterministic schedule (sys.setprofile switch points, second thread); the routes' choice of level is C10/C11's",
        "overlap of two responses is tied by the oracle only (the Coq model renders one value at a time with the mode as a parameter)",
    ]
    return chk.finish(level="proof",
                      rule="generated objects of every class with a modelType (writer oracle, stripped readers on full and stripped "
                           "documents, model correspondence) and generated stores through the four stripped reader modes x "
                           "{full JSON, stripped JSON, full XML}; non-trivial = every case; distinct by class+index")


def replay(path):
    r = json.load(open(path))
    print(json.dumps(r, indent=1)[:4000])
    rp = r.get("replay") or {}
    if isinstance(rp, dict) and str(rp.get("kind", "")).startswith("http-response"):
        # re-executed: the object is read back from its full JSON, then rendered with the recorded schedule
        from basyx.aas.adapter.json import AASFromJsonDecoder
        obj = json.loads(json.dumps(rp["full_json"]), cls=AASFromJsonDecoder)
        k = rp["schedule"].get("k")
        found = [(kind, s, d) for kind, s, d in http_response_case(obj, rp["full_json"], rp["index"], ks=[k] if k else None)]
        for kind, s, d in found:
            print(f"REPRODUCED {kind} level={s['level']} k={s.get('k')}: {d}")
        if not found:
            print("not reproduced on this tree")
        return 1 if found else 0
    if isinstance(rp, dict) and rp.get("kind") in ("writer-subtype", "json-reader-subtype", "subtype-construction"):
        from basyx.aas.adapter.json import AASFromJsonDecoder
        obj = json.loads(json.dumps(rp["full_json"]), cls=AASFromJsonDecoder)
        found = list(subtype_case(rp["class"], rp["full_json"], strip_canon(c03.strip_type(aasgen.canon(obj)))))
        for kind, d, data in found:
            print(f"REPRODUCED {kind} {data.get('encoder') or data.get('decoder') or ''}: {d}")
        if not found:
            print("not reproduced on this tree")
        return 1 if found else 0
    if isinstance(rp, dict) and rp.get("kind") == "aasx-reader":
        from basyx.aas.adapter.json import read_aas_json_file
        store = read_aas_json_file(io.StringIO(rp["document"]), failsafe=False)
        found = list(aasx_case(store, strip_canon(c03.strip_type(aasgen.canon_store(store)))))
        for fmt, failsafe, d in found:
            print(f"REPRODUCED aasx part={fmt} failsafe={failsafe}: {d}")
        if not found:
            print("not reproduced on this tree")
        return 1 if found else 0
    return 1
