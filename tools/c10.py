"""C10 - HTTP repository answers every request history like a map from id to object.
Theorems: coq/theories/props/C10.v over model/Http.v (+ regenerated gen/Gen_HttpRoutes.v).
Tie C: seeded random request histories (create/read/replace/delete of shells, submodels, concept
descriptions, nested elements by idShort path, qualifiers, submodel references, attachments; JSON, XML,
text/xml; paging; level=core) through werkzeug's test client over DictObjectStore and
LocalFileObjectStore, compared with the model after every request (response and store content).
Oracle (independent of the model): a Python dict as reference repository answering the same history
+ generic probes (GET at Location after 201, GET after DELETE, GET after PUT, listing = keys, every
listed object readable under its own id, pages following the cursor = listing, pages of a listing filtered by
idShort / semanticId = the matching objects of the listing, PUT of a well-formed same-class document onto a stored
element = 204).  `tok` (all other attributes) is carried by description + semanticId + supplementalSemanticIds, so
a replacement that takes over only some of them reads as another content (httpgen.sem_class)."""
import json
import logging
import urllib.parse

import common
import httpgen as G
import httpcorr as H
import httpcases as CS
import c11
from httpgen import b64

THEOREMS = ["C10_created_then_readable", "C10_duplicate_conflicts", "C10_unknown_not_found", "C10_read",
            "C10_deleted_then_gone", "C10_replaced_then_read", "C10_rekeyed_then_read", "C10_rekey_conflict", "C10_rekey_example",
            "C10_own_id", "C10_own_id_example",
            "C10_page_is_slice", "C10_paging", "C10_filtered_page_submodels", "C10_filtered_page_shells",
            "C10_filtered_page_example", "C10_filtered_paging", "C10_mutators_commit", "C10_example_history"]
VO = ["theories/props/C10.vo", "theories/model/HttpObs.vo"]

# identifiers: URL-hostile characters, non-ASCII, and pairs that differ only by Unicode normalisation (different
# identifiers for a repository): 'u' + COMBINING DIAERESIS vs. U+00FC, ANGSTROM SIGN vs. U+00C5, a ligature vs. "fi"
IDS = {"sm": ["urn:sm/1+=", "grüße-ä", "https://ex.org/sm?a=b&c=>>>?", "urn:u\u0308ber", "urn:\u00fcber"],
       "shell": ["urn:aas:1", ">>>???", "A", "urn:\u212b", "urn:\u00c5"],
       "cd": ["urn:cd:1", "urn:cd:2/ü", "urn:\ufb01n", "urn:fin"]}
RULE = {"sm": ("/submodels", "submodel_id", "sm"), "shell": ("/shells", "aas_id", "aas"),
        "cd": ("/concept-descriptions", "concept_id", "cd")}
TOPNAMES = {"p1": "P", "c1": "C", "f1": "F", "f5": "F", "b1": "B", "l1": "L", "p9": "P", "v1": "?", "v2": "?"}
G.RSI_IDS.update({IDS["sm"][1], "urn:dangling"})      # references to these carry a referredSemanticId
PATHS = ["p1", "c1", "c1.p2", "c1.c2", "c1.c2.p3", "f1", "b1", "l1", "p9", "v1", "v2", "c1.v3", "zz", "c1.zz", "p1.x",
         "l1.abc", "l1.x9"]
ACC = [(None, "json"), ("application/json", "json"), ("application/xml", "xml"), ("text/xml", "textxml")]
FMT = ["json", "json", "xml", "textxml"]


def mk_elem(rng, name, depth=0):
    cls = {"p": "P", "c": "C", "f": "F", "b": "B", "l": "L"}.get(name[0])
    if cls is None:      # the v* names change their class from document to document
        cls = rng.choice(["P", "R", "F", "B", "C0", "P"])
    tok = rng.randrange(1, 6)
    q = [(t, rng.randrange(1, 9)) for t in rng.sample(CS.QTYPES, rng.choice([0, 0, 1, 2]))]
    if cls == "P":
        return CS.P(name, tok, q)
    if cls == "R":
        return dict(CS.R(name, tok), quals=q)
    if cls == "C0":
        return CS.C(name, [], tok, q)
    if cls == "C":
        kids = []
        if depth < 2:
            for n in (["p2", "c2", "v3"] if depth == 0 else ["p3"]):
                if rng.random() < 0.6:
                    kids.append(mk_elem(rng, n, depth + 1))
        return CS.C(name, kids, tok, q)
    if cls == "F":
        return CS.F(name, rng.choice([None, None, "/aasx/x.txt", "http://ext/x"]), rng.randrange(2), tok)
    if cls == "B":
        return CS.B(name, rng.choice([None, 0, 0, 1, 2]), rng.randrange(2), tok)      # 0: a Blob of zero length
    lt = rng.choice([0, 0, 1, 2])       # typing of the list; its items follow it
    item = (lambda: CS.R(None, rng.randrange(1, 6))) if lt == 1 else (lambda: CS.P(None, rng.randrange(1, 6)))
    return CS.L(name, [item() for _ in range(rng.randrange(4))], tok, ctype=lt)


def mk_top(rng, kind, i):
    if kind == "sm":
        return {"k": "sm", "id": i, "ids": rng.choice(["Sm1", "Sm2", None]), "tok": rng.randrange(1, 6),
                "quals": [(t, rng.randrange(1, 9)) for t in rng.sample(CS.QTYPES, rng.choice([0, 1, 2]))],
                "elems": [mk_elem(rng, n) for n in rng.sample(list(TOPNAMES), rng.randrange(0, 5))]}
    if kind == "shell":
        return {"k": "shell", "id": i, "ids": rng.choice(["Sh1", "Sh2", None]), "tok": rng.randrange(1, 6),
                "refs": rng.sample(IDS["sm"] + ["urn:dangling"], rng.randrange(0, 3))}
    return {"k": "cd", "id": i, "ids": rng.choice(["Cd1", None]), "tok": rng.randrange(1, 6)}


def gen_request(rng):
    """one request, mostly valid, over small pools so that histories collide"""
    rq = lambda rule, method, **kw: dict({"rule": rule, "method": method, "accept": rng.choice(ACC), "query": [],
                                          "body": ("none",), "cls": "c10"}, **kw)
    x = rng.random()
    kind = rng.choice(["sm", "sm", "sm", "shell", "cd"])
    rule, conv, arg = RULE[kind]
    one = f"{rule}/<base64url:{conv}>"
    i = rng.choice(IDS[kind])
    if x >= 0.22 and x < 0.45 and rng.random() < 0.2:      # an identifier that belongs to another collection
        i = rng.choice([j for kd in IDS for j in IDS[kd][:2] if kd != kind])
    seg = b64(i) if rng.random() < 0.8 else b64(i).rstrip("=")
    fmt = rng.choice(FMT)
    smseg = b64(rng.choice(IDS["sm"]))
    smone = "/submodels/<base64url:submodel_id>"
    if x < 0.14:
        q = [("level", "core")] if rng.random() < 0.2 else []
        return rq(rule, "POST", body=("val", fmt, mk_top(rng, kind, i)), query=q, cls="post-" + kind)
    if x < 0.22:
        q = []
        if rng.random() < 0.7:
            lim = rng.choice([1, 2, 3, 10])
            q = [("limit", str(lim)), ("cursor", str(lim * rng.randrange(0, 3)))]
        if rng.random() < 0.25:
            q.append(("level", "core"))
        if rng.random() < 0.15 and kind != "cd":
            q.append(("idShort", rng.choice(["Sm1", "Sh1", "nope"])))
        ql = {}
        if kind == "shell" and rng.random() < 0.35:        # the shells of the pool carry no specificAssetIds: nothing matches
            q.append(("assetIds", CS._sad({"name": rng.choice(["n", "serial"]), "value": "v"})))
            ql = {"assetIds": ["ok"]}
            if rng.random() < 0.3:
                q.append(("assetIds", CS._sad({"name": "m", "value": "w"})))
                ql = {"assetIds": ["ok", "ok"]}
        suffix = rng.choice(["", "", "/$reference"] + (["/$metadata"] if kind == "sm" else [])) if kind != "cd" else ""
        return rq(rule + suffix, "GET", query=q, qlabels=ql, cls="list-" + kind)
    if x < 0.32:
        suffix = rng.choice(["", "", "/$reference"] + (["/$metadata"] if kind == "sm" else [])) if kind != "cd" else ""
        q = [("level", "core")] if rng.random() < 0.2 else []
        return rq(one + suffix, "GET", query=q, cls="get-" + kind, **{arg: seg})
    if x < 0.40:
        q = [("level", "core")] if rng.random() < 0.2 else []
        if rng.random() < 0.2:      # a document with another id of the pool (free: the object is filed anew; taken: 409)
            return rq(one, "PUT", body=("val", fmt, mk_top(rng, kind, rng.choice(IDS[kind]))), query=q, cls="put-other-id-" + kind, **{arg: seg})
        return rq(one, "PUT", body=("val", fmt, mk_top(rng, kind, i)), query=q, cls="put-" + kind, **{arg: seg})
    if x < 0.45:
        return rq(one, "DELETE", cls="delete-" + kind, **{arg: seg})
    if x < 0.53:       # nested element create
        parent = rng.choice([None, None, "c1", "c1.c2", "l1", "p1", "l1.abc"])
        name = rng.choice(list(TOPNAMES)) if parent is None else {"c1": rng.choice(["p2", "c2", "v3"]), "c1.c2": "p3", "l1": None, "p1": "p2", "l1.abc": "p2"}[parent]
        e = dict(mk_elem(rng, name if name else "p1"), k="elem")
        if parent == "l1":
            e = dict(CS.R(None, 2) if rng.random() < 0.3 else CS.P(None, rng.randrange(1, 6)), k="elem")
            e["ids"] = None if rng.random() < 0.8 else "p1"
        q = [("level", "core")] if rng.random() < 0.2 else []
        if parent is None:
            return rq(smone + "/submodel-elements", "POST", body=("val", fmt, e), sm=smseg, query=q, cls="post-elem")
        return rq(smone + "/submodel-elements/<id_short_path:id_shorts>", "POST", body=("val", fmt, e), sm=smseg, path=parent, query=q,
                  cls="post-into-list" if parent == "l1" else "post-nested")
    if x < 0.63:
        p = rng.choice(PATHS)
        suffix = rng.choice(["", "", "/$metadata", "/$reference"])
        q = [("level", "core")] if rng.random() < 0.2 else []
        return rq(smone + "/submodel-elements/<id_short_path:id_shorts>" + suffix, "GET", sm=smseg, path=p, query=q, cls="get-elem")
    if x < 0.68:
        q = [("limit", str(rng.choice([1, 2, 10]))), ("cursor", str(rng.choice([0, 1, 2])))] if rng.random() < 0.6 else []
        suffix = rng.choice(["", "/$metadata", "/$reference"])
        return rq(smone + "/submodel-elements" + suffix, "GET", sm=smseg, query=q, cls="list-elem")
    if x < 0.74:
        p = rng.choice(PATHS[:9])
        e = dict(mk_elem(rng, p.split(".")[-1]), k="elem")
        if rng.random() < 0.2:      # another idShort (free, taken by a sibling, or none): same first letter = same class
            e["ids"] = rng.choice([p.split(".")[-1][0] + "8", p.split(".")[-1][0] + "1", p.split(".")[-1][0] + "2", None])
        q = [("level", "core")] if rng.random() < 0.2 else []
        return rq(smone + "/submodel-elements/<id_short_path:id_shorts>", "PUT", body=("val", fmt, e), sm=smseg, path=p, query=q, cls="put-elem")
    if x < 0.79:
        return rq(smone + "/submodel-elements/<id_short_path:id_shorts>", "DELETE", sm=smseg, path=rng.choice(PATHS), cls="delete-elem")
    if x < 0.90:      # qualifiers
        p = rng.choice([None, None, "p1", "c1", "c1.p2", "l1.abc", "zz"])
        base = smone + ("/submodel-elements/<id_short_path:id_shorts>" if p else "") + "/qualifiers"
        kw = {"sm": smseg}
        if p:
            kw["path"] = p
        t = rng.choice(CS.QTYPES)
        y = rng.random()
        if y < 0.3:
            return rq(base, "POST", body=("val", fmt, {"k": "qual", "type": t, "val": rng.randrange(1, 9)}), cls="post-qual", **kw)
        if y < 0.45:
            return rq(base, "GET", cls="list-qual", **kw)
        kw["qt"] = b64(t)
        one_q = base + "/<base64url:qualifier_type>"
        if y < 0.65:
            return rq(one_q, "GET", cls="get-qual", **kw)
        if y < 0.85:
            return rq(one_q, "PUT", body=("val", fmt, {"k": "qual", "type": rng.choice(CS.QTYPES), "val": rng.randrange(1, 9)}), cls="put-qual", **kw)
        return rq(one_q, "DELETE", cls="delete-qual", **kw)
    if x < 0.94:      # attachments
        p = rng.choice(["f1", "f1", "f5", "f5", "b1", "p1", "c1", "l1.abc"])
        base = smone + "/submodel-elements/<id_short_path:id_shorts>/attachment"
        y = rng.random()
        if y < 0.4:
            return rq(base, "PUT", body=("upload", rng.choice(["/aasx/up.txt", "/aasx/up.txt", "/aasx/x.txt", "rel.txt"]), (rng.randrange(2), rng.randrange(4))),
                      sm=smseg, path=p, cls="put-attachment")
        if y < 0.8:
            return rq(base, "GET", sm=smseg, path=p, cls="get-attachment")
        return rq(base, "DELETE", sm=smseg, path=p, cls="delete-attachment")
    # shell parts
    aseg = b64(rng.choice(IDS["shell"]))
    aone = "/shells/<base64url:aas_id>"
    if rng.random() < 0.25:
        smseg = b64(rng.choice(IDS["sm"] + ["urn:dangling"]))
    y = rng.random()
    if y < 0.2:
        return rq(aone + "/asset-information", "GET", aas=aseg, cls="get-asset")
    if y < 0.4:
        return rq(aone + "/asset-information", "PUT", body=("val", fmt, {"k": "ai", "tok": rng.randrange(1, 9)}), aas=aseg, cls="put-asset")
    if y < 0.55:
        return rq(aone + "/submodel-refs", "GET", aas=aseg, sorted=True, cls="list-refs")
    if y < 0.75:
        return rq(aone + "/submodel-refs", "POST", body=("val", fmt, {"k": "ref", "id": rng.choice(IDS["sm"] + ["urn:dangling"])}), aas=aseg, cls="post-ref")
    if y < 0.85:
        return rq(aone + "/submodel-refs/<base64url:submodel_id>", "DELETE", aas=aseg, sm=smseg, cls="delete-ref")
    if y < 0.93:
        return rq(aone + "/submodels/<base64url:submodel_id>", rng.choice(["GET", "DELETE"]), aas=aseg, sm=smseg, cls="via-shell")
    sm = mk_top(rng, "sm", H.decode_label(smseg)[1])
    return rq(aone + "/submodels/<base64url:submodel_id>", "PUT", body=("val", fmt, sm), aas=aseg, sm=smseg, cls="put-via-shell")


def gen_attachment_history(rng, n):
    """PUT / GET / DELETE .../attachment over three File elements, three file names and three contents: the same
    bytes under several names, the same name for different bytes, re-uploads after a delete"""
    J = (None, "json")
    sm = {"k": "sm", "id": "urn:att", "ids": "Att", "tok": 1, "quals": [],
          "elems": [CS.F("f1", None), CS.F("f5", None), CS.F("f6", None, ctype=1), CS.B("b1", 1), CS.B("b2", 0), CS.B("b3", None)]}
    att = "/submodels/<base64url:submodel_id>/submodel-elements/<id_short_path:id_shorts>/attachment"
    out = [{"rule": "/submodels", "method": "POST", "accept": J, "query": [], "cls": "post-sm-attachments",
            "body": ("val", rng.choice(FMT), sm)}]
    while len(out) < n:
        p = rng.choice(["f1", "f1", "f5", "f5", "f6", "b1", "b2", "b3"])
        x = rng.random()
        rq = {"rule": att, "accept": rng.choice(ACC), "query": [], "body": ("none",), "sm": b64("urn:att"), "path": p}
        if x < 0.4:
            rq.update(method="PUT", cls="put-attachment",
                      body=("upload", rng.choice(["/aasx/a.txt", "/aasx/a.txt", "/aasx/a.txt", "/aasx/b.bin", "/c"]),
                            (1 if p == "f6" else 0, rng.choice([1, 1, 1, 2, 0, 3]))))
        elif x < 0.66:
            rq.update(method="GET", cls="get-attachment")
        elif x < 0.80:
            rq.update(method="DELETE", cls="delete-attachment")
        elif x < 0.93:     # the element itself is deleted ...
            rq.update(rule=att[:-len("/attachment")], method="DELETE", cls="delete-file-element")
        else:              # ... and created again (without attachment)
            rq.pop("path")
            rq.update(rule="/submodels/<base64url:submodel_id>/submodel-elements", method="POST", cls="post-file-element",
                      body=("val", "json", dict(CS.F(p, None, ctype=1 if p == "f6" else 0) if p[0] == "f" else CS.B(p, None), k="elem")))
        out.append(rq)
    return out


def gen_list_history(rng, n):
    """successive replacements of one ordered list (directly, through its submodel, through a shell), growing and
    shrinking, every item distinguishable; each followed by a read"""
    J = (None, "json")
    smid = "urn:lists"
    items = lambda k: [CS.P(None, 10 + i) for i in range(k)]
    size = rng.choice([0, 1, 1])
    sm = lambda k: {"k": "sm", "id": smid, "ids": "Lists", "tok": 1, "quals": [], "elems": [CS.L("l1", items(k)), CS.P("p1", 1)]}
    one = "/submodels/<base64url:submodel_id>"
    el = one + "/submodel-elements/<id_short_path:id_shorts>"
    out = [{"rule": "/submodels", "method": "POST", "accept": J, "query": [], "cls": "post-sm", "body": ("val", rng.choice(FMT), sm(size))},
           {"rule": "/shells", "method": "POST", "accept": J, "query": [], "cls": "post-shell",
            "body": ("val", "json", {"k": "shell", "id": "urn:lists:aas", "ids": "A", "tok": 1, "refs": [smid]})}]
    while len(out) < n:
        size = max(0, min(6, size + rng.choice([1, 1, 1, 2, -1, 0])))
        how = rng.random()
        fmt = rng.choice(FMT)
        if how < 0.5:
            out.append({"rule": el, "method": "PUT", "accept": J, "query": [], "cls": "put-list", "sm": b64(smid), "path": "l1",
                        "body": ("val", fmt, dict(CS.L("l1", items(size)), k="elem"))})
        elif how < 0.85:
            out.append({"rule": one, "method": "PUT", "accept": J, "query": [], "cls": "put-sm-list", "sm": b64(smid),
                        "body": ("val", fmt, sm(size))})
        else:
            out.append({"rule": "/shells/<base64url:aas_id>/submodels/<base64url:submodel_id>", "method": "PUT", "accept": J, "query": [],
                        "cls": "put-via-shell-list", "aas": b64("urn:lists:aas"), "sm": b64(smid), "body": ("val", fmt, sm(size))})
        out.append({"rule": el, "method": "GET", "accept": rng.choice(ACC), "query": [], "cls": "get-list", "sm": b64(smid),
                    "path": "l1", "body": ("none",)})
    return out


def gen_replace_history(rng, n):
    """successive replacements of one submodel (directly, through a shell) and of a collection in it, over a handful of
    idShorts whose class changes freely from document to document (Property, Range, File, Blob, empty collection),
    children added and dropped; each followed by reads"""
    J = (None, "json")
    smid = "urn:replace"
    def leaf(name):
        return mk_elem(rng, name)                 # v* names: the class is drawn anew each time
    def doc():
        kids = [leaf(nm) for nm in rng.sample(["v1", "v2", "v3"], rng.randrange(1, 4))]
        if rng.random() < 0.8:
            kids.append(CS.C("c1", [leaf(nm) for nm in rng.sample(["v4", "v5"], rng.randrange(0, 3))], rng.randrange(1, 6)))
        rng.shuffle(kids)
        return {"k": "sm", "id": smid, "ids": "Rep", "tok": rng.randrange(1, 6),
                "quals": [(t, rng.randrange(1, 9)) for t in rng.sample(CS.QTYPES, rng.randrange(0, 3))], "elems": kids}
    one = "/submodels/<base64url:submodel_id>"
    el = one + "/submodel-elements/<id_short_path:id_shorts>"
    out = [{"rule": "/submodels", "method": "POST", "accept": J, "query": [], "cls": "post-sm", "body": ("val", rng.choice(FMT), doc())},
           {"rule": "/shells", "method": "POST", "accept": J, "query": [], "cls": "post-shell",
            "body": ("val", "json", {"k": "shell", "id": "urn:replace:aas", "ids": "A", "tok": 1, "refs": [smid]})}]
    while len(out) < n:
        how = rng.random()
        fmt = rng.choice(FMT)
        if how < 0.5:
            out.append({"rule": one, "method": "PUT", "accept": J, "query": [], "cls": "put-sm-classes", "sm": b64(smid), "body": ("val", fmt, doc())})
        elif how < 0.8:
            c = dict(CS.C("c1", [leaf(nm) for nm in rng.sample(["v4", "v5"], rng.randrange(0, 3))], rng.randrange(1, 6)), k="elem")
            out.append({"rule": el, "method": "PUT", "accept": J, "query": [], "cls": "put-collection-classes", "sm": b64(smid), "path": "c1",
                        "body": ("val", fmt, c)})
        else:
            out.append({"rule": "/shells/<base64url:aas_id>/submodels/<base64url:submodel_id>", "method": "PUT", "accept": J, "query": [],
                        "cls": "put-via-shell-classes", "aas": b64("urn:replace:aas"), "sm": b64(smid), "body": ("val", fmt, doc())})
        out.append({"rule": one, "method": "GET", "accept": rng.choice(ACC), "query": [], "cls": "get-sm", "sm": b64(smid), "body": ("none",)})
        out.append({"rule": el, "method": "GET", "accept": J, "query": [], "cls": "get-elem", "sm": b64(smid),
                    "path": rng.choice(["v1", "v2", "c1", "c1.v4", "c1.v5"]), "body": ("none",)})
    return out


gen_tok_history = CS.tok_history


def gen_refs_history(rng, n):
    """the submodel references of a shell: POST / list / DELETE by submodel id / redirect / PUT and DELETE of the
    submodel through the shell, over references with and without a referredSemanticId, to stored, missing and
    wrong-class targets"""
    J = (None, "json")
    aas = "urn:refs:aas"
    pool = [IDS["sm"][0], IDS["sm"][1], IDS["sm"][2], "urn:dangling", IDS["cd"][0]]      # [1] and urn:dangling carry a referredSemanticId
    a1 = "/shells/<base64url:aas_id>"
    out = [{"rule": "/shells", "method": "POST", "accept": J, "query": [], "cls": "post-shell",
            "body": ("val", rng.choice(FMT), {"k": "shell", "id": aas, "ids": "R", "tok": 1, "refs": rng.sample(pool, rng.randrange(0, 3))})}]
    for i in pool[:3]:
        if rng.random() < 0.7:
            out.append({"rule": "/submodels", "method": "POST", "accept": J, "query": [], "cls": "post-sm", "body": ("val", "json", mk_top(rng, "sm", i))})
    out.append({"rule": "/concept-descriptions", "method": "POST", "accept": J, "query": [], "cls": "post-cd",
                "body": ("val", "json", mk_top(rng, "cd", IDS["cd"][0]))})
    while len(out) < n:
        i = rng.choice(pool)
        x = rng.random()
        rq = {"accept": rng.choice(ACC), "query": [], "body": ("none",), "aas": b64(aas)}
        if x < 0.3:
            rq.update(rule=a1 + "/submodel-refs", method="POST", cls="post-ref", body=("val", rng.choice(FMT), {"k": "ref", "id": i}))
        elif x < 0.4:
            rq.update(rule=a1 + "/submodel-refs", method="GET", cls="list-refs", sorted=True)
        elif x < 0.65:
            rq.update(rule=a1 + "/submodel-refs/<base64url:submodel_id>", method="DELETE", cls="delete-ref", sm=b64(i))
        elif x < 0.8:
            rq.update(rule=a1 + "/submodels/<base64url:submodel_id>", method="GET", cls="via-shell", sm=b64(i))
        elif x < 0.9:
            rq.update(rule=a1 + "/submodels/<base64url:submodel_id>", method="PUT", cls="put-via-shell", sm=b64(i),
                      body=("val", rng.choice(FMT), mk_top(rng, "sm", i)))
        else:
            rq.update(rule=a1 + "/submodels/<base64url:submodel_id>", method="DELETE", cls="via-shell", sm=b64(i))
        out.append(rq)
    return out


def gen_history(rng, n, backed=False):
    out = []
    # start with something to work on
    for kind in ("sm", "shell", "cd"):
        rule = RULE[kind][0]
        out.append({"rule": rule, "method": "POST", "accept": (None, "json"), "query": [], "cls": "post-" + kind,
                    "body": ("val", "json", mk_top(rng, kind, IDS[kind][0]))})
    while len(out) < n:
        r = gen_request(rng)
        if backed and r["cls"] == "post-into-list":
            continue        # open finding C10:raises:post-into-list:local-file (see directed()); outside the model
        if backed and r["cls"] in ("list-sm", "list-shell", "list-cd"):
            # a local-file store lists in directory order: only whole listings are comparable (as multisets)
            r["query"] = [(k, v) for (k, v) in r["query"] if k not in ("limit", "cursor")]
        out.append(r)
    return out


# ------------------------------------------------------------------ the reference repository (oracle)

def norm(a):
    """order-insensitive view of an abstract value (update_from keeps the old order of what it updates)"""
    if isinstance(a, list):
        return [norm(x) for x in a]
    if not isinstance(a, dict):
        return a
    d = dict(a)
    if "quals" in d:
        d["quals"] = sorted(map(tuple, d["quals"]))
    for k in ("elems", "children"):
        if k in d:
            d[k] = [norm(c) for c in d[k]]
            if d.get("mt") != "SubmodelElementList":      # the items of a list are ordered
                d[k].sort(key=lambda c: json.dumps(c, sort_keys=True, default=str))
    if "refs" in d:
        d["refs"] = sorted(d["refs"])
    d.pop("k", None)
    d.pop("key", None)
    return d


def core_view(val):
    """what a reference repository stores for a body sent with level=core (the handler decodes it stripped)"""
    v = dict(val)
    for k in ("quals", "elems", "children", "refs"):
        if k in v:
            v[k] = []
    return v


def get_json(srv, url):
    r = srv.client.get(url)
    try:
        return r.status_code, (G.abs_json(json.loads(r.data)) if r.data else None)
    except Exception:
        return r.status_code, None


def oracle_history(srv, backed, reqs, routes):
    """-> [(index, kind, text, endpoint)]"""
    srv.reset([], [], backed)
    ref = {}          # identifier -> (kind, abstract value or None when the content is not tracked)
    fails = []
    uploads = {}      # attachment URL -> bytes uploaded there (or, for a Blob, the bytes it was created with)
    refs = {}         # shell identifier -> set of submodel identifiers it references
    has_get = {r for (r, ms, e) in routes if "GET" in ms}
    for k, req in enumerate(reqs):
        addressed = None
        if req.get("path") and req.get("sm") and H.decode_label(req["sm"])[0] == "ok" and "id_shorts" in req["rule"]:
            s0, stored_elem = get_json(srv, f"{G.BASE}/submodels/{req['sm']}/submodel-elements/{req['path']}")
            addressed = s0 == 200
        url, resp, exc = srv.fire(req)
        ep = srv.endpoint_of(req, url)
        if exc is None and addressed is False and resp.status_code < 400 and ep != "not_implemented":
            fails.append((k, "unknown-path", f"a request on an idShort path that addresses no element (GET of the path is not 200) "
                                             f"was answered {resp.status_code}", ep))
        if exc is not None:
            fails.append((k, "raises", f"{type(exc).__name__}: {str(exc)[:100]}", ep))
            continue
        st = resp.status_code
        b = req["body"]
        val = b[2] if b[0] == "val" else None
        core = ("level", "core") in req["query"]
        kind = {"post_aas": "shell", "post_submodel": "sm", "post_concept_description": "cd", "get_aas": "shell",
                "get_submodel": "sm", "get_concept_description": "cd", "put_aas": "shell", "put_submodel": "sm",
                "put_concept_description": "cd", "delete_aas": "shell", "delete_submodel": "sm",
                "delete_concept_description": "cd"}.get(ep)
        want_cls = {"shell": "shell", "sm": "sm", "cd": "cd"}
        if kind and ep.startswith("post_") and val is not None and val["k"] == want_cls[kind]:
            exp = 409 if val["id"] in ref else 201
            if st != exp:
                fails.append((k, "create", f"POST of id {'already' if exp == 409 else 'not yet'} stored answered {st}, reference says {exp}", ep))
            if st == 201:
                stored = dict(val)
                if core and kind == "sm":
                    stored = dict(val, quals=[], elems=[])
                ref[val["id"]] = (kind, stored)
                if kind == "shell":
                    refs[val["id"]] = set(val["refs"])      # post_aas never decodes stripped
        elif kind and not ep.startswith("post_"):
            lab = H.decode_label(req[RULE[kind][2]])
            ident = lab[1] if lab[0] == "ok" else None
            present = ident in ref and ref[ident][0] == kind
            if ep.startswith("get_"):
                if (st == 200) != present and st in (200, 404):
                    fails.append((k, "read", f"GET answered {st}, reference {'has' if present else 'does not have'} the identifier", ep))
                if st == 200 and present and req["accept"][1] == "json" and not core and ref[ident][1] is not None:
                    got = G.abs_json(json.loads(resp.data))
                    if norm(got) != norm(ref[ident][1]):
                        fails.append((k, "read-content", "GET returned other content than the reference repository holds", ep))
            elif ep.startswith("put_") and val is not None and val["k"] == want_cls[kind]:
                # a map from id to object: replaced under the same id; re-keyed if the document carries another, free id;
                # refused (409, nothing changed) if that id belongs to another object
                exp = 404 if not present else (409 if val["id"] != ident and val["id"] in ref else 204)
                if st != exp and st in (204, 404, 409):
                    fails.append((k, "replace", f"PUT of a document with {'the same' if val['id'] == ident else 'another'} id answered {st}, "
                                                f"the reference repository says {exp}", ep))
                if st == 204 and present:
                    new = dict(val)
                    if core and kind == "sm":
                        new = dict(val, quals=[], elems=[])
                    if core and kind == "shell":
                        new = dict(val, refs=[])
                    ref.pop(ident)
                    refs.pop(ident, None)
                    ref[val["id"]] = (kind, new)
                    if kind == "shell":
                        refs[val["id"]] = set(new["refs"])
            elif ep.startswith("delete_"):
                if (st == 204) != present and st in (204, 404):
                    fails.append((k, "delete", f"DELETE answered {st}, reference {'has' if present else 'does not have'} the identifier", ep))
                if st == 204:
                    ref.pop(ident, None)
                    refs.pop(ident, None)
        if ep == "put_submodel_submodel_elements_id_short_path" and addressed and val is not None and val["k"] == "elem" \
                and not CS.renames(req) and isinstance(stored_elem, dict) and stored_elem.get("mt") == val["mt"] and st != 204:
            # a reference repository replaces what it holds under the path by a well-formed document of the same class
            fails.append((k, "replace", f"PUT of a well-formed {val['mt']} document onto the path of a stored {val['mt']} "
                                        f"(same idShort) answered {st}, a reference repository replaces it (204)", ep))
        # ---- the submodel references of a shell: listed <-> addressable by the submodel identifier
        if ep in ("post_aas_submodel_refs", "delete_aas_submodel_refs_specific", "put_aas_submodel_refs_submodel",
                  "delete_aas_submodel_refs_submodel", "aas_submodel_refs_redirect") and req.get("aas"):
            la = H.decode_label(req["aas"])
            a_id = la[1] if la[0] == "ok" else None
            if a_id in refs and a_id in ref and ref[a_id][0] == "shell":
                if ep == "post_aas_submodel_refs":
                    if val is not None and val["k"] == "ref":
                        exp = 409 if val["id"] in refs[a_id] else 201
                        if st != exp:
                            fails.append((k, "reference", f"POST of a reference {'already' if exp == 409 else 'not yet'} held answered {st}", ep))
                        if st == 201:
                            refs[a_id].add(val["id"])
                else:
                    ls = H.decode_label(req["sm"]) if req.get("sm") else ("bad",)
                    s_id = ls[1] if ls[0] == "ok" else None
                    held = s_id in refs[a_id]
                    if held and st == 404 and not (ep in ("put_aas_submodel_refs_submodel", "delete_aas_submodel_refs_submodel")
                                                   and not (s_id in ref and ref[s_id][0] == "sm")):
                        fails.append((k, "reference", f"a submodel reference the shell lists is answered 404 when addressed by its identifier", ep))
                    if not held and st in (204, 307):
                        fails.append((k, "reference", f"a submodel reference the shell does not hold is answered {st}", ep))
                    if st == 204 and ep in ("delete_aas_submodel_refs_specific", "delete_aas_submodel_refs_submodel"):
                        refs[a_id].discard(s_id)
                    if st == 204 and ep == "put_aas_submodel_refs_submodel" and val is not None and val.get("k") == "sm" and val["id"] != s_id:
                        refs[a_id].discard(s_id)        # the shell's reference follows the re-keyed submodel
                        refs[a_id].add(val["id"])
                # the listing of the shell's references = the reference set
                s2, page = get_json(srv, f"{G.BASE}/shells/{b64(a_id)}/submodel-refs?limit=100")
                if s2 == 200:
                    items = page["items"] if isinstance(page, dict) and page.get("k") == "page" else []
                    got = sorted(x["keys"][0][1] for x in items if x.get("keys"))
                    if got != sorted(refs[a_id]):
                        fails.append((k, "reference", f"the shell lists {len(got)} references, the reference repository holds {len(refs[a_id])}", ep))
                        refs[a_id] = set(got)
        if ep is not None and kind is None and req["method"] in ("POST", "PUT", "DELETE") and st < 300:
            # a nested change: the reference keeps the identifier, its content is re-read from the server once
            for a in ("sm", "aas"):
                if req.get(a):
                    lab = H.decode_label(req[a])
                    if lab[0] == "ok" and lab[1] in ref:
                        ref[lab[1]] = (ref[lab[1]][0], None)
            if ep == "delete_aas_submodel_refs_submodel":
                lab = H.decode_label(req["sm"])
                ref.pop(lab[1], None)
            if ep == "put_aas_submodel_refs_submodel" and val is not None:
                lab = H.decode_label(req["sm"])
                if lab[1] in ref:
                    ref.pop(lab[1])
                    ref[val["id"]] = ("sm", None)        # re-keyed if the document carries another id
        # ---- no shell of the pool carries a specificAssetId: a listing filtered by assetIds is empty
        if ep in ("get_aas_all", "get_aas_all_reference") and st == 200 and any(k0 == "assetIds" for k0, _ in req["query"]) \
                and req["accept"][1] == "json":
            got = G.abs_json(json.loads(resp.data))
            if isinstance(got, dict) and got.get("items"):
                fails.append((k, "asset-ids", f"a listing filtered by assetIds that no stored shell carries returned {len(got['items'])} shells", ep))
        # ---- the core level of answers (JSON; for XML see the open finding core-level-ignored-for-xml)
        if st == 200 and req["method"] == "GET" and req["accept"][1] == "json" and resp.data and ep and \
                (core or ep.endswith("_metadata")) and not ep.endswith("_reference") and "qualifiers" not in ep \
                and not ep.startswith("get_aas"):       # the shell routes have no level option
            try:
                got = G.abs_json(json.loads(resp.data))
            except Exception:
                got = None
            items = got["items"] if isinstance(got, dict) and got.get("k") == "page" else (got if isinstance(got, list) else [got])
            for x in items:
                if isinstance(x, dict) and (x.get("quals") or x.get("elems") or x.get("children") or x.get("refs")):
                    fails.append((k, "core-view", "an answer at core level carries qualifiers / nested elements / references", ep))
                    break
        # ---- generic probes
        loc = resp.headers.get("Location")
        if st == 201 and loc and val is not None and val["k"] in ("sm", "shell", "cd", "elem", "qual"):
            s2, got = get_json(srv, loc)
            sent = core_view(val) if core and ep != "post_aas" else val
            if sent.get("k") == "elem" and sent.get("ids") is None:
                sent = dict(sent, ids=(got or {}).get("ids"))       # item of a list: the server names it
            if s2 != 200 or norm(got) != norm(sent):
                fails.append((k, "location", f"resource created{' with level=core' if core else ''} from a {b[1]} body is not retrievable "
                                             f"at its Location with the content a reference repository stores (GET -> {s2})", ep))
        if ep == "put_submodel_submodel_element_attachment" and st == 204:
            r2 = srv.client.get(url)
            want = G.CONTENTS[b[2][1]]
            if r2.status_code != 200 or r2.data != want:
                fails.append((k, "attachment", f"GET of the attachment after its upload returned 204 -> {r2.status_code}, "
                                               f"{'other bytes than uploaded' if r2.status_code == 200 else 'no content'}", ep))
            uploads[url] = want
        if ep == "get_submodel_submodel_element_attachment" and url in uploads:
            if st != 200 or resp.data != uploads[url]:
                fails.append((k, "attachment", f"GET of an attachment that was uploaded and not deleted -> {st}"
                                               f"{', other bytes than uploaded' if st == 200 else ''}", ep))
        if ep == "delete_submodel_submodel_element_attachment" and url in uploads and st != 204:
            fails.append((k, "attachment", f"DELETE of an attachment that was uploaded and not deleted -> {st}", ep))
        if ep == "delete_submodel_submodel_element_attachment" and st == 204:
            uploads.pop(url, None)
            for u2, want in list(uploads.items()):
                r2 = srv.client.get(u2)
                if r2.status_code == 404 and u2.split("/submodel-elements/")[0] == url.split("/submodel-elements/")[0]:
                    # the element may have been deleted or replaced meanwhile: only an existing File element counts
                    r3 = srv.client.get(u2[:-len("/attachment")])
                    if r3.status_code == 200 and b'"value"' in r3.data:
                        fails.append((k, "shared-attachment", "deleting one attachment made another element's attachment unavailable (404)", ep))
                        uploads.pop(u2, None)
        if ep == "delete_submodel_submodel_elements_id_short_path" and st == 204:
            # the element (and what lies below it) is gone; every other element keeps its attachment
            for u2 in [u for u in uploads if u.startswith(url + ".") or u == url + "/attachment"]:
                uploads.pop(u2)
            for u2, want in list(uploads.items()):
                r2 = srv.client.get(u2)
                if r2.status_code != 200 or r2.data != want:
                    fails.append((k, "attachment-lost", f"DELETE of a submodel element made the attachment of ANOTHER element unavailable "
                                                        f"or different (GET -> {r2.status_code})", ep))
                    uploads.pop(u2)
        elif req["method"] in ("PUT", "DELETE", "POST") and st < 300 and ep not in (
                "put_submodel_submodel_element_attachment", "delete_submodel_submodel_element_attachment",
                "post_submodel_submodel_elements_id_short_path", "post_submodel_submodel_element_qualifiers",
                "put_submodel_submodel_element_qualifiers", "delete_submodel_submodel_element_qualifiers"):
            uploads.clear()     # elements may have been replaced or removed: forget what was uploaded
            if ep in ("post_submodel", "put_submodel") and val is not None and val["k"] == "sm" and not core:
                # ... but a submodel document says what its Blobs hold
                for e0 in val["elems"]:
                    if e0["mt"] == "Blob" and e0["val"] is not None and G.CTYPES[e0["ctype"]].isprintable():
                        uploads[f"{G.BASE}/submodels/{b64(val['id'])}/submodel-elements/{e0['ids']}/attachment"] = G.CONTENTS[e0["val"][1]]
        if req["method"] == "DELETE" and st == 204 and req["rule"] in has_get:
            s2, _ = get_json(srv, url)
            if s2 != 404:
                fails.append((k, "delete-probe", f"resource still answered {s2} after its DELETE returned 204", ep))
        if req["method"] == "PUT" and st == 204 and val is not None and val["k"] == "elem" and CS.renames(req) and val.get("ids"):
            segs = req["path"].split(".")
            base_u = f"{G.BASE}/submodels/{req['sm']}/submodel-elements/"
            s_new, got = get_json(srv, base_u + ".".join(segs[:-1] + [val["ids"]]))
            s_old, _ = get_json(srv, base_u + req["path"])
            sent = core_view(val) if core else val
            if s_new != 200 or s_old != 404 or norm(got) != norm(sent):
                fails.append((k, "own-id", f"after a PUT that changed the idShort: GET new path -> {s_new}, GET old path -> {s_old}", ep))
        if req["method"] == "PUT" and st == 204 and val is not None and val["k"] in ("sm", "shell", "cd") and kind and CS.renames(req):
            base_u = G.BASE + RULE[kind][0] + "/"
            s_new, got = get_json(srv, base_u + b64(val["id"]))
            s_old, _ = get_json(srv, base_u + req[RULE[kind][2]])
            sent = core_view(val) if core else val
            if s_new != 200 or s_old != 404 or norm(got) != norm(sent):
                fails.append((k, "own-id", f"after a PUT that changed the id: GET new id -> {s_new}, GET old id -> {s_old}"
                                           f"{'' if s_new != 200 or norm(got) == norm(sent) else ', other content than sent'}", ep))
        if req["method"] == "PUT" and st == 204 and val is not None and val["k"] in ("sm", "shell", "cd", "elem") \
                and req["rule"] in has_get and not CS.renames(req):
            s2, got = get_json(srv, H.url_of(dict(req, query=[])))
            sent = core_view(val) if core and ep != "put_aas_asset_information" else val
            if s2 != 200 or norm(got) != norm(sent):
                fails.append((k, "replace-probe", f"content read after PUT{' with level=core' if core else ''} of a {b[1]} body (GET -> {s2}) "
                                                  f"is not the content a reference repository holds", ep))
        # ---- listings = keys of the reference, each object under its own id, pages = listing
        if req["method"] != "GET" and st < 300:
            for kd, (rule, conv, arg) in RULE.items():
                s2, page = get_json(srv, G.BASE + rule + "?limit=100")
                items = page["items"] if isinstance(page, dict) and page.get("k") == "page" else []
                ids = [x.get("id") for x in items]
                want = sorted(i for i, (kk, _) in ref.items() if kk == kd)
                if sorted(ids) != want:
                    fails.append((k, "listing", f"{rule} lists {len(ids)} identifiers, the reference holds {len(want)}", ep))
                    break
                for i in ids:
                    s3, got = get_json(srv, f"{G.BASE}{rule}/{b64(i)}")
                    if s3 != 200 or got.get("id") != i:
                        fails.append((k, "own-id", f"object listed with an id under which it is not readable (GET -> {s3})", ep))
                        break
                walked, cur, guard_ = [], 0, 0
                while guard_ < 50:
                    guard_ += 1
                    s3, pg = get_json(srv, f"{G.BASE}{rule}?limit=2&cursor={cur}")
                    if s3 != 200 or not pg["items"]:
                        break
                    walked += [x.get("id") for x in pg["items"]]
                    cur = int(pg["cursor"])
                if walked != ids:
                    fails.append((k, "paging", "pages following the cursor differ from the listing", ep))
                # a filtered listing = the listing restricted to the matching objects, and paging through it visits
                # exactly those (after requests that may have changed which top-level objects exist / how they are named)
                if kd != "cd" and (kind == kd or ep in ("put_aas_submodel_refs_submodel", "delete_aas_submodel_refs_submodel")):
                    bad = filtered_walks(srv, rule, items, kd, limits=(1, 2))
                    if bad:
                        fails.append((k, "filtered-paging", bad, ep))
    srv.cleanup()
    return fails


SEM_QUERY = b64(json.dumps({"type": "ExternalReference", "keys": [{"type": "GlobalReference", "value": G.SEM_VALUE}]}))


def filtered_walks(srv, rule, items, kd, limits):
    """items: the whole (unfiltered) listing as abstract values, in listing order.  For every idShort that occurs (and
    one that does not; for submodels also for the semanticId of the pool) and every limit: the pages of the filtered
    listing, followed by the cursor until a page is empty, are the matching objects of the listing, each once, in
    listing order - what a map from id to object answers.  -> None or a description of the first difference"""
    filters = [("idShort=" + urllib.parse.quote(v, safe=""), [x.get("id") for x in items if x.get("ids") == v])
               for v in sorted({x.get("ids") for x in items if x.get("ids")} | {"nope"})]
    if kd == "sm":       # tok classes 1 and 2 carry the semanticId of the pool (httpgen.sem_class)
        filters.append(("semanticId=" + SEM_QUERY, [x.get("id") for x in items if G.sem_class(x.get("tok", 0)) >= 1]))
    for (flt, want) in filters:
        for lim in limits:
            seen, cur, steps = [], 0, 0
            while steps < 60:
                steps += 1
                st, pg = get_json(srv, f"{G.BASE}{rule}?{flt}&limit={lim}&cursor={cur}")
                if st != 200 or not isinstance(pg, dict) or not pg.get("items"):
                    break
                seen += [x.get("id") for x in pg["items"]]
                cur = int(pg["cursor"])
            if (sorted(seen) != sorted(want)) if srv.backed else (seen != want):      # directory order may differ between requests
                return (f"GET {G.BASE}{rule}?{flt}&limit={lim}&cursor=0 and following the cursor visited {len(seen)} objects "
                        f"({len(set(seen) & set(want))} of the {len(want)} matching ones, {len(seen) - len(set(seen))} twice); "
                        f"the unfiltered listing holds {len(items)}")
    return None


def filtered_paging_oracle(srv, chk, rng):
    """filter x paging on stores where matching and non-matching objects interleave: 9 submodels and 9 shells over
    three idShorts (and the three semantics classes), every limit from 1 to beyond the listing size"""
    sms = [{"k": "sm", "id": f"urn:flt:sm:{i}", "ids": rng.choice(["FA", "FB", "FC", None]), "tok": rng.randrange(1, 7), "quals": [], "elems": []}
           for i in range(9)]
    shs = [{"k": "shell", "id": f"urn:flt:aas:{i}", "ids": rng.choice(["FA", "FB", "FC", None]), "tok": 1, "refs": []} for i in range(9)]
    objs = sms + shs
    rng.shuffle(objs)
    for backed in (False, True):
        srv.reset(objs, [], backed)
        for kd in ("sm", "shell"):
            rule = RULE[kd][0]
            st, page = get_json(srv, G.BASE + rule + "?limit=100")
            items = page["items"] if st == 200 and isinstance(page, dict) and page.get("k") == "page" else []
            if sorted(x.get("id") for x in items) != sorted(o["id"] for o in objs if o["k"] == kd):
                chk.fail(f"C10:listing:{rule}", f"GET {rule}?limit=100 does not list the {len(objs) // 2} stored objects",
                         {"how": "store filled with `objects`; GET the listing", "objects": objs, "backed": backed})
                continue
            bad = filtered_walks(srv, rule, items, kd, limits=(1, 2, 3, 4, 8, 9, 10, 100))
            if bad:
                chk.fail(f"C10:filtered-paging:{'submodels' if kd == 'sm' else 'shells'}", bad,
                         {"how": "store filled with `objects` (tools/httpgen.py mk_obj); GET the unfiltered listing with limit=100, "
                                 "then the filtered one with the limit and cursor=0 and with each returned cursor until a page is empty; "
                                 "compare with the unfiltered listing restricted to the matching idShort / semanticId",
                          "objects": objs, "backed": backed, "rule": rule, "semanticId_query": SEM_QUERY})
    srv.cleanup()


def paging_oracle(srv, chk, objs):
    """following the cursor visits every element of a listing exactly once - for limits below, equal to and
    above the listing size and above 100, on a listing of 130 elements"""
    for rule, want in (("/concept-descriptions", [o["id"] for o in objs if o["k"] == "cd"]),
                       (f"/submodels/{b64('urn:big')}/submodel-elements", [e["ids"] for o in objs if o["k"] == "sm" for e in o["elems"]])):
        key = "id" if rule == "/concept-descriptions" else "ids"
        for backed in (False, True):
            if backed and key == "id":
                continue        # directory order: pages of a local-file store are compared as a whole only
            srv.reset(objs, [], backed)
            for lim in (1, 7, 50, 99, 100, 101, 120, len(want) - 1, len(want), len(want) + 1, 200, 1000):
                seen, cur, steps = [], 0, 0
                while steps < 200:
                    steps += 1
                    st, pg = get_json(srv, f"{G.BASE}{rule}?limit={lim}&cursor={cur}")
                    if st != 200 or not pg["items"]:
                        break
                    seen += [x.get(key) for x in pg["items"]]
                    cur = int(pg["cursor"])
                if seen != want:
                    missing = len(set(want) - set(seen))
                    chk.fail(f"C10:paging:{'submodel-elements' if key == 'ids' else 'concept-descriptions'}",
                             f"GET {rule}?limit={lim} following the cursor saw {len(seen)} of {len(want)} elements ({missing} never, "
                             f"{len(seen) - len(set(seen))} twice)",
                             {"how": "store with 130 concept descriptions / a submodel with 130 elements (httpcases.big_listing); "
                                     "GET the listing with this limit and cursor=0, then with the returned cursor, until a page is empty",
                              "limit": lim, "rule": rule, "backed": backed})
                    break
    srv.cleanup()


def directed(srv, chk):
    """the open findings outside the random stream, each replayed on the server"""
    J = (None, "json")
    sm = {"k": "sm", "id": "urn:a", "ids": "S", "tok": 1, "quals": [], "elems": [CS.L("l1", [CS.P(None, 5)]), CS.C("c1", [CS.P("p2", 3)])]}
    post = {"rule": "/submodels", "method": "POST", "accept": J, "query": [], "body": ("val", "json", sm), "cls": "directed"}
    one = "/submodels/<base64url:submodel_id>"
    srv.reset([], [], False)
    srv.fire(post)
    r = srv.client.get(f"{G.BASE}/submodels/{b64('urn:a')}/submodel-elements/l1.0")
    if r.status_code != 200:
        chk.fail("C10:list-index-path-rejected", f"GET .../submodel-elements/l1.0 (first item of a SubmodelElementList) -> {r.status_code}",
                 {"how": "POST the submodel, then GET /submodels/<b64 urn:a>/submodel-elements/l1.0", "submodel": sm})
    r = srv.client.get(f"{G.BASE}/submodels/{b64('urn:a')}?level=core", headers={"Accept": "application/xml"})
    if b"submodelElements" in r.data:
        chk.fail("C10:core-level-ignored-for-xml", "GET ?level=core with Accept: application/xml returns the nested elements (JSON strips them)",
                 {"how": "POST the submodel, then GET /submodels/<b64 urn:a>?level=core with Accept: application/xml", "submodel": sm})
    for backed in (False, True):
        srv.reset([], [], backed)
        srv.fire(post)
        srv.fire({"rule": one, "method": "PUT", "accept": J, "query": [], "sm": b64("urn:a"), "cls": "directed",
                  "body": ("val", "json", dict(sm, id="urn:b"))})
        try:
            s_old, got = get_json(srv, f"{G.BASE}/submodels/{b64('urn:a')}")
            s_new, _ = get_json(srv, f"{G.BASE}/submodels/{b64('urn:b')}")
            bad = s_new != 200 or s_old == 200
        except Exception as e:
            bad, s_old, s_new = True, type(e).__name__, "-"
        if bad:
            chk.fail("C10:own-id:after-id-changing-put" + (":local-file" if backed else ""),
                     f"after PUT /submodels/<urn:a> with body id urn:b: GET <urn:a> -> {s_old}, GET <urn:b> -> {s_new}",
                     {"how": "POST submodel urn:a; PUT it with a body whose id is urn:b; GET both", "backed": backed})
    # POST of an item into a SubmodelElementList on a backed store
    srv.reset([], [], True)
    srv.fire(post)
    _, resp, exc = srv.fire({"rule": one + "/submodel-elements/<id_short_path:id_shorts>", "method": "POST", "accept": J, "query": [],
                             "sm": b64("urn:a"), "path": "l1", "cls": "directed", "body": ("val", "json", dict(CS.P(None, 2), k="elem"))})
    if exc is not None or resp.status_code >= 500:
        chk.fail("C10:raises:post-into-list:local-file", f"POST of an item into a SubmodelElementList on a LocalFileObjectStore: {type(exc).__name__}: {exc}",
                 {"how": "LocalFileObjectStore; POST submodel with list l1; POST a Property without idShort to .../submodel-elements/l1"})
    # idShort-changing PUT of a nested element
    srv.reset([], [], False)
    srv.fire(post)
    srv.fire({"rule": one + "/submodel-elements/<id_short_path:id_shorts>", "method": "PUT", "accept": J, "query": [],
              "sm": b64("urn:a"), "path": "c1", "cls": "directed", "body": ("val", "json", dict(CS.C("c9", []), k="elem"))})
    s_old, _ = get_json(srv, f"{G.BASE}/submodels/{b64('urn:a')}/submodel-elements/c1")
    s_new, _ = get_json(srv, f"{G.BASE}/submodels/{b64('urn:a')}/submodel-elements/c9")
    if s_new != 200 or s_old == 200:
        chk.fail("C10:own-id:after-idshort-changing-put", f"after PUT .../c1 with body idShort c9: GET c1 -> {s_old}, GET c9 -> {s_new}",
                 {"how": "POST submodel with collection c1; PUT .../submodel-elements/c1 with idShort c9; GET both paths"})
    srv.cleanup()


def run(chk):
    rng = chk.rng
    logging.disable(logging.CRITICAL)
    ex, srv = c11.tie_T(chk)
    chk.theorems("props.C10", THEOREMS, VO)
    model = ex is not None
    if not model:       # keep searching for a concrete failing input with the reference repository alone
        ex = {"routes": c11.fallback_routes(srv), "functions": {}}
    nh, hl = (140, 30) if chk.tier == "quick" else (700, 40)
    plans, hist = [], []
    for k in range(nh):
        backed = k % 3 == 2
        reqs = gen_history(rng, hl, backed)
        hist.append((backed, reqs))
        plans.append(([], [], backed, reqs, False))
    for k in range(max(8, nh // 12)):
        reqs = gen_replace_history(rng, 20)
        hist.append((k % 2 == 1, reqs))
        plans.append(([], [], k % 2 == 1, reqs, False))
    for k in range(max(8, nh // 10)):
        reqs = gen_refs_history(rng, 24)
        hist.append((k % 2 == 1, reqs))
        plans.append(([], [], k % 2 == 1, reqs, False))
    for k in range(max(6, nh // 12)):
        reqs = gen_list_history(rng, 16)
        hist.append((k % 2 == 1, reqs))
        plans.append(([], [], k % 2 == 1, reqs, False))
    for k in range(max(8, nh // 12)):
        reqs = gen_tok_history(rng, 24)
        hist.append((k % 2 == 1, reqs))
        plans.append(([], [], k % 2 == 1, reqs, False))
    for k in range(nh // 5):
        reqs = gen_attachment_history(rng, hl)
        hist.append((k % 2 == 1, reqs))
        plans.append(([], [], k % 2 == 1, reqs, False))
    for (label, backed, reqs, oracle_only) in CS.scenarios():
        if not oracle_only:
            plans.append(([], [], backed, reqs, False))
    # oracle: the reference repository on the same histories
    for (backed, reqs) in hist:
        for (k, kind, text, ep) in oracle_history(srv, backed, reqs, ex["routes"]):
            r = reqs[k]
            chk.fail(f"C10:{kind}:{ep}:{r.get('cls')}", f"{r['method']} {H.url_of(r)}: {text}",
                     dict(c11.replay_dict([], [], backed, reqs[:k + 1], k), probe_after_the_last_request=text))
        for r in reqs:
            chk.count("class=" + r["cls"])
    for (label, backed, reqs, oracle_only) in CS.scenarios():
        if not oracle_only:
            for (k, kind, text, ep) in oracle_history(srv, backed, reqs, ex["routes"]):
                r = reqs[k]
                chk.fail(f"C10:{kind}:{ep}:{r.get('cls')}", f"{r['method']} {H.url_of(r)}: {text}",
                         c11.replay_dict([], [], backed, reqs[:k + 1], k))
    directed(srv, chk)
    big_objs, big_reqs = CS.big_listing()
    paging_oracle(srv, chk, big_objs)
    filtered_paging_oracle(srv, chk, rng)
    plans.append((big_objs, [], False, big_reqs, False))
    n = c11.run_cases(chk, srv, ex, plans, "C10", prop="C10", model=model)
    chk.cov["requests_compared_with_model"] = n
    chk.cov["histories"] = {"in_memory": sum(1 for b, _ in hist if not b), "local_file": sum(1 for b, _ in hist if b), "length": hl}
    chk.samples = [{"history_prefix": [f"{r['method']} {H.url_of(r)} [{r['cls']}]" for r in reqs[:6]], "backed": b} for b, reqs in hist[:3]]
    chk.trusted = [
        "Coq 8.16.1 kernel (coqc; vm_compute for the finite table checks, the examples and the correspondence)",
        "tools/py2coq/httproutes.py (fail-closed ast translator; route table compared with url_map.iter_rules() on every run)",
        "hand-written model coq/theories/model/Http.v, tied to http.py / base.py (update_from) / provider.py / local_file.py / aasx.py "
        "only by the differential runs; model/Files.v for the file container (proved in C19)",
        "werkzeug (URL matching, converters, Accept negotiation, multipart parsing), JSON/XML readers and writers: not modelled",
        "tools/c10.py, c11.py, httpcorr.py, httpgen.py, httpcases.py (generators, canonicalisers, reference repository), tools/common.py",
    ]
    chk.assumptions = ["payloads are compared on the modelled attributes (id, idShort, one free attribute = description + semanticId + "
                       "supplementalSemanticIds read together, qualifiers, nested elements, "
                       "File/Blob value and content type, submodel references, globalAssetId)"]
    return chk.finish(level="proof",
                      rule="seeded random histories of 30 (quick) / 40 (thorough) mostly valid requests over 3 submodel / 3 shell / 2 concept "
                           "description identifiers (incl. '/', '+', '=', '?', non-ASCII), 12 idShort paths, 3 qualifier types, JSON/XML/text/xml "
                           "bodies, 4 Accept values, limit/cursor/level=core; every third history on a LocalFileObjectStore in a temporary "
                           "directory; non-trivial = every request; distinct by (method, URL, body, Accept, store kind)")


def replay(path):
    return c11.replay(path)
