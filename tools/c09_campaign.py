"""C09 - case generation and parallel execution of the damage campaign (uses c09_damage)."""
import copy
import json
import multiprocessing
import os
import random

from lxml import etree

import aasgen
import c09_damage as D

# objects of other properties' *open* findings are kept out of the valid documents (the undamaged
# document must be readable in strict mode, otherwise there is nothing to damage)
GEN_AVOID = {"unsigned_byte"}


# operators with several distinct damaged values: that many consecutive variants are enumerated per node
VARIANTS = {"lexeq": 6, "harmless": 3, "nsrebind": 2, "xsextreme": 6, "base64": 4, "xsliteral": 8, "wronglist": 3, "modeltype": 3, "enum": 3, "wrongtype": 3, "forbidden": 2,
            "overlong": 2}


def directed_stores():
    """hand-built valid stores with unusual but conformant shapes that neither the SDK examples nor the random
    generator are likely to contain.  Every node of them gets the *harmless* operator in every tier."""
    from basyx.aas import model
    from basyx.aas.model import datatypes as dt

    def ref(v):
        return model.ExternalReference((model.Key(model.KeyTypes.GLOBAL_REFERENCE, v),))
    # ---- SubmodelElementLists of every element type, with the optional valueTypeListElement / semanticIdListElement
    #      (AASd-109 only makes demands for Property and Range lists)
    sm = model.Submodel("urn:verif:c09:shapes", id_short="shapes")
    sem = ref("urn:verif:c09:sem")
    mk = {
        "Property": lambda: model.Property(None, dt.String, "v", semantic_id=sem),
        "Range": lambda: model.Range(None, dt.String, "a", "b", semantic_id=sem),
        "MultiLanguageProperty": lambda: model.MultiLanguageProperty(
            None, value=model.MultiLanguageTextType({"en": "a"}), semantic_id=sem),
        "File": lambda: model.File(None, "text/plain", "f.txt", semantic_id=sem),
        "Blob": lambda: model.Blob(None, "application/octet-stream", b"\x00\x01", semantic_id=sem),
        "ReferenceElement": lambda: model.ReferenceElement(None, ref("urn:verif:c09:r"), semantic_id=sem),
        "Capability": lambda: model.Capability(None, semantic_id=sem),
        "SubmodelElementCollection": lambda: model.SubmodelElementCollection(
            None, value=[model.Property("inner", dt.Int, 1)], semantic_id=sem),
        "Entity": lambda: model.Entity(None, model.EntityType.CO_MANAGED_ENTITY, semantic_id=sem),
        "Operation": lambda: model.Operation(None, semantic_id=sem),
        "RelationshipElement": lambda: model.RelationshipElement(None, ref("urn:a"), ref("urn:b"), semantic_id=sem),
        "SubmodelElementList": lambda: model.SubmodelElementList(None, model.Capability, semantic_id=sem),
    }
    for i, (name, f) in enumerate(mk.items()):
        for j, (vt, with_sem, order) in enumerate(((dt.String, True, True), (dt.Int, False, False), (None, False, True))):
            if vt is None and name in ("Property", "Range"):
                continue
            lst = model.SubmodelElementList(
                f"list{i}x{j}", getattr(model, name), value_type_list_element=vt if name not in ("Property", "Range")
                else dt.String, semantic_id_list_element=sem if with_sem else None, order_relevant=order)
            lst.value.add(f())
            if j == 0:
                lst.value.add(f())
            sm.submodel_element.add(lst)
    # ---- white space at the edges of (and as the whole of) string values
    ws = model.Submodel("urn:verif:c09:white space ", id_short="whitespace",
                        description=model.MultiLanguageTextType({"en": " lead", "de": "trail \n"}))
    for i, v in enumerate([" lead", "trail ", "\ttab\t", " ", "\n", "a  b", " \t\n "]):
        ws.submodel_element.add(model.Property(f"p{i}", dt.String, v, semantic_id=ref(" key " + str(i)),
                                               qualifier=[model.Qualifier("q", dt.String, v)],
                                               extension=[model.Extension("e", dt.String, v)]))
        ws.submodel_element.add(model.MultiLanguageProperty(
            f"m{i}", value=model.MultiLanguageTextType({"en": v, "de": v + "x"})))
    ws.submodel_element.add(model.Range("r", dt.String, " lo", "hi "))
    cd = model.ConceptDescription("urn:verif:c09:cd", id_short="cd")
    cd.embedded_data_specifications.append(model.EmbeddedDataSpecification(
        ref("urn:verif:c09:ds"),
        model.DataSpecificationIEC61360(model.PreferredNameTypeIEC61360({"en": " name "}),
                                        short_name=model.ShortNameTypeIEC61360({"en": "\ttab\t"}),
                                        unit=" u ", symbol=" ", value_format=" f", value=" v ",
                                        definition=model.DefinitionTypeIEC61360({"en": " d "}))))
    aas = model.AssetAdministrationShell(
        model.AssetInformation(model.AssetKind.INSTANCE, global_asset_id=" asset ",
                               specific_asset_id=[model.SpecificAssetId(" n ", " v ")]), "urn:verif:c09:aas")
    return [("directed.shapes", model.DictObjectStore([sm])), ("directed.whitespace", model.DictObjectStore([ws, cd, aas])),
            ("directed.arrays", directed_arrays()), ("directed.typed", directed_typed()), ("directed.refs", directed_refs())]


def directed_refs():
    """model references ending in a key of EVERY key type the metamodel allows there (each identifiable alone; below a
    submodel each referable non-identifiable type; the generic FragmentReference after File and after Blob; an index
    after SubmodelElementList), external references ending in either generic key type - each of them once in every
    place of the serialisations that holds a reference of that kind"""
    from basyx.aas import model
    from basyx.aas.model import datatypes as dt
    KT = model.KeyTypes
    SM = "urn:verif:c09:refs:sm"

    def k(t, v):
        return model.Key(t, v)
    chains = []      # [(name, key tuple)]
    for t in KT:
        if t.is_aas_identifiable:
            chains.append((t.name.lower(), (k(t, "urn:verif:c09:refs:" + t.name.lower()),)))
        elif t.is_fragment_key_element and not t.is_generic_fragment_key:
            chains.append((t.name.lower(), (k(KT.SUBMODEL, SM), k(t, "e"))))
    chains.append(("file_fragment", (k(KT.SUBMODEL, SM), k(KT.FILE, "f"), k(KT.FRAGMENT_REFERENCE, "page=7"))))
    chains.append(("blob_fragment", (k(KT.SUBMODEL, SM), k(KT.SUBMODEL_ELEMENT_COLLECTION, "c"), k(KT.BLOB, "b"),
                                     k(KT.FRAGMENT_REFERENCE, "#x"))))
    chains.append(("list_index", (k(KT.SUBMODEL, SM), k(KT.SUBMODEL_ELEMENT_LIST, "l"), k(KT.PROPERTY, "0"))))
    chains.append(("list_index_fragment", (k(KT.SUBMODEL, SM), k(KT.SUBMODEL_ELEMENT_LIST, "l"), k(KT.FILE, "2"),
                                           k(KT.FRAGMENT_REFERENCE, "a b"))))

    def mref(keys, rs=None):
        return model.ModelReference(keys, model.Referable, rs)
    ext = [("global", (k(KT.GLOBAL_REFERENCE, "urn:g"),)),
           ("global_fragment", (k(KT.GLOBAL_REFERENCE, "urn:g"), k(KT.FRAGMENT_REFERENCE, "frag"))),
           ("global_global", (k(KT.GLOBAL_REFERENCE, "urn:g"), k(KT.GLOBAL_REFERENCE, "urn:h"))),
           ("global_mixed", (k(KT.GLOBAL_REFERENCE, "urn:g"), k(KT.SUBMODEL, "urn:s"), k(KT.FRAGMENT_REFERENCE, "frag")))]
    sm = model.Submodel(SM, id_short="refs")
    sms = []
    # (a) one ReferenceElement per chain, the same reference again as its semantic id (eight to a submodel: small
    #     identifiables make cheap damage cases)
    elems = [model.ReferenceElement("ref_" + name, mref(keys), semantic_id=mref(keys)) for name, keys in chains]
    elems += [model.ReferenceElement("ext_" + name, model.ExternalReference(keys), semantic_id=model.ExternalReference(keys))
              for name, keys in ext]
    for i, e in enumerate(elems):
        if i % 8 == 0 and i:
            sms.append(model.Submodel(f"{SM}:{i // 8}", id_short=f"refs{i // 8}"))
        (sms[-1] if i >= 8 else sm).submodel_element.add(e)
    # (b) every other place, with the chains that are special in some table of the readers
    special = [c for c in chains if c[0] in ("file_fragment", "blob_fragment", "list_index_fragment", "submodel_element")]
    for name, keys in special:
        r = mref(keys)
        nested = mref(keys, model.ExternalReference(ext[1][1], mref(keys)))
        smc = model.Submodel(SM + ":" + name, id_short="at_" + name)     # (small identifiables: cheap damage cases)
        sms.append(smc)
        smc.submodel_element.add(model.RelationshipElement("rel", r, mref(chains[0][1])))
        smc.submodel_element.add(model.RelationshipElement("rel2", model.ExternalReference(ext[0][1]), r))
        smc.submodel_element.add(model.AnnotatedRelationshipElement("arel", r, r, annotation=[model.Property("a", dt.Int, 1)]))
        smc.submodel_element.add(model.BasicEventElement("ev", r, model.Direction.INPUT, model.StateOfEvent.OFF, message_broker=r))
        smc.submodel_element.add(model.Property("p", dt.Int, 1, value_id=r, semantic_id=r, supplemental_semantic_id=[r, nested],
                                     qualifier=[model.Qualifier("q", dt.Int, 1, value_id=r, semantic_id=r)],
                                     extension=[model.Extension("x", dt.Int, 1, refers_to=[r], semantic_id=r)]))
        smc.submodel_element.add(model.MultiLanguageProperty("m", value=model.MultiLanguageTextType({"en": "t"}), value_id=r))
        smc.submodel_element.add(model.ReferenceElement("n", nested))
        smc.submodel_element.add(model.SubmodelElementList("l", model.Capability, semantic_id_list_element=r))
        smc.submodel_element.add(model.Entity("ent", model.EntityType.SELF_MANAGED_ENTITY, global_asset_id="urn:g",
                                   specific_asset_id=[model.SpecificAssetId("n", "v", model.ExternalReference(ext[1][1]),
                                                                            semantic_id=r)]))
    frag = mref(chains[-4][1])
    cd = model.ConceptDescription("urn:verif:c09:refs:cd", id_short="cd", is_case_of={frag, model.ExternalReference(ext[1][1])},
                                  embedded_data_specifications=[model.EmbeddedDataSpecification(
                                      model.ExternalReference(ext[1][1]), model.DataSpecificationIEC61360(
                                          model.PreferredNameTypeIEC61360({"en": "n"}), unit_id=frag,
                                          value_list={model.ValueReferencePair("v", frag)}))])
    aas = model.AssetAdministrationShell(
        model.AssetInformation(model.AssetKind.INSTANCE, global_asset_id="urn:asset"), "urn:verif:c09:refs:aas",
        submodel={model.ModelReference((k(KT.SUBMODEL, SM),), model.Submodel)},
        derived_from=model.ModelReference((k(KT.ASSET_ADMINISTRATION_SHELL, "urn:verif:c09:refs:parent"),),
                                          model.AssetAdministrationShell),
        extension=[model.Extension("x", dt.String, "v", refers_to=[frag, mref(chains[-3][1])])])
    return model.DictObjectStore([sm, cd, aas] + sms)


def directed_typed():
    """one tiny submodel with every kind of typed leaf (the xsextreme / base64 operators are run on them exhaustively)"""
    from basyx.aas import model
    from basyx.aas.model import datatypes as dt
    import datetime
    import dateutil.relativedelta
    r = model.ModelReference((model.Key(model.KeyTypes.SUBMODEL, "urn:verif:c09:typed"),
                              model.Key(model.KeyTypes.PROPERTY, "p")), model.Property)
    sm = model.Submodel("urn:verif:c09:typed", id_short="typed")
    sm.submodel_element.add(model.Property("p", dt.Int, 5, qualifier=[model.Qualifier("q", dt.Int, 7)],
                                           extension=[model.Extension("e", dt.Int, 9)]))
    sm.submodel_element.add(model.Range("r", dt.Int, 1, 2))
    sm.submodel_element.add(model.Blob("b", "application/octet-stream", bytes(range(7, 130))))
    utc = datetime.timezone.utc
    for i, (t, v) in enumerate([
            (dt.Double, 5.5), (dt.Float, 0.25), (dt.Decimal, __import__("decimal").Decimal("1.50")), (dt.Boolean, True),
            (dt.Boolean, False), (dt.DateTime, datetime.datetime(2020, 1, 2, 3, 4, 5, 120000, tzinfo=utc)),
            (dt.Date, dt.Date(2020, 1, 2, utc)), (dt.Time, datetime.time(3, 4, 5, tzinfo=utc)),
            (dt.Duration, dateutil.relativedelta.relativedelta(years=1, days=3, seconds=6)),
            (dt.HexBinary, dt.HexBinary(b"\xab\xcd\x0f")), (dt.Base64Binary, dt.Base64Binary(bytes(range(100)))),
            (dt.GYear, dt.GYear(2020, utc)), (dt.Long, 0), (dt.NonNegativeInteger, 17), (dt.Integer, -4),
            (dt.Double, 100.0), (dt.Decimal, __import__("decimal").Decimal("7"))]):
        sm.submodel_element.add(model.Property(f"t{i}", t, v))
    sm.submodel_element.add(model.SubmodelElementList("ol", model.Capability, order_relevant=False))
    cd = model.ConceptDescription("urn:verif:c09:typed:cd", id_short="cd")
    cd.embedded_data_specifications.append(model.EmbeddedDataSpecification(
        model.ExternalReference((model.Key(model.KeyTypes.GLOBAL_REFERENCE, "urn:ds"),)),
        model.DataSpecificationIEC61360(model.PreferredNameTypeIEC61360({"en": "n"}),
                                        level_types={model.IEC61360LevelType.MIN, model.IEC61360LevelType.MAX})))
    sm.submodel_element.add(model.BasicEventElement(
        "ev", r, model.Direction.OUTPUT, model.StateOfEvent.ON,
        last_update=datetime.datetime(2022, 11, 12, 23, 50, 23, tzinfo=datetime.timezone.utc),
        min_interval=dateutil.relativedelta.relativedelta(seconds=1),
        max_interval=dateutil.relativedelta.relativedelta(years=1, months=2, days=3, hours=4, minutes=5, seconds=6)))
    return model.DictObjectStore([sm, cd])


def directed_arrays():
    """every array-valued member of the serialisations with at least three entries (damage at the first / middle / last
    entry must cost exactly that entry or a part that contains it)"""
    from basyx.aas import model
    from basyx.aas.model import datatypes as dt

    def ref(v, n=1):
        return model.ExternalReference(tuple(model.Key(model.KeyTypes.GLOBAL_REFERENCE, f"{v}/{i}") for i in range(n)))

    def mref(n):
        return model.ModelReference((model.Key(model.KeyTypes.SUBMODEL, f"urn:verif:c09:arr:sm{n}"),), model.Submodel)

    def text(cls, t="t"):
        return cls({"en": t + " one", "de": t + " zwei", "fr": t + " trois", "en-US": t + " four"})

    def quals():
        return [model.Qualifier(f"q{i}", dt.Int, i, value_id=ref(f"urn:q{i}"),
                                supplemental_semantic_id=[ref(f"urn:qs{i}/{j}", 1) for j in range(3)],
                                semantic_id=ref(f"urn:qsem{i}")) for i in range(3)]

    def exts():
        return [model.Extension(f"e{i}", dt.String, f"x{i}", refers_to=[mref(j) for j in range(3)]) for i in range(3)]

    def eds():
        return [model.EmbeddedDataSpecification(ref(f"urn:ds{i}", 1), model.DataSpecificationIEC61360(
            text(model.PreferredNameTypeIEC61360, "p"), short_name=text(model.ShortNameTypeIEC61360, "s"),
            definition=text(model.DefinitionTypeIEC61360, "d"), unit="u", value_format="f",
            value_list={model.ValueReferencePair(f"v{j}", ref(f"urn:vl{i}/{j}")) for j in range(3)},
            level_types={model.IEC61360LevelType.MIN, model.IEC61360LevelType.MAX, model.IEC61360LevelType.NOM}))
            for i in range(3)]

    def common(i, heavy=False):
        d = dict(display_name=text(model.MultiLanguageNameType, "n"), description=text(model.MultiLanguageTextType),
                 semantic_id=ref(f"urn:sem{i}", 3), supplemental_semantic_id=[ref(f"urn:sup{i}/{j}") for j in range(3)])
        if heavy:
            d.update(qualifier=quals(), extension=exts(), embedded_data_specifications=eds()[:2])
        return d
    sm = model.Submodel("urn:verif:c09:arr:sm0", id_short="arrays", **common(0))
    sm.submodel_element.add(model.Capability("heavy", **common(3, heavy=True)))
    sm.submodel_element.add(model.MultiLanguageProperty("mlp", value=text(model.MultiLanguageTextType, "v"),
                                                        description=text(model.MultiLanguageTextType)))
    smc = model.SubmodelElementCollection("smc", value=[model.Property(f"c{i}", dt.Int, i) for i in range(3)])
    sm.submodel_element.add(smc)
    sml = model.SubmodelElementList("sml", model.Property, value_type_list_element=dt.Int,
                                    value=[model.Property(None, dt.Int, i) for i in range(3)])
    sm.submodel_element.add(sml)
    sm.submodel_element.add(model.Operation(
        "op", input_variable=[model.Property(f"i{i}", dt.Int, i) for i in range(3)],
        output_variable=[model.Property(f"o{i}", dt.Int, i) for i in range(3)],
        in_output_variable=[model.Property(f"io{i}", dt.Int, i) for i in range(3)]))
    sm.submodel_element.add(model.Entity("ent", model.EntityType.SELF_MANAGED_ENTITY, global_asset_id="urn:g",
                                         specific_asset_id=[model.SpecificAssetId(f"n{i}", f"v{i}", semantic_id=ref(f"urn:sas{i}", 1),
                                                            supplemental_semantic_id=[ref(f"urn:ss{i}/{j}", 1) for j in range(3)])
                                                            for i in range(3)],
                                         statement=[model.Property(f"s{i}", dt.Int, i) for i in range(3)]))
    sm.submodel_element.add(model.AnnotatedRelationshipElement(
        "rel", ref("urn:first"), ref("urn:second"), annotation=[model.Property(f"a{i}", dt.Int, i) for i in range(3)]))
    cd = model.ConceptDescription("urn:verif:c09:arr:cd", id_short="cd", is_case_of={ref(f"urn:case{i}", 1) for i in range(3)},
                                  embedded_data_specifications=eds()[:1], description=text(model.MultiLanguageTextType))
    aas = model.AssetAdministrationShell(
        model.AssetInformation(model.AssetKind.INSTANCE, global_asset_id="urn:asset",
                               specific_asset_id=[model.SpecificAssetId(f"n{i}", f"v{i}") for i in range(3)]),
        "urn:verif:c09:arr:aas", submodel={mref(i) for i in range(3)}, description=text(model.MultiLanguageTextType))
    return model.DictObjectStore([sm, cd, aas])


CORPUS = os.path.join(os.path.dirname(os.path.dirname(os.path.abspath(__file__))), "corpus", "C09")


def write_corpus():
    """(re)writes corpus/C09/directed.*.{json,xml} from directed_stores(); run by hand on a clean tree"""
    os.makedirs(CORPUS, exist_ok=True)
    for name, st in directed_stores():
        with open(os.path.join(CORPUS, name + ".json"), "w") as f:
            json.dump(D.write_json(st), f, indent=1)
        with open(os.path.join(CORPUS, name + ".xml"), "wb") as f:
            f.write(etree.tostring(D.write_xml(st)))


def load_corpus():
    """-> [(name, fmt, doc)] of the valid documents stored as text (parsed with plain json / lxml)"""
    out = []
    if not os.path.isdir(CORPUS):
        return out
    for fn in sorted(os.listdir(CORPUS)):
        path = os.path.join(CORPUS, fn)
        if fn.startswith("directed.") and fn.endswith(".json"):
            out.append(("corpus." + fn[:-5], "json", json.load(open(path))))
        elif fn.startswith("directed.") and fn.endswith(".xml"):
            out.append(("corpus." + fn[:-4], "xml", etree.fromstring(open(path, "rb").read())))
    return out


def build_sources(rng, n_gen, size_lo=2, size_hi=4):
    """-> (sources, notes, prefails)
    sources: list of dicts {name, fmt, doc, items:[(list, idx, id)], base:{id: canon}, directed: bool};
    prefails: oracle failures on *undamaged* documents [(fmt, kind, text, data)] - a base document must be read by both
    readers in both modes before anything is damaged; that is checked here and reported, never assumed."""
    from basyx.aas.examples.data import create_example
    from basyx.aas.examples.data import example_aas_mandatory_attributes, example_submodel_template
    from basyx.aas import model
    stores = [("examples.create_example", create_example())]
    st = model.DictObjectStore()
    st.add(example_submodel_template.create_example_submodel_template())
    for o in example_aas_mandatory_attributes.create_full_example():
        st.add(o)
    stores.append(("examples.template+mandatory", st))
    # the directed documents are kept as text in corpus/C09 (written once by write_corpus() from directed_stores() on a
    # clean tree), so that they reach the readers even when the model classes refuse to build them
    directed_err = None
    corpus_docs = load_corpus()
    if not corpus_docs:
        try:
            stores += directed_stores()
        except Exception as e:  # noqa
            directed_err = f"directed stores could not be built and corpus/C09 is empty: {type(e).__name__}: {e}"
    for i in range(n_gen):
        stores.append((f"aasgen#{i}", aasgen.gen_store(rng, rng.randint(size_lo, size_hi), avoid=GEN_AVOID,
                                                        strings=rng.choice(["plain", "json", "xml"]))))
    sources, notes, prefails = [], [], []
    if directed_err:
        notes.append(directed_err)
    # the objects every document was written from, canonicalised in memory (no reader involved): what an undamaged
    # identifiable must come back as.  The corpus documents are text; their stores are rebuilt for the comparison only.
    origs = {name: canon_plain(st) for name, st in stores}
    if corpus_docs:
        try:
            for name, st in directed_stores():
                origs["corpus." + name] = canon_plain(st)
        except Exception as e:  # noqa
            notes.append(f"directed stores could not be rebuilt ({type(e).__name__}: {e}); corpus documents are compared "
                         f"with their strict read only")
    docs = []
    for name, st in stores:
        for fmt in ("json", "xml"):
            try:
                docs.append((name, fmt, D.write_json(st) if fmt == "json" else D.write_xml(st)))
            except Exception as e:  # noqa - a writer failure belongs to C03/C04/C05
                notes.append(f"{name}/{fmt}: writer raised {type(e).__name__}; skipped")
    docs[4:4] = corpus_docs
    for name, fmt, doc in docs:
        if True:
            items = D.json_items(doc) if fmt == "json" else D.xml_items(doc)
            data = serialise(fmt, doc)
            k1, r1 = D.run_reader(fmt, data, True)
            k2, r2 = D.run_reader(fmt, data, False)
            if k1 != "ok":
                prefails.append((fmt, "failsafe-raises:" + type(r1).__name__,
                                 f"failsafe read of an UNDAMAGED valid document ({name}) raised "
                                 f"{type(r1).__name__}: {str(r1)[:300]}", data))
                continue
            if name in origs:
                f = base_oracle(fmt, data, origs[name], name)
                if f:
                    prefails.append((fmt, f[0], f[1], data, origs[name]))
                    continue
            if k2 != "ok":
                if not D.documented(r2):
                    prefails.append((fmt, "strict-raises:" + type(r2).__name__,
                                     f"strict read of an UNDAMAGED valid document ({name}) raised undocumented "
                                     f"{type(r2).__name__}: {str(r2)[:300]}", data))
                else:   # writer and strict reader disagree about a valid object: C03/C04's clause
                    notes.append(f"{name}/{fmt}: undamaged document rejected in strict mode ({type(r2).__name__}: "
                                 f"{str(r2)[:120]}); skipped")
                continue
            base = D.canon_of(r2)
            if D.canon_of(r1) != base:
                prefails.append((fmt, "strict-differs", f"failsafe and strict read of an UNDAMAGED valid document ({name}) "
                                                        f"return different objects", data))
                continue
            if sorted(base) != sorted(i for (_, _, i) in items):
                notes.append(f"{name}/{fmt}: undamaged read does not return all identifiables; skipped")
                continue
            ks, rs = D.run_reader(fmt, data, False, stripped=True)
            if ks != "ok":
                prefails.append((fmt, "strict-raises:" + type(rs).__name__,
                                 f"strict stripped read of an UNDAMAGED valid document ({name}) raised {type(rs).__name__}: "
                                 f"{str(rs)[:300]}", data))
                continue
            sources.append({"name": name, "fmt": fmt, "doc": doc, "items": items, "base": base,
                            "base_stripped": D.canon_of(rs),
                            "directed": name.startswith("directed.") or name.startswith("corpus.")})
    return sources, notes, prefails


def canon_plain(store):
    """{id: canonical form without ModelReference.type} - the part of an object that the serialisations carry (the Python
    typing aid `type` of a model reference is not written; each reader re-derives it from the keys in its own way)"""
    res = {}
    for o in store:
        try:
            res[o.id] = json.dumps(aasgen._drop_type(aasgen.canon(o)), sort_keys=True, default=str)
        except Exception as e:  # noqa
            res[o.id] = f"<uncanonical {type(e).__name__}: {e}>"
    return res


IEC_STRS = ("unit", "source_of_definition", "symbol", "value_format")


def _xml_text_layer(canon_json):
    """XML has no spelling for an empty optional xs:string that differs from an absent one where the schema demands
    minLength 1; the only optional strings of the metamodel that the model classes let be '' are the four of
    DataSpecificationIEC61360 (aasgen kind ostr0).  '' and None are the same value there (as in C04)."""
    def go(v):
        if isinstance(v, list):
            return [go(x) for x in v]
        if isinstance(v, dict):
            out = {k: go(x) for k, x in v.items()}
            if out.get("_class") == "DataSpecificationIEC61360":
                for a in IEC_STRS:
                    if out.get(a) == "":
                        out[a] = None
            return out
        return v
    if not canon_json.startswith("{"):
        return canon_json
    return json.dumps(go(json.loads(canon_json)), sort_keys=True, default=str)


def base_oracle(fmt, data, expected, name="?"):
    """the failsafe read of an UNDAMAGED document that the SDK writer produced from a model store must return every
    identifiable of that store unchanged; `expected` = canon_plain of the store the document was written from (computed
    on the in-memory objects, no reader involved).  -> None | (kind, text)"""
    k1, r1 = D.run_reader(fmt, data, True)
    if k1 != "ok":
        return ("failsafe-raises:" + type(r1).__name__, f"failsafe read of an UNDAMAGED valid document ({name}) raised "
                f"{type(r1).__name__}: {str(r1)[:300]}")
    got = canon_plain(r1)
    if fmt == "xml":
        expected = {i: _xml_text_layer(c) for i, c in expected.items()}
        got = {i: _xml_text_layer(c) for i, c in got.items()}
    for i in sorted(expected, key=str):
        if i not in got:
            return ("undamaged-dropped", f"UNDAMAGED valid document ({name}): identifiable {i!r} of the store it was written "
                    f"from is missing from the failsafe result")
        if got[i] != expected[i]:
            try:
                d = str(aasgen.diff(json.loads(expected[i]), json.loads(got[i])))
            except Exception:  # noqa
                d = "(no structural diff)"
            return ("undamaged-changed", f"UNDAMAGED valid document ({name}): identifiable {i!r} was read differently from "
                    f"the object it was written from: {d[:400]}")
    extra = [i for i in got if i not in expected]
    if extra:
        return ("extra-object", f"UNDAMAGED valid document ({name}): failsafe result contains identifiers {extra[:3]!r} "
                f"that are not in the store it was written from")
    return None


def serialise(fmt, doc):
    if isinstance(doc, D.RawText):
        return doc.data
    if fmt == "json":
        return json.dumps(doc)
    return etree.tostring(doc)


def item_size(fmt, doc, it):
    ln, idx, _ = it
    if fmt == "json":
        return len(json.dumps(doc[ln][idx]))
    return len(etree.tostring(doc.find(ln)[idx]))


def small_doc(src, victim, witnesses):
    """document holding only the victim and the witness identifiables (in their proper lists).
    Returns (doc, victim_path, ids)"""
    fmt, doc = src["fmt"], src["doc"]
    chosen = [victim] + [w for w in witnesses if w != victim]
    if fmt == "json":
        d = {}
        vpath = None
        for (ln, idx, _id) in sorted(chosen, key=lambda t: (D.JSON_LISTS.index(t[0]), t[1])):
            d.setdefault(ln, []).append(copy.deepcopy(doc[ln][idx]))
            if (ln, idx, _id) == victim:
                vpath = (ln, len(d[ln]) - 1)
        return d, vpath, [c[2] for c in chosen]
    root = etree.Element(doc.tag, nsmap=doc.nsmap)
    vpath = None
    for (ln, idx, _id) in sorted(chosen, key=lambda t: (D.XML_LISTS.index(t[0]), t[1])):
        lst = root.find(ln)
        if lst is None:
            lst = etree.SubElement(root, ln)
        lst.append(copy.deepcopy(doc.find(ln)[idx]))
        if (ln, idx, _id) == victim:
            vpath = (list(root).index(lst), len(lst) - 1)
    return root, vpath, [c[2] for c in chosen]


def array_position_nodes(fmt, d, nodes):
    """first / middle / last item of every array-valued member (JSON list, XML element with >= 2 children), and the
    first leaf below each of these items"""
    out = set()
    nodeset = set(nodes)
    for p in nodes:
        if fmt == "json":
            v = D._jget(d, p)
            n = len(v) if isinstance(v, list) else 0
        else:
            n = len(D._xget(d, p))
            if n < 2:
                n = 0
        if n == 0:
            continue
        for i in sorted({0, n // 2, n - 1}):
            q = p + (i,)
            if q not in nodeset:
                continue
            out.add(q)
            # first leaf below the item
            cur = q
            while True:
                if fmt == "json":
                    v = D._jget(d, cur)
                    kids = [cur + (k,) for k in v] if isinstance(v, dict) else \
                        [cur + (j,) for j in range(len(v))] if isinstance(v, list) else []
                else:
                    kids = [cur + (j,) for j in range(len(D._xget(d, cur)))]
                if not kids:
                    break
                cur = kids[0]
            if cur != q:
                out.add(cur)
    return out


def enumerate_cases(rng, sources, budget, per_victim_nodes=None, forced_cap=None, typed_cap=None):
    """-> list of case specs (src index, victim item, witnesses, relative node path, op, variant, other id).
    All node x operator pairs are enumerated; when their number exceeds `budget` a seeded sample is drawn."""
    specs, forced, forced_typed = [], [], []
    for si, src in enumerate(sources):
        fmt, doc, items = src["fmt"], src["doc"], src["items"]
        sizes = {it: item_size(fmt, doc, it) for it in items}
        smalls = sorted(items, key=lambda it: sizes[it])
        for victim in items:
            others = [it for it in smalls if it != victim]
            wit = others[:6]
            witnesses = rng.sample(wit, min(2, len(wit)))
            d, vpath, ids = small_doc(src, victim, witnesses)
            if fmt == "json":
                nodes = [vpath] + D.json_nodes(D._jget(d, vpath), vpath)
                appl = D.json_applicable
            else:
                nodes = [vpath] + D.xml_nodes(D._xget(d, vpath), vpath)
                appl = D.xml_applicable
            array_nodes = array_position_nodes(fmt, d, nodes) if src["name"].endswith("directed.arrays") else set()
            if per_victim_nodes and len(nodes) > per_victim_nodes:
                nodes = [nodes[0]] + rng.sample(nodes[1:], per_victim_nodes - 1)
            for path in nodes:
                for op in appl(d, path):
                    oid = witnesses[0][2] if witnesses else None
                    nv = 10 if (op == "harmless" and fmt == "json") else VARIANTS.get(op, 1)
                    base = rng.randrange(10 ** 6)
                    for v in range(nv):
                        specs.append((si, victim, tuple(witnesses), path, op, base + v, oid))
                    if src.get("directed") and op == "lexeq":
                        for v in range(8):
                            forced.append((si, victim, tuple(witnesses), path, op, v, oid))
                    if src["name"].endswith("directed.typed") and op in ("xsextreme", "base64", "xsliteral"):
                        key = path[-1] if fmt == "json" else D._lname(D._xget(d, path))
                        n = {"base64": 10, "xsliteral": 8}.get(op) or (
                            len(D.XS_EXTREME[D.XS_FIXED[key]]) if key in D.XS_FIXED else len(D.XS_EXTREME_PAIRS))
                        for v in range(n):
                            forced_typed.append((si, victim, tuple(witnesses), path, op, v, oid))
                    if src["name"].endswith("directed.arrays") and path in array_nodes and op not in ("harmless",):
                        forced.append((si, victim, tuple(witnesses), path, op, base + 1, oid))
                    if op == "harmless" and fmt == "xml" and src.get("directed"):
                        # directed: a comment / PI inside a text value with white space at its edges, in every tier
                        el = D._xget(d, path)
                        if len(el) == 0 and el.text and el.text != el.text.strip():
                            b13 = base - base % D.HARMLESS_K
                            for k in (4, 5, 6):
                                for c in range(3):
                                    forced.append((si, victim, tuple(witnesses), path, op, b13 + k + D.HARMLESS_K * c, oid))
    total = len(specs)
    forced = list(dict.fromkeys(forced))
    if forced_cap and len(forced) > forced_cap:
        # keep all directed white-space cases, thin out the array-position cases evenly (by hash, reproducible)
        keep = [sp for sp in forced if sp[4] in HARMLESS_OPS]
        rest = sorted((sp for sp in forced if sp[4] not in HARMLESS_OPS), key=spec_hash)
        forced = keep + rest[:max(0, forced_cap - len(keep))]
    if budget and total > budget:
        # stratified by (format, operator): rare operators (duplicated id, wrong list, xs literal, base64, modelType)
        # are run exhaustively up to their share, the rest of the budget is drawn uniformly
        groups = {}
        for sp in specs:
            groups.setdefault((sources[sp[0]]["fmt"], sp[4]), []).append(sp)
        share = max(1, budget // (2 * len(groups)))
        chosen, rest = [], []
        for key in sorted(groups):
            g = groups[key]
            rng.shuffle(g)
            chosen += g[:share]
            rest += g[share:]
        if len(chosen) < budget:
            chosen += rng.sample(rest, min(len(rest), budget - len(chosen)))
        specs = chosen
    forced_typed = list(dict.fromkeys(forced_typed))
    if typed_cap and len(forced_typed) > typed_cap:
        forced_typed = sorted(forced_typed, key=spec_hash)[:typed_cap]
    forced = forced + forced_typed
    have = set(specs)
    specs = specs + [sp for sp in forced if sp not in have]
    return specs, total


def case_context(doc, fmt, path):
    """(constructor, member kind) of the damaged node for classification"""
    if fmt == "json":
        cur, ctor = doc, "?"
        for k in path[:-1]:
            cur = cur[k]
            if isinstance(cur, dict):
                ctor = cur.get("modelType", "-") if isinstance(cur.get("modelType", "-"), str) else "-"
        key = path[-1]
        if isinstance(key, int):
            key = f"{path[-2]}[]" if len(path) > 1 else "[]"
        return ctor, str(key)
    el = D._xget(doc, path)
    par = el.getparent()
    return (D._lname(par) if par is not None else "-"), D._lname(el)


NO_VICTIM_RULE = ("harmless", "wronglist", "lexeq")
HARMLESS_OPS = ("harmless", "lexeq")


def delete_at(fmt, d, pre):
    """copy of the undamaged document d without the node at path pre"""
    d3 = copy.deepcopy(d)
    if fmt == "json":
        parent = D._jget(d3, pre[:-1])
        del parent[pre[-1]]
    else:
        el = D._xget(d3, pre)
        el.getparent().remove(el)
    return d3


def victim_rule(src, fmt, d, vpath, path, vid, got, base, style, data=None):
    """"dropping only damaged objects or their damaged optional parts": the damaged identifiable may come back unchanged,
    not at all, or exactly as it is read from a *valid* document in which the damaged node or a node that contains it has
    been removed.  Returns None if one of these holds, else a text."""
    if got is None or got == base.get(vid):
        return None
    if fmt == "json" and data is not None:
        # the damage produced another *valid* object (e.g. modelType changed to another class): strict only objects to
        # its place in the document; the reader returns what the damaged text says
        try:
            json.loads(data if isinstance(data, str) else data.decode(), cls=D.decoder_class("json", False, style["stripped"] if style else False))
            return None
        except Exception:  # noqa
            pass
    tried = 0
    cands = []
    try:    # the damaged node as an empty container (all its items dropped one by one)
        d0 = copy.deepcopy(d)
        if fmt == "json":
            par = D._jget(d0, path[:-1])
            if isinstance(par[path[-1]], list):
                par[path[-1]] = []
                cands.append(d0)
        else:
            el = D._xget(d0, path)
            if len(el) > 0:
                for ch in list(el):
                    el.remove(ch)
                cands.append(d0)
    except Exception:  # noqa
        pass
    for L in range(len(path), len(vpath), -1):
        try:
            cands.append(delete_at(fmt, d, path[:L]))
        except Exception:  # noqa
            continue
    for d3 in cands:
        try:
            data3 = serialise(fmt, d3)
        except Exception:  # noqa
            continue
        tried += 1
        k, r = D.run_reader(fmt, data3, True, style=style)
        if k == "ok" and D.canon_of(r).get(vid) == got:
            k2, _ = D.run_reader(fmt, data3, False, style=style)
            if k2 == "ok":
                return None
    return (f"the damaged identifiable {vid!r} was returned, but neither unchanged nor as it is read when the damaged node "
            f"or one of the {tried} nodes containing it is removed from the valid document: undamaged parts were lost")


def spec_hash(spec):
    import zlib
    return zlib.crc32(repr(spec).encode())


def run_spec(sources, spec):
    """Executes one case.  Returns dict(obs=(failsafe, strict), fail=None|(kind, text), ctx=(ctor, member))"""
    si, victim, witnesses, path, op, variant, oid = spec
    src = sources[si]
    fmt = src["fmt"]
    h = spec_hash(spec)
    style = D.style_of(h)
    base = src["base_stripped"] if style["stripped"] else src["base"]
    d, vpath, ids = small_doc(src, victim, list(witnesses))
    ctx = case_context(d, fmt, path)
    dmg = D.json_damage if fmt == "json" else D.xml_damage
    try:
        d2 = dmg(d, path, op, variant, oid)
    except ValueError:      # lxml refuses a string that cannot occur in an XML document: not a well-formed input
        return None
    if d2 is None:
        return None
    try:
        data = serialise(fmt, d2)
    except Exception as e:  # noqa - e.g. a string lxml refuses: not a well-formed document, not a case
        return None
    damaged = {victim[2]}
    if op == "dupid" and len(path) == 3:
        damaged.add(oid)
    if op in HARMLESS_OPS:
        damaged = set()
    if D.damages_all(op, variant):
        damaged = set(ids)
    out = {}
    obs, fail = D.oracle(fmt, data, base, damaged, ids, harmless=(op in HARMLESS_OPS), style=style, out=out)
    if fail is None and obs[0] == "ok" and obs[1] != "ok" and op not in NO_VICTIM_RULE and len(damaged) == 1:
        why = victim_rule(src, fmt, d, vpath, path, victim[2], out["failsafe"].get(victim[2]), base, style, data)
        if why:
            fail = ("damaged-overdropped", why)
    if fail is None and (h // 97) % 10 == 0:
        # the same case under another logging configuration: nothing may change
        n = 1 + (h // 7) % 6
        out2 = {}
        with D.logcfg(n):
            obs2, fail2 = D.oracle(fmt, data, base, damaged, ids, harmless=(op in HARMLESS_OPS), style=style, out=out2)
        if obs2 != obs or out2 != out or (fail2 is not None):
            fail = ("logging-dependent", f"with logging configuration {n} ({LOGCFG_NAMES[n]}) the readers behave differently "
                                         f"than with a silent basyx logger: outcomes {obs} vs {obs2}"
                                         + ("" if out2 == out else "; the returned objects differ")
                    + (f"; {fail2[1][:200]}" if fail2 else ""))
    rep = None
    if fail:
        txt = (lambda x: x if isinstance(x, str) else x.decode("utf-8", "replace"))
        rep = {"kind": "damage", "fmt": fmt, "data": txt(data), "all_ids": ids,
               "damaged_ids": sorted(x for x in damaged if x is not None),
               "base_canon": {i: base[i] for i in ids if i in base}, "operator": op, "path": list(path),
               "vpath": list(vpath), "victim": victim[2], "harmless": op in HARMLESS_OPS, "style": style,
               "data_hex": data.hex() if isinstance(data, bytes) else None,
               "undamaged": txt(serialise(fmt, d)), "failure": fail[0],
               "logcfg": (1 + (h // 7) % 6) if fail[0] == "logging-dependent" else None,
               "how": "tools/c09.py replay(): c09_campaign.replay_case"}
    return {"obs": obs, "fail": fail, "ctx": ctx, "data": data if fail else None,
            "style": style, "h": h, "replay": rep}


def replay_case(rp):
    """re-runs a recorded damage case; returns (obs, failure or None)"""
    fmt, style = rp["fmt"], rp.get("style")
    data = bytes.fromhex(rp["data_hex"]) if rp.get("data_hex") else (rp["data"] if fmt == "json" else rp["data"].encode())
    out = {}
    obs, fail = D.oracle(fmt, data, rp["base_canon"], set(rp["damaged_ids"]), rp["all_ids"],
                         harmless=rp.get("harmless", False), style=style, out=out)
    if fail is None and rp.get("failure") == "damaged-overdropped" and out.get("failsafe") is not None:
        d = json.loads(rp["undamaged"]) if fmt == "json" else etree.fromstring(rp["undamaged"].encode())
        why = victim_rule(None, fmt, d, tuple(rp["vpath"]), tuple(rp["path"]), rp["victim"],
                          out["failsafe"].get(rp["victim"]), rp["base_canon"], style, data)
        if why:
            fail = ("damaged-overdropped", why)
    if fail is None and rp.get("logcfg"):
        out2 = {}
        with D.logcfg(rp["logcfg"]):
            obs2, fail2 = D.oracle(fmt, data, rp["base_canon"], set(rp["damaged_ids"]), rp["all_ids"],
                                   harmless=rp.get("harmless", False), style=style, out=out2)
        if obs2 != obs or out2 != out or fail2 is not None:
            fail = ("logging-dependent", f"outcomes {obs} vs {obs2} under logging configuration {rp['logcfg']}")
    return obs, fail


LOGCFG_NAMES = {1: "basyx logger level NOTSET", 2: "level DEBUG with a stream handler attached", 3: "level ERROR",
                4: "logging.disable(CRITICAL)", 5: "no handlers, lastResort None", 6: "level CRITICAL"}


_G = {}


def _worker(chunk):
    sources = _G["sources"]
    hook = _G.get("hook")
    out = []
    for spec in chunk:
        try:
            r = run_spec(sources, spec)
        except RecursionError:
            r = {"obs": ("RecursionError", "RecursionError"), "fail": ("harness", "recursion"), "ctx": ("?", "?"),
                 "data": None}
        out.append(r)
    ev = hook.drain() if hook else None
    return out, ev


def run_parallel(sources, specs, jobs=8, hook_factory=None):
    """Runs all specs in forked workers (results in spec order).  hook_factory() installs the exception
    observation (tie C) inside each worker and returns an object with drain()."""
    _G["sources"] = sources
    chunks = [specs[i:i + 40] for i in range(0, len(specs), 40)]
    results, events = [], []
    if jobs <= 1:
        _G["hook"] = hook_factory() if hook_factory else None
        for c in chunks:
            r, ev = _worker(c)
            results.extend(r)
            events.append(ev)
        return results, events
    ctx = multiprocessing.get_context("fork")

    def init():
        _G["hook"] = hook_factory() if hook_factory else None
    with ctx.Pool(jobs, initializer=init) as pool:
        for r, ev in pool.imap(_worker, chunks):
            results.extend(r)
            events.append(ev)
    return results, events
