"""C09 - case generation and parallel execution of the damage campaign (uses c09_damage)."""
import copy
import json
import multiprocessing
import os
import random

from lxml import etree

import aasgen
import c09_damage as D

# objects of other properties' *open* findings are kept out of the valid documents (the undamaged
# document must be readable in strict mode, otherwise there is nothing to damage)
GEN_AVOID = {"unsigned_byte"}


# operators with several distinct damaged values: that many consecutive variants are enumerated per node
VARIANTS = {"harmless": 2, "base64": 4, "xsliteral": 8, "wronglist": 3, "modeltype": 3, "enum": 3, "wrongtype": 3, "forbidden": 2,
            "overlong": 2}


def build_sources(rng, n_gen, size_lo=2, size_hi=4):
    """-> list of dicts {name, fmt, doc, items:[(list, idx, id)], base:{id: canon}} ; plus list of notes"""
    from basyx.aas.examples.data import create_example
    from basyx.aas.examples.data import example_aas_mandatory_attributes, example_submodel_template
    from basyx.aas import model
    stores = [("examples.create_example", create_example())]
    st = model.DictObjectStore()
    st.add(example_submodel_template.create_example_submodel_template())
    for o in example_aas_mandatory_attributes.create_full_example():
        st.add(o)
    stores.append(("examples.template+mandatory", st))
    for i in range(n_gen):
        stores.append((f"aasgen#{i}", aasgen.gen_store(rng, rng.randint(size_lo, size_hi), avoid=GEN_AVOID,
                                                        strings=rng.choice(["plain", "json", "xml"]))))
    sources, notes = [], []
    for name, st in stores:
        for fmt in ("json", "xml"):
            try:
                doc = D.write_json(st) if fmt == "json" else D.write_xml(st)
            except Exception as e:  # noqa - a writer failure belongs to C03/C04/C05
                notes.append(f"{name}/{fmt}: writer raised {type(e).__name__}")
                continue
            items = D.json_items(doc) if fmt == "json" else D.xml_items(doc)
            k, r = D.run_reader(fmt, serialise(fmt, doc), False)
            if k != "ok":
                notes.append(f"{name}/{fmt}: undamaged document not readable in strict mode ({type(r).__name__}); skipped")
                continue
            base = D.canon_of(r)
            if sorted(base) != sorted(i for (_, _, i) in items):
                notes.append(f"{name}/{fmt}: undamaged read does not return all identifiables; skipped")
                continue
            sources.append({"name": name, "fmt": fmt, "doc": doc, "items": items, "base": base})
    return sources, notes


def serialise(fmt, doc):
    if isinstance(doc, D.RawText):
        return doc.data
    if fmt == "json":
        return json.dumps(doc)
    return etree.tostring(doc)


def item_size(fmt, doc, it):
    ln, idx, _ = it
    if fmt == "json":
        return len(json.dumps(doc[ln][idx]))
    return len(etree.tostring(doc.find(ln)[idx]))


def small_doc(src, victim, witnesses):
    """document holding only the victim and the witness identifiables (in their proper lists).
    Returns (doc, victim_path, ids)"""
    fmt, doc = src["fmt"], src["doc"]
    chosen = [victim] + [w for w in witnesses if w != victim]
    if fmt == "json":
        d = {}
        vpath = None
        for (ln, idx, _id) in sorted(chosen, key=lambda t: (D.JSON_LISTS.index(t[0]), t[1])):
            d.setdefault(ln, []).append(copy.deepcopy(doc[ln][idx]))
            if (ln, idx, _id) == victim:
                vpath = (ln, len(d[ln]) - 1)
        return d, vpath, [c[2] for c in chosen]
    root = etree.Element(doc.tag, nsmap=doc.nsmap)
    vpath = None
    for (ln, idx, _id) in sorted(chosen, key=lambda t: (D.XML_LISTS.index(t[0]), t[1])):
        lst = root.find(ln)
        if lst is None:
            lst = etree.SubElement(root, ln)
        lst.append(copy.deepcopy(doc.find(ln)[idx]))
        if (ln, idx, _id) == victim:
            vpath = (list(root).index(lst), len(lst) - 1)
    return root, vpath, [c[2] for c in chosen]


def enumerate_cases(rng, sources, budget, per_victim_nodes=None):
    """-> list of case specs (src index, victim item, witnesses, relative node path, op, variant, other id).
    All node x operator pairs are enumerated; when their number exceeds `budget` a seeded sample is drawn."""
    specs = []
    for si, src in enumerate(sources):
        fmt, doc, items = src["fmt"], src["doc"], src["items"]
        sizes = {it: item_size(fmt, doc, it) for it in items}
        smalls = sorted(items, key=lambda it: sizes[it])
        for victim in items:
            others = [it for it in smalls if it != victim]
            wit = others[:6]
            witnesses = rng.sample(wit, min(2, len(wit)))
            d, vpath, ids = small_doc(src, victim, witnesses)
            if fmt == "json":
                nodes = [vpath] + D.json_nodes(D._jget(d, vpath), vpath)
                appl = D.json_applicable
            else:
                nodes = [vpath] + D.xml_nodes(D._xget(d, vpath), vpath)
                appl = D.xml_applicable
            if per_victim_nodes and len(nodes) > per_victim_nodes:
                nodes = [nodes[0]] + rng.sample(nodes[1:], per_victim_nodes - 1)
            for path in nodes:
                for op in appl(d, path):
                    oid = witnesses[0][2] if witnesses else None
                    nv = 7 if (op == "harmless" and fmt == "json") else VARIANTS.get(op, 1)
                    base = rng.randrange(10 ** 6)
                    for v in range(nv):
                        specs.append((si, victim, tuple(witnesses), path, op, base + v, oid))
    total = len(specs)
    if budget and total > budget:
        # stratified by (format, operator): rare operators (duplicated id, wrong list, xs literal, base64, modelType)
        # are run exhaustively up to their share, the rest of the budget is drawn uniformly
        groups = {}
        for sp in specs:
            groups.setdefault((sources[sp[0]]["fmt"], sp[4]), []).append(sp)
        share = max(1, budget // (2 * len(groups)))
        chosen, rest = [], []
        for key in sorted(groups):
            g = groups[key]
            rng.shuffle(g)
            chosen += g[:share]
            rest += g[share:]
        if len(chosen) < budget:
            chosen += rng.sample(rest, min(len(rest), budget - len(chosen)))
        specs = chosen
    return specs, total


def case_context(doc, fmt, path):
    """(constructor, member kind) of the damaged node for classification"""
    if fmt == "json":
        cur, ctor = doc, "?"
        for k in path[:-1]:
            cur = cur[k]
            if isinstance(cur, dict):
                ctor = cur.get("modelType", "-") if isinstance(cur.get("modelType", "-"), str) else "-"
        key = path[-1]
        if isinstance(key, int):
            key = f"{path[-2]}[]" if len(path) > 1 else "[]"
        return ctor, str(key)
    el = D._xget(doc, path)
    par = el.getparent()
    return (D._lname(par) if par is not None else "-"), D._lname(el)


def run_spec(sources, spec):
    """Executes one case.  Returns dict(obs=(failsafe, strict), fail=None|(kind, text), ctx=(ctor, member))"""
    si, victim, witnesses, path, op, variant, oid = spec
    src = sources[si]
    fmt = src["fmt"]
    d, vpath, ids = small_doc(src, victim, list(witnesses))
    ctx = case_context(d, fmt, path)
    dmg = D.json_damage if fmt == "json" else D.xml_damage
    d2 = dmg(d, path, op, variant, oid)
    if d2 is None:
        return None
    try:
        data = serialise(fmt, d2)
    except Exception as e:  # noqa - e.g. a string lxml refuses: not a well-formed document, not a case
        return None
    damaged = {victim[2]}
    if op == "dupid" and len(path) == 3:
        damaged.add(oid)
    if op == "harmless":
        damaged = set()
    obs, fail = D.oracle(fmt, data, src["base"], damaged, ids, harmless=(op == "harmless"))
    return {"obs": obs, "fail": fail, "ctx": ctx, "data": data if fail else None}


_G = {}


def _worker(chunk):
    sources = _G["sources"]
    hook = _G.get("hook")
    out = []
    for spec in chunk:
        try:
            r = run_spec(sources, spec)
        except RecursionError:
            r = {"obs": ("RecursionError", "RecursionError"), "fail": ("harness", "recursion"), "ctx": ("?", "?"),
                 "data": None}
        out.append(r)
    ev = hook.drain() if hook else None
    return out, ev


def run_parallel(sources, specs, jobs=8, hook_factory=None):
    """Runs all specs in forked workers (results in spec order).  hook_factory() installs the exception
    observation (tie C) inside each worker and returns an object with drain()."""
    _G["sources"] = sources
    chunks = [specs[i:i + 40] for i in range(0, len(specs), 40)]
    results, events = [], []
    if jobs <= 1:
        _G["hook"] = hook_factory() if hook_factory else None
        for c in chunks:
            r, ev = _worker(c)
            results.extend(r)
            events.append(ev)
        return results, events
    ctx = multiprocessing.get_context("fork")

    def init():
        _G["hook"] = hook_factory() if hook_factory else None
    with ctx.Pool(jobs, initializer=init) as pool:
        for r, ev in pool.imap(_worker, chunks):
            results.extend(r)
            events.append(ev)
    return results, events
