"""C09 - case generation and parallel execution of the damage campaign (uses c09_damage)."""
import copy
import json
import multiprocessing
import os
import random

from lxml import etree

import aasgen
import c09_damage as D

# objects of other properties' *open* findings are kept out of the valid documents (the undamaged
# document must be readable in strict mode, otherwise there is nothing to damage)
GEN_AVOID = {"unsigned_byte"}


# operators with several distinct damaged values: that many consecutive variants are enumerated per node
VARIANTS = {"harmless": 2, "nsrebind": 2, "base64": 4, "xsliteral": 8, "wronglist": 3, "modeltype": 3, "enum": 3, "wrongtype": 3, "forbidden": 2,
            "overlong": 2}


def directed_stores():
    """hand-built valid stores with unusual but conformant shapes that neither the SDK examples nor the random
    generator are likely to contain.  Every node of them gets the *harmless* operator in every tier."""
    from basyx.aas import model
    from basyx.aas.model import datatypes as dt

    def ref(v):
        return model.ExternalReference((model.Key(model.KeyTypes.GLOBAL_REFERENCE, v),))
    # ---- SubmodelElementLists of every element type, with the optional valueTypeListElement / semanticIdListElement
    #      (AASd-109 only makes demands for Property and Range lists)
    sm = model.Submodel("urn:verif:c09:shapes", id_short="shapes")
    sem = ref("urn:verif:c09:sem")
    mk = {
        "Property": lambda: model.Property(None, dt.String, "v", semantic_id=sem),
        "Range": lambda: model.Range(None, dt.String, "a", "b", semantic_id=sem),
        "MultiLanguageProperty": lambda: model.MultiLanguageProperty(
            None, value=model.MultiLanguageTextType({"en": "a"}), semantic_id=sem),
        "File": lambda: model.File(None, "text/plain", "f.txt", semantic_id=sem),
        "Blob": lambda: model.Blob(None, "application/octet-stream", b"\x00\x01", semantic_id=sem),
        "ReferenceElement": lambda: model.ReferenceElement(None, ref("urn:verif:c09:r"), semantic_id=sem),
        "Capability": lambda: model.Capability(None, semantic_id=sem),
        "SubmodelElementCollection": lambda: model.SubmodelElementCollection(
            None, value=[model.Property("inner", dt.Int, 1)], semantic_id=sem),
        "Entity": lambda: model.Entity(None, model.EntityType.CO_MANAGED_ENTITY, semantic_id=sem),
        "Operation": lambda: model.Operation(None, semantic_id=sem),
        "RelationshipElement": lambda: model.RelationshipElement(None, ref("urn:a"), ref("urn:b"), semantic_id=sem),
        "SubmodelElementList": lambda: model.SubmodelElementList(None, model.Capability, semantic_id=sem),
    }
    for i, (name, f) in enumerate(mk.items()):
        for j, (vt, with_sem, order) in enumerate(((dt.String, True, True), (dt.Int, False, False), (None, False, True))):
            if vt is None and name in ("Property", "Range"):
                continue
            lst = model.SubmodelElementList(
                f"list{i}x{j}", getattr(model, name), value_type_list_element=vt if name not in ("Property", "Range")
                else dt.String, semantic_id_list_element=sem if with_sem else None, order_relevant=order)
            lst.value.add(f())
            if j == 0:
                lst.value.add(f())
            sm.submodel_element.add(lst)
    # ---- white space at the edges of (and as the whole of) string values
    ws = model.Submodel("urn:verif:c09:white space ", id_short="whitespace",
                        description=model.MultiLanguageTextType({"en": " lead", "de": "trail \n"}))
    for i, v in enumerate([" lead", "trail ", "\ttab\t", " ", "\n", "a  b", " \t\n "]):
        ws.submodel_element.add(model.Property(f"p{i}", dt.String, v, semantic_id=ref(" key " + str(i)),
                                               qualifier=[model.Qualifier("q", dt.String, v)],
                                               extension=[model.Extension("e", dt.String, v)]))
        ws.submodel_element.add(model.MultiLanguageProperty(
            f"m{i}", value=model.MultiLanguageTextType({"en": v, "de": v + "x"})))
    ws.submodel_element.add(model.Range("r", dt.String, " lo", "hi "))
    cd = model.ConceptDescription("urn:verif:c09:cd", id_short="cd")
    cd.embedded_data_specifications.append(model.EmbeddedDataSpecification(
        ref("urn:verif:c09:ds"),
        model.DataSpecificationIEC61360(model.PreferredNameTypeIEC61360({"en": " name "}),
                                        short_name=model.ShortNameTypeIEC61360({"en": "\ttab\t"}),
                                        unit=" u ", symbol=" ", value_format=" f", value=" v ",
                                        definition=model.DefinitionTypeIEC61360({"en": " d "}))))
    aas = model.AssetAdministrationShell(
        model.AssetInformation(model.AssetKind.INSTANCE, global_asset_id=" asset ",
                               specific_asset_id=[model.SpecificAssetId(" n ", " v ")]), "urn:verif:c09:aas")
    return [("directed.shapes", model.DictObjectStore([sm])), ("directed.whitespace", model.DictObjectStore([ws, cd, aas]))]


CORPUS = os.path.join(os.path.dirname(os.path.dirname(os.path.abspath(__file__))), "corpus", "C09")


def write_corpus():
    """(re)writes corpus/C09/directed.*.{json,xml} from directed_stores(); run by hand on a clean tree"""
    os.makedirs(CORPUS, exist_ok=True)
    for name, st in directed_stores():
        with open(os.path.join(CORPUS, name + ".json"), "w") as f:
            json.dump(D.write_json(st), f, indent=1)
        with open(os.path.join(CORPUS, name + ".xml"), "wb") as f:
            f.write(etree.tostring(D.write_xml(st)))


def load_corpus():
    """-> [(name, fmt, doc)] of the valid documents stored as text (parsed with plain json / lxml)"""
    out = []
    if not os.path.isdir(CORPUS):
        return out
    for fn in sorted(os.listdir(CORPUS)):
        path = os.path.join(CORPUS, fn)
        if fn.startswith("directed.") and fn.endswith(".json"):
            out.append(("corpus." + fn[:-5], "json", json.load(open(path))))
        elif fn.startswith("directed.") and fn.endswith(".xml"):
            out.append(("corpus." + fn[:-4], "xml", etree.fromstring(open(path, "rb").read())))
    return out


def build_sources(rng, n_gen, size_lo=2, size_hi=4):
    """-> (sources, notes, prefails)
    sources: list of dicts {name, fmt, doc, items:[(list, idx, id)], base:{id: canon}, directed: bool};
    prefails: oracle failures on *undamaged* documents [(fmt, kind, text, data)] - a base document must be read by both
    readers in both modes before anything is damaged; that is checked here and reported, never assumed."""
    from basyx.aas.examples.data import create_example
    from basyx.aas.examples.data import example_aas_mandatory_attributes, example_submodel_template
    from basyx.aas import model
    stores = [("examples.create_example", create_example())]
    st = model.DictObjectStore()
    st.add(example_submodel_template.create_example_submodel_template())
    for o in example_aas_mandatory_attributes.create_full_example():
        st.add(o)
    stores.append(("examples.template+mandatory", st))
    # the directed documents are kept as text in corpus/C09 (written once by write_corpus() from directed_stores() on a
    # clean tree), so that they reach the readers even when the model classes refuse to build them
    directed_err = None
    corpus_docs = load_corpus()
    if not corpus_docs:
        try:
            stores += directed_stores()
        except Exception as e:  # noqa
            directed_err = f"directed stores could not be built and corpus/C09 is empty: {type(e).__name__}: {e}"
    for i in range(n_gen):
        stores.append((f"aasgen#{i}", aasgen.gen_store(rng, rng.randint(size_lo, size_hi), avoid=GEN_AVOID,
                                                        strings=rng.choice(["plain", "json", "xml"]))))
    sources, notes, prefails = [], [], []
    if directed_err:
        notes.append(directed_err)
    docs = []
    for name, st in stores:
        for fmt in ("json", "xml"):
            try:
                docs.append((name, fmt, D.write_json(st) if fmt == "json" else D.write_xml(st)))
            except Exception as e:  # noqa - a writer failure belongs to C03/C04/C05
                notes.append(f"{name}/{fmt}: writer raised {type(e).__name__}; skipped")
    docs[4:4] = corpus_docs
    for name, fmt, doc in docs:
        if True:
            items = D.json_items(doc) if fmt == "json" else D.xml_items(doc)
            data = serialise(fmt, doc)
            k1, r1 = D.run_reader(fmt, data, True)
            k2, r2 = D.run_reader(fmt, data, False)
            if k1 != "ok":
                prefails.append((fmt, "failsafe-raises:" + type(r1).__name__,
                                 f"failsafe read of an UNDAMAGED valid document ({name}) raised "
                                 f"{type(r1).__name__}: {str(r1)[:300]}", data))
                continue
            if k2 != "ok":
                if not D.documented(r2):
                    prefails.append((fmt, "strict-raises:" + type(r2).__name__,
                                     f"strict read of an UNDAMAGED valid document ({name}) raised undocumented "
                                     f"{type(r2).__name__}: {str(r2)[:300]}", data))
                else:   # writer and strict reader disagree about a valid object: C03/C04's clause
                    notes.append(f"{name}/{fmt}: undamaged document rejected in strict mode ({type(r2).__name__}: "
                                 f"{str(r2)[:120]}); skipped")
                continue
            base = D.canon_of(r2)
            if D.canon_of(r1) != base:
                prefails.append((fmt, "strict-differs", f"failsafe and strict read of an UNDAMAGED valid document ({name}) "
                                                        f"return different objects", data))
                continue
            if sorted(base) != sorted(i for (_, _, i) in items):
                notes.append(f"{name}/{fmt}: undamaged read does not return all identifiables; skipped")
                continue
            sources.append({"name": name, "fmt": fmt, "doc": doc, "items": items, "base": base,
                            "directed": name.startswith("directed.") or name.startswith("corpus.")})
    return sources, notes, prefails


def serialise(fmt, doc):
    if isinstance(doc, D.RawText):
        return doc.data
    if fmt == "json":
        return json.dumps(doc)
    return etree.tostring(doc)


def item_size(fmt, doc, it):
    ln, idx, _ = it
    if fmt == "json":
        return len(json.dumps(doc[ln][idx]))
    return len(etree.tostring(doc.find(ln)[idx]))


def small_doc(src, victim, witnesses):
    """document holding only the victim and the witness identifiables (in their proper lists).
    Returns (doc, victim_path, ids)"""
    fmt, doc = src["fmt"], src["doc"]
    chosen = [victim] + [w for w in witnesses if w != victim]
    if fmt == "json":
        d = {}
        vpath = None
        for (ln, idx, _id) in sorted(chosen, key=lambda t: (D.JSON_LISTS.index(t[0]), t[1])):
            d.setdefault(ln, []).append(copy.deepcopy(doc[ln][idx]))
            if (ln, idx, _id) == victim:
                vpath = (ln, len(d[ln]) - 1)
        return d, vpath, [c[2] for c in chosen]
    root = etree.Element(doc.tag, nsmap=doc.nsmap)
    vpath = None
    for (ln, idx, _id) in sorted(chosen, key=lambda t: (D.XML_LISTS.index(t[0]), t[1])):
        lst = root.find(ln)
        if lst is None:
            lst = etree.SubElement(root, ln)
        lst.append(copy.deepcopy(doc.find(ln)[idx]))
        if (ln, idx, _id) == victim:
            vpath = (list(root).index(lst), len(lst) - 1)
    return root, vpath, [c[2] for c in chosen]


def enumerate_cases(rng, sources, budget, per_victim_nodes=None):
    """-> list of case specs (src index, victim item, witnesses, relative node path, op, variant, other id).
    All node x operator pairs are enumerated; when their number exceeds `budget` a seeded sample is drawn."""
    specs, forced = [], []
    for si, src in enumerate(sources):
        fmt, doc, items = src["fmt"], src["doc"], src["items"]
        sizes = {it: item_size(fmt, doc, it) for it in items}
        smalls = sorted(items, key=lambda it: sizes[it])
        for victim in items:
            others = [it for it in smalls if it != victim]
            wit = others[:6]
            witnesses = rng.sample(wit, min(2, len(wit)))
            d, vpath, ids = small_doc(src, victim, witnesses)
            if fmt == "json":
                nodes = [vpath] + D.json_nodes(D._jget(d, vpath), vpath)
                appl = D.json_applicable
            else:
                nodes = [vpath] + D.xml_nodes(D._xget(d, vpath), vpath)
                appl = D.xml_applicable
            if per_victim_nodes and len(nodes) > per_victim_nodes:
                nodes = [nodes[0]] + rng.sample(nodes[1:], per_victim_nodes - 1)
            for path in nodes:
                for op in appl(d, path):
                    oid = witnesses[0][2] if witnesses else None
                    nv = 7 if (op == "harmless" and fmt == "json") else VARIANTS.get(op, 1)
                    base = rng.randrange(10 ** 6)
                    for v in range(nv):
                        specs.append((si, victim, tuple(witnesses), path, op, base + v, oid))
                    if op == "harmless" and fmt == "xml" and src.get("directed"):
                        # directed: a comment / PI inside a text value with white space at its edges, in every tier
                        el = D._xget(d, path)
                        if len(el) == 0 and el.text and el.text != el.text.strip():
                            b13 = base - base % 13
                            for k in (4, 5, 6):
                                for c in range(3):
                                    forced.append((si, victim, tuple(witnesses), path, op, b13 + k + 13 * c, oid))
    total = len(specs)
    forced = list(dict.fromkeys(forced))
    if budget and total > budget:
        # stratified by (format, operator): rare operators (duplicated id, wrong list, xs literal, base64, modelType)
        # are run exhaustively up to their share, the rest of the budget is drawn uniformly
        groups = {}
        for sp in specs:
            groups.setdefault((sources[sp[0]]["fmt"], sp[4]), []).append(sp)
        share = max(1, budget // (2 * len(groups)))
        chosen, rest = [], []
        for key in sorted(groups):
            g = groups[key]
            rng.shuffle(g)
            chosen += g[:share]
            rest += g[share:]
        if len(chosen) < budget:
            chosen += rng.sample(rest, min(len(rest), budget - len(chosen)))
        specs = chosen
    have = set(specs)
    specs = specs + [sp for sp in forced if sp not in have]
    return specs, total


def case_context(doc, fmt, path):
    """(constructor, member kind) of the damaged node for classification"""
    if fmt == "json":
        cur, ctor = doc, "?"
        for k in path[:-1]:
            cur = cur[k]
            if isinstance(cur, dict):
                ctor = cur.get("modelType", "-") if isinstance(cur.get("modelType", "-"), str) else "-"
        key = path[-1]
        if isinstance(key, int):
            key = f"{path[-2]}[]" if len(path) > 1 else "[]"
        return ctor, str(key)
    el = D._xget(doc, path)
    par = el.getparent()
    return (D._lname(par) if par is not None else "-"), D._lname(el)


def run_spec(sources, spec):
    """Executes one case.  Returns dict(obs=(failsafe, strict), fail=None|(kind, text), ctx=(ctor, member))"""
    si, victim, witnesses, path, op, variant, oid = spec
    src = sources[si]
    fmt = src["fmt"]
    d, vpath, ids = small_doc(src, victim, list(witnesses))
    ctx = case_context(d, fmt, path)
    dmg = D.json_damage if fmt == "json" else D.xml_damage
    d2 = dmg(d, path, op, variant, oid)
    if d2 is None:
        return None
    try:
        data = serialise(fmt, d2)
    except Exception as e:  # noqa - e.g. a string lxml refuses: not a well-formed document, not a case
        return None
    damaged = {victim[2]}
    if op == "dupid" and len(path) == 3:
        damaged.add(oid)
    if op == "harmless":
        damaged = set()
    if D.damages_all(op, variant):
        damaged = set(ids)
    obs, fail = D.oracle(fmt, data, src["base"], damaged, ids, harmless=(op == "harmless"))
    return {"obs": obs, "fail": fail, "ctx": ctx, "data": data if fail else None}


_G = {}


def _worker(chunk):
    sources = _G["sources"]
    hook = _G.get("hook")
    out = []
    for spec in chunk:
        try:
            r = run_spec(sources, spec)
        except RecursionError:
            r = {"obs": ("RecursionError", "RecursionError"), "fail": ("harness", "recursion"), "ctx": ("?", "?"),
                 "data": None}
        out.append(r)
    ev = hook.drain() if hook else None
    return out, ev


def run_parallel(sources, specs, jobs=8, hook_factory=None):
    """Runs all specs in forked workers (results in spec order).  hook_factory() installs the exception
    observation (tie C) inside each worker and returns an object with drain()."""
    _G["sources"] = sources
    chunks = [specs[i:i + 40] for i in range(0, len(specs), 40)]
    results, events = [], []
    if jobs <= 1:
        _G["hook"] = hook_factory() if hook_factory else None
        for c in chunks:
            r, ev = _worker(c)
            results.extend(r)
            events.append(ev)
        return results, events
    ctx = multiprocessing.get_context("fork")

    def init():
        _G["hook"] = hook_factory() if hook_factory else None
    with ctx.Pool(jobs, initializer=init) as pool:
        for r, ev in pool.imap(_worker, chunks):
            results.extend(r)
            events.append(ev)
    return results, events
