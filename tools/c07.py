"""C07 - references built from elements resolve to exactly those elements.
Theorems: coq/theories/props/C07.v over model/Refs.v + gen/Gen_RefKeys.v (regenerated from /repo on every run).
Tie T: py2coq/refkeys.py (+ validation of the generated tables against the live classes).
Tie C: random providers (trees over every container kind), every referable, perturbed key chains;
       SDK observation vs model/RefsObs.v evaluated by vm_compute.
Oracle: from_referable(x).resolve(provider) is x, root.get_referable(path) is x, outcome class of every
        perturbed chain computed by an independent walk over the abstract tree; eq => hash and immutability
        of Key / Reference / SpecificAssetId."""
import json
import os

import common
import reftrees as rt
from common import coq_str, coq_list, coq_z, enc_str

THEOREMS = ["C07_resolve_from", "C07_path", "C07_constraints", "C07_sound", "C07_unique", "C07_resolve_sound",
            "C07_err_dangling", "C07_err_childless", "C07_err_nonnumeric", "C07_err_unknown_id", "C07_err_resolve",
            "C07_errors_only", "C07_int_of_str", "C07_value_objects", "C07_after_mutation", "C07_example_mutation",
            "C07_example_wf", "C07_example"]

PRELUDE = ("From Coq Require Import List ZArith String.\n"
           "From Basyx Require Import gen.Gen_RefKeys model.Refs model.RefsObs.\nOpen Scope string_scope.")

EXN = {"KeyError": 1, "TypeError": 2, "ValueError": 3, "IndexError": 4, "AssertionError": 5,
       "UnexpectedTypeError": 6}
NAMESPACES = {"Submodel", "AssetAdministrationShell", "SubmodelElementCollection", "SubmodelElementList",
              "Entity", "Operation", "AnnotatedRelationshipElement"}      # oracle's own list (from the metamodel)


def exn_code(e):
    from basyx.aas import model
    if isinstance(e, model.AASConstraintViolation):
        return 100 + e.constraint_id
    return EXN.get(type(e).__name__, 99)


# ------------------------------------------------------------------ translator validation

def live_tables(facts):
    """The same two tables as RefsObs.class_table / keytype_table, computed from the live classes."""
    import inspect
    from basyx.aas import model
    rtypes = [getattr(model, n) for n in facts["rtypes"]]
    inst = {"Submodel": lambda c: c("urn:x"),
            "AssetAdministrationShell": lambda c: c(model.AssetInformation(global_asset_id="urn:y"), "urn:x"),
            "ConceptDescription": lambda c: c("urn:x")}
    rows = []
    problems = []
    live_concrete = sorted(n for n, c in vars(model).items() if inspect.isclass(c) and issubclass(c, model.Referable)
                           and not inspect.isabstract(c))
    if live_concrete != sorted(facts["concrete"]):
        problems.append(f"concrete Referable classes: live {live_concrete} vs translated {sorted(facts['concrete'])}")
    for i, name in enumerate(facts["concrete"]):
        c = getattr(model, name)
        try:
            if name in inst:
                obj = inst[name](c)
            else:
                obj = rt.build(dict(rt.node(name, "x", [], sets=[0, 0, 0]), elem="Property"))
                model.Submodel("urn:h", [obj])        # from_referable needs an identifiable root
            kt = model.Key.from_referable(obj).type
            ref = model.ModelReference.from_referable(obj)
        except Exception as e:
            problems.append(f"cannot instantiate / reference {name}: {e!r}")
            continue
        nsets = sum(1 for s in getattr(obj, "namespace_element_sets", []) if "id_short" in s.get_attribute_name_list())
        rows.append([i, kt.value, rtypes.index(ref.type), int(isinstance(obj, model.Identifiable)),
                     int(isinstance(obj, model.UniqueIdShortNamespace)), int(isinstance(obj, model.SubmodelElementList)),
                     nsets] + [int(isinstance(obj, t)) for t in rtypes])
    preds = ["is_aas_identifiable", "is_generic_globally_identifiable", "is_generic_fragment_key",
             "is_aas_submodel_element", "is_aas_referable_non_identifiable", "is_fragment_key_element",
             "is_globally_identifiable"]
    live_preds = sorted(n for n, v in vars(model.KeyTypes).items() if isinstance(v, property))
    if live_preds != sorted(preds):
        problems.append(f"KeyTypes predicates: live {live_preds} vs expected {sorted(preds)}")
    krows = [[k.value] + [int(getattr(k, p)) for p in preds] for k in model.KeyTypes]
    return rows, krows, problems


# ------------------------------------------------------------------ SDK side

CTOR_MODES = ["list", "default-append", "default-extend", "none-append", "empty-list-append"]


def new_mux(mode, stores, fill=True):
    """an ObjectProviderMultiplexer over the stores, constructed in one of the documented ways: with the list, or
    without an argument / with None / with an empty list and filled afterwards through its public `providers` list"""
    from basyx.aas import model
    if mode == "list":
        return model.ObjectProviderMultiplexer(list(stores) if fill else [])
    if mode == "none-append":
        m = model.ObjectProviderMultiplexer(None)
    elif mode == "empty-list-append":
        m = model.ObjectProviderMultiplexer([])
    else:
        m = model.ObjectProviderMultiplexer()
    if fill:
        fill_mux(mode, m, stores)
    return m


def fill_mux(mode, m, stores):
    if mode == "default-extend" or mode == "list":
        m.providers.extend(stores)
    else:
        for s in stores:
            m.providers.append(s)


def check_providers(P):
    """oracle for the provider clause alone: each provider of the case (ours, and the bystander's multiplexer) lists
    exactly the stores it was given and answers get_identifiable for every id in play with the object ITS first store
    holding that id holds, and with KeyError for every other id - whatever else lives in the process"""
    fails = []
    sides = [("provider", P.provider, P.aprov, P.stores, P.mux)]
    if P.provider is not P.mux:
        sides.append(("multiplexer", P.mux, P.aprov, P.stores, P.mux))
    if P.bystander_mux is not None:
        sides.append(("bystander", P.bystander_mux, P.bystander, P.bystander_stores, P.bystander_mux))
    ids = sorted({t["id"] for s in P.aprov for t in s} | {t["id"] for s in P.bystander for t in s} | {"urn:zz"})
    for name, prov, ap, stores, mux in sides:
        if [id(x) for x in mux.providers] != [id(x) for x in stores]:
            fails.append((f"C07:provider:{name}:providers-differ",
                          f"the multiplexer of the {name} lists {len(mux.providers)} providers; it was given {len(stores)}"))
        for i in ids:
            fh = first_hit(ap, i)
            try:
                got = prov.get_identifiable(i)
            except Exception as e:
                got = e
            if fh is None:
                if not (isinstance(got, KeyError) and type(got) is KeyError):
                    fails.append((f"C07:provider:{name}:get_identifiable:expected-KeyError",
                                  f"get_identifiable({i!r}) gave {got!r}; none of the stores given to it holds that id"))
            elif got is not ap[fh[0]][fh[1]]["_o"]:
                fails.append((f"C07:provider:{name}:get_identifiable:not-the-held-object",
                              f"get_identifiable({i!r}) gave {got!r} instead of the object held by its store {fh[0]}"))
    return fails


class Prov:
    """The live SDK objects of an abstract provider.  self.aprov is a private deep copy of the abstract provider whose
    nodes carry their SDK object as node["_o"]; mutations are applied to both sides (apply_mutation), so the abstract
    side always describes the provider as it is at the time of a call."""
    def __init__(self, aprov, world=None):
        import copy
        from basyx.aas import model
        self.aprov = copy.deepcopy(rt.clean(aprov))
        self.stores = []
        for s in self.aprov:
            roots = [rt.build(t, attach=True) for t in s]
            self.stores.append(model.DictObjectStore(roots))
        # the "world" of a case: HOW the multiplexer is constructed and filled (CTOR_MODES), whether a lone store is
        # queried through it, and a bystander: a second, independent provider (own stores, own multiplexer, constructed
        # the same way before / after / interleaved with ours) that lives in the same process.  What our provider
        # answers must depend on what it was given only (oracle: check_providers, and every query of the rounds).
        w = world or {}
        mode = w.get("ctor", "list")
        self.bystander = copy.deepcopy(rt.clean(w.get("bystander") or []))
        self.bystander_stores = [model.DictObjectStore([rt.build(t, attach=True) for t in s]) for s in self.bystander]
        order = w.get("order", "before")
        if order == "interleaved":
            self.mux, self.bystander_mux = new_mux(mode, self.stores, fill=False), new_mux(mode, self.bystander_stores, fill=False)
            fill_mux(mode, self.bystander_mux, self.bystander_stores)
            fill_mux(mode, self.mux, self.stores)
        elif order == "after":
            self.mux = new_mux(mode, self.stores)
            self.bystander_mux = new_mux(mode, self.bystander_stores)
        else:
            self.bystander_mux = new_mux(mode, self.bystander_stores) if world else None
            self.mux = new_mux(mode, self.stores)
        # a lone store is queried directly (not through the multiplexer) unless the world says otherwise
        self.provider = self.stores[0] if len(self.stores) == 1 and not w.get("via_mux") else self.mux
        self.reindex()

    def reindex(self):
        self.reg = {}
        for si, s in enumerate(self.aprov):
            for ri, t in enumerate(s):
                for p, n, _ in rt.walk(t):
                    self.reg[id(n["_o"])] = ([si, ri] + list(p), n["_o"])

    def node(self, si, ri, p):
        t = self.aprov[si][ri]
        for i in p:
            t = t["ch"][i]
        return t

    def obj(self, si, ri, p):
        return self.node(si, ri, p)["_o"]

    def pos(self, o):
        ent = self.reg.get(id(o))
        if ent is None or ent[1] is not o:
            return None
        return list(ent[0])

    def verify(self):
        """the live containers hold exactly the children of the abstract side, in that order (public iteration only)"""
        from basyx.aas import model
        bad = []
        if [id(x) for x in self.mux.providers] != [id(x) for x in self.stores]:
            bad.append("multiplexer.providers differs from the applied arrangement")
        for si, s in enumerate(self.aprov):
            if [id(x) for x in self.stores[si]] != [id(t["_o"]) for t in s]:
                bad.append(f"store {si} does not hold exactly the objects added/discarded")
            for t in s:
                for p, n, _ in rt.walk(t):
                    o = n["_o"]
                    if isinstance(o, model.SubmodelElementList):
                        live = list(o.value)
                    elif isinstance(o, model.UniqueIdShortNamespace):
                        live = [x for st in o.namespace_element_sets if "id_short" in st.get_attribute_name_list() for x in st]
                    else:
                        live = []
                    if [id(x) for x in live] != [id(c["_o"]) for c in n["ch"]]:
                        bad.append(f"children of {o!r} differ from the applied mutations")
                    for c in n["ch"]:
                        if c["_o"].parent is not o:
                            bad.append(f"parent of {c['_o']!r} is not its container")
        return bad


# ------------------------------------------------------------------ mutations (history)

def apply_mutation(aprov, m, P=None):
    """Apply mutation descriptor m to the abstract provider (in place); with P also to the live objects through the
    public API (P.aprov must be aprov).  New subtrees are deep-copied from the descriptor."""
    import copy
    live = P is not None
    kind = m[0]

    def fresh(sub):
        sub = copy.deepcopy(sub)
        if live:
            rt.build(sub, attach=True)
        return sub
    if kind.startswith("list_") or kind.startswith("ns_"):
        _, si, ri, path = m[:4]
        n = aprov[si][ri]
        for i in path:
            n = n["ch"][i]
        o = n.get("_o")
        if kind == "list_insert":
            sub = fresh(m[5])
            if live:
                o.value.insert(m[4], sub["_o"])
            n["ch"].insert(m[4], sub)
        elif kind == "list_append":
            sub = fresh(m[4])
            if live:
                o.value.append(sub["_o"])
            n["ch"].append(sub)
        elif kind == "list_extend":
            subs = [fresh(x) for x in m[4]]
            if live:
                o.value.extend([x["_o"] for x in subs])
            n["ch"].extend(subs)
        elif kind == "list_pop":
            if live:
                o.value.pop(m[4])
            n["ch"].pop(m[4])
        elif kind == "list_del":
            if live:
                del o.value[m[4]:m[5]]
            del n["ch"][m[4]:m[5]]
        elif kind == "list_setitem":
            sub = fresh(m[5])
            if live:
                o.value[m[4]] = sub["_o"]
            n["ch"][m[4]] = sub
        elif kind == "list_setslice":
            subs = [fresh(x) for x in m[6]]
            if live:
                o.value[m[4]:m[5]] = [x["_o"] for x in subs]
            # OrderedNamespaceSet.__setitem__(slice) takes at most as many new items as the slice holds (a slice
            # assignment never grows the list; C01's clause): the abstract side follows that
            n["ch"][m[4]:m[5]] = subs[:len(n["ch"][m[4]:m[5]])]
        elif kind == "list_reorder":
            new = [n["ch"][i] for i in m[4]]
            if live:
                o.value = [x["_o"] for x in new]
            n["ch"][:] = new
        elif kind == "list_remove":
            if live:
                o.value.remove(n["ch"][m[4]]["_o"])
            n["ch"].pop(m[4])
        elif kind == "ns_add":
            sub = fresh(m[4])
            if live:
                o.add_referable(sub["_o"])
            n["ch"].append(sub)
        elif kind == "ns_remove":
            if live:
                o.remove_referable(n["ch"][m[4]]["k"])
            n["ch"].pop(m[4])
        else:
            raise ValueError(f"unknown mutation {kind}")
    elif kind == "prov_remove":
        aprov.pop(m[1])
        if live:
            P.stores.pop(m[1])
            del P.mux.providers[m[1]]
    elif kind == "prov_reverse":
        aprov.reverse()
        if live:
            P.stores.reverse()
            P.mux.providers.reverse()
    elif kind == "prov_move":
        aprov.insert(m[2], aprov.pop(m[1]))
        if live:
            P.stores.insert(m[2], P.stores.pop(m[1]))
            P.mux.providers.insert(m[2], P.mux.providers.pop(m[1]))
    elif kind == "store_discard":
        t = aprov[m[1]].pop(m[2])
        if live:
            P.stores[m[1]].discard(t["_o"])
    elif kind == "store_add":
        sub = fresh(m[2])
        if live:
            P.stores[m[1]].add(sub["_o"])
        aprov[m[1]].append(sub)
    elif kind == "store_move":
        t = aprov[m[1]].pop(m[2])
        if live:
            P.stores[m[1]].discard(t["_o"])
            P.stores[m[3]].add(t["_o"])
        aprov[m[3]].append(t)
    else:
        raise ValueError(f"unknown mutation {kind}")


def gen_mutations(rng, aprov, depth, count):
    """1-3 applicable mutations for the abstract provider (applied to it, in place); returns the descriptors."""
    muts = []
    for _ in range(rng.randint(1, 3)):
        cands = []
        for si, s in enumerate(aprov):
            for ri, root in enumerate(s):
                for p, n, _ in rt.walk(root):
                    if n["c"] == "SubmodelElementList":
                        cands.append(("list", si, ri, p, n))
                        cands.append(("list", si, ri, p, n))
                    elif n["c"] in ("Submodel", "SubmodelElementCollection", "Entity"):
                        cands.append(("ns", si, ri, p, n))
        for si, s in enumerate(aprov):
            cands.append(("store", si, None, None, s))
        if len(aprov) >= 2:
            cands += [("prov", None, None, None, None)] * 3
        lists = [x for x in cands if x[0] == "list"]
        c = rng.choice(lists) if lists and rng.random() < .45 else rng.choice(cands)
        m = None
        if c[0] == "list":
            _, si, ri, p, n = c
            ln = len(n["ch"])
            new = lambda: rt.gen_elem(rng, max(0, depth - len(p) - 2), None, force=n["elem"])
            ops = ["insert", "insert", "append", "extend"] + (["pop", "del", "setitem", "setslice", "setslice", "reorder", "remove"] if ln else [])
            op = rng.choice(ops)
            if op == "insert":
                m = ["list_insert", si, ri, p, rng.randint(0, ln), new()]
            elif op == "append":
                m = ["list_append", si, ri, p, new()]
            elif op == "extend":
                m = ["list_extend", si, ri, p, [new() for _ in range(rng.randint(1, 2))]]
            elif op == "pop":
                m = ["list_pop", si, ri, p, rng.randrange(ln)]
            elif op == "remove":
                m = ["list_remove", si, ri, p, rng.randrange(ln)]
            elif op == "del":
                a = rng.randrange(ln)
                m = ["list_del", si, ri, p, a, rng.randint(a + 1, ln)]
            elif op == "setitem":
                m = ["list_setitem", si, ri, p, rng.randrange(ln), new()]
            elif op == "setslice":
                # same length, shrinking, growing, empty slice (pure insertion) and negative bounds
                a = rng.randint(0, ln)
                b = rng.randint(a, ln)
                k = rng.choice([b - a, b - a, max(0, b - a - 1), b - a + 1, 0, rng.randint(0, 3)])
                if rng.random() < .3:
                    a, b = a - ln, (b - ln if b < ln else None)
                m = ["list_setslice", si, ri, p, a, b, [new() for _ in range(k)]]
            else:
                perm = list(range(ln))
                rng.shuffle(perm)
                m = ["list_reorder", si, ri, p, perm]
        elif c[0] == "ns":
            _, si, ri, p, n = c
            free = [k for k in rt.ID_SHORTS if k not in [x["k"] for x in n["ch"]]]
            if n["ch"] and (not free or rng.random() < .5):
                m = ["ns_remove", si, ri, p, rng.randrange(len(n["ch"]))]
            elif free:
                m = ["ns_add", si, ri, p, rt.gen_elem(rng, max(0, depth - len(p) - 2), rng.choice(free))]
        elif c[0] == "store":
            _, si, _, _, s = c
            ids = [t["id"] for t in s]
            free = [i for i in rt.IDS if i not in ids]
            op = rng.choice(["discard", "add", "move"])
            if op == "discard" and s:
                m = ["store_discard", si, rng.randrange(len(s))]
            elif op == "move" and s and len(aprov) >= 2:
                ri = rng.randrange(len(s))
                targets = [sj for sj, s2 in enumerate(aprov) if sj != si and s[ri]["id"] not in [t["id"] for t in s2]]
                if targets:
                    m = ["store_move", si, ri, rng.choice(targets)]
            if m is None and free:
                m = ["store_add", si, rt.gen_root(rng, max(1, depth - 1), rng.choice(free))]
        else:
            op = rng.choice(["remove", "reverse", "move"])
            if op == "remove" and len(aprov) >= 2:
                m = ["prov_remove", rng.randrange(len(aprov))]
            elif op == "move":
                m = ["prov_move", rng.randrange(len(aprov)), rng.randrange(len(aprov))]
            else:
                m = ["prov_reverse"]
        if m is None:
            continue
        apply_mutation(aprov, m)
        muts.append(m)
        count("mutation=" + m[0])
    return muts


def enc_res_sdk(P, fn):
    try:
        o = fn()
    except Exception as e:
        return [1, exn_code(e)], e
    pos = P.pos(o)
    if pos is None:
        return [98], o
    return [0] + pos, o


def first_hit(aprov, id_):
    for si, s in enumerate(aprov):
        for ri, t in enumerate(s):
            if t["id"] == id_:
                return si, ri
    return None


def oracle_walk(t, ids):
    """independent reading of the property: ('ok', path) or the documented error class"""
    p = []
    for s in ids:
        if t["c"] not in NAMESPACES:
            return ("TypeError", None)
        if t["c"] == "SubmodelElementList":
            try:
                z = int(s)
            except ValueError:
                return ("ValueError", None)
            if not 0 <= z < len(t["ch"]):
                return ("KeyError", None)
            p.append(z)
            t = t["ch"][z]
        else:
            hit = [i for i, c in enumerate(t["ch"]) if c["k"] == s]
            if len(hit) != 1:
                return ("KeyError", None)
            p.append(hit[0])
            t = t["ch"][hit[0]]
    return ("ok", p)


def run_history(aprov0, rounds, facts, world=None):
    """rounds: [{"mut": [mutation descriptors], "queries": [...]}]; the mutations of a round are applied to the
    live objects (and to the abstract side) before its queries.  Returns ([(abstract provider at that time,
    observations)], [(signature, message, round index)])."""
    P = Prov(aprov0, world)
    out, fails = [], []
    for k, r in enumerate(rounds):
        for m in r["mut"]:
            try:
                apply_mutation(P.aprov, m, P)
            except Exception as e:
                fails.append((f"C07:mutation:{m[0]}:raises", f"{m[0]} raised {type(e).__name__}: {e}", k))
                return out, fails
        if r["mut"]:
            P.reindex()
            for msg in P.verify():
                fails.append(("C07:mutation:container-differs", msg, k))
        obs, f = run_round(P, r["queries"], facts)
        if world:
            f = check_providers(P) + f
        out.append((rt.clean(P.aprov), obs))
        tag = "" if k == 0 else "after-mutation:"
        fails += [(sig.replace("C07:", "C07:" + tag, 1), msg, k) for sig, msg in f]
    return out, fails


def run_queries(aprov, queries, facts, chk=None):
    """One round without history.  Returns (observations, list of oracle failures (signature, message))."""
    return run_round(Prov(aprov), queries, facts)


def run_round(P, queries, facts):
    from basyx.aas import model
    aprov = P.aprov
    rtypes = facts["rtypes"]
    kt_by_code = {k.value: k for k in model.KeyTypes}
    obs, fails = [], []
    for q in queries:
        kind = q[0]
        if kind == "from":
            _, si, ri, p, _tag = q
            x = P.obj(si, ri, p)
            root = aprov[si][ri]
            try:
                ref = model.ModelReference.from_referable(x)
            except Exception as e:
                obs.append([1, exn_code(e)])
                fails.append(("C07:from_referable:raises", f"from_referable raised {type(e).__name__}: {e} for position {p} "
                              f"of a well-formed tree"))
                continue
            row = [0, rtypes.index(ref.type.__name__) if ref.type.__name__ in rtypes else 97]
            for k in ref.key:
                row += [k.type.value] + rt.enc_utf8(k.value) + [-1]
            r, got = enc_res_sdk(P, lambda: ref.resolve(P.provider))
            obs.append(row + [-2] + r)
            # ---- oracle
            if len(ref.key) != len(p) + 1 or ref.key[0].value != root["id"]:
                fails.append(("C07:from_referable:chain-shape", f"key chain {ref.key!r} does not run from the root id "
                              f"through {len(p)} levels"))
            import re as _re
            want_types = [_re.sub(r"(?<!^)(?=[A-Z])", "_", m["c"]).upper() for m, _ in chain_of(root, p)]
            if [k.type.name for k in ref.key] != want_types or ref.type.__name__ != aprov[si][ri]["c"] and not p \
                    or (p and ref.type.__name__ != chain_of(root, p)[-1][0]["c"]):
                fails.append(("C07:from_referable:key-types", f"key types {[k.type.name for k in ref.key]} / type "
                              f"{ref.type.__name__} do not name the classes {want_types} of the elements on the chain"))
            if first_hit(aprov, root["id"]) == (si, ri):
                if got is not x:
                    fails.append(("C07:from_referable-resolve:not-identical",
                                  f"from_referable(x).resolve(provider) returned {got!r} for x={x!r}"))
            try:
                y = P.obj(si, ri, []).get_referable([k.value for k in ref.key[1:]]) if len(ref.key) > 1 else P.obj(si, ri, [])
                if y is not x:
                    fails.append(("C07:get_referable:not-identical", f"root.get_referable(path) returned {y!r} for {x!r}"))
            except Exception as e:
                if p:
                    fails.append(("C07:get_referable:path-of-existing-element-raises",
                                  f"get_referable({[k.value for k in ref.key[1:]]}) raised {type(e).__name__}"))
        elif kind == "resolve":
            _, zks, ty, tag = q
            try:
                keys = tuple(model.Key(kt_by_code[c], v) for c, v in zks)
            except Exception as e:
                obs.append([97])          # never generated: Key() rejects the value
                continue
            try:
                ref = model.ModelReference(keys, getattr(model, rtypes[ty]))
            except model.AASConstraintViolation as e:
                obs.append([2, exn_code(e)])
                continue
            except Exception as e:
                obs.append([2, exn_code(e)])
                continue
            r, got = enc_res_sdk(P, lambda: ref.resolve(P.provider))
            obs.append(r)
            # ---- oracle: expected outcome from the abstract tree
            fh = first_hit(aprov, zks[0][1])
            if fh is None:
                want = ("KeyError", None)
            else:
                want = oracle_walk(aprov[fh[0]][fh[1]], [v for _, v in zks[1:]])
            if want[0] == "ok":
                target = P.obj(fh[0], fh[1], want[1])
                if isinstance(target, getattr(model, rtypes[ty])):
                    if got is not target:
                        fails.append((f"C07:resolve:{tag}:wrong-result", f"resolve({zks}) gave {got!r}, the chain addresses {target!r}"))
                elif not isinstance(got, model.UnexpectedTypeError):
                    fails.append((f"C07:resolve:{tag}:type-check", f"resolve({zks}) as {rtypes[ty]} gave {got!r} instead of UnexpectedTypeError"))
            else:
                if not (isinstance(got, Exception) and type(got).__name__ == want[0]):
                    what = "returned an element" if not isinstance(got, Exception) else f"raised {type(got).__name__}"
                    fails.append((f"C07:resolve:{tag}:expected-{want[0]}",
                                  f"resolve({zks}) {what}: {got!r}; the chain addresses nothing ({want[0]} documented)"))
        else:
            _, si, ri, p, ids, tag = q
            x = P.obj(si, ri, p)
            if not isinstance(x, model.UniqueIdShortNamespace):
                # get_referable is a method of namespaces only; call the function the way resolve() does
                r, got = enc_res_sdk(P, lambda: model.UniqueIdShortNamespace.get_referable(x, list(ids)))
            else:
                r, got = enc_res_sdk(P, lambda: x.get_referable(list(ids)))
            if r[0] == 0:
                if r[1:3] != [si, ri] or r[3:3 + len(p)] != list(p):
                    obs.append([98])
                    fails.append((f"C07:get_referable:{tag}:left-the-subtree", f"get_referable({ids}) from {p} returned {got!r}"))
                    continue
                obs.append([0] + r[3 + len(p):])
            else:
                obs.append(r)
            n = aprov[si][ri]
            for i in p:
                n = n["ch"][i]
            want = oracle_walk(n, ids)
            if want[0] == "ok":
                if r[0] != 0 or r[3 + len(p):] != want[1]:
                    fails.append((f"C07:get_referable:{tag}:wrong-result", f"get_referable({ids}) from {p} gave {got!r}"))
            elif not (isinstance(got, Exception) and type(got).__name__ == want[0]):
                what = "returned an element" if not isinstance(got, Exception) else f"raised {type(got).__name__}"
                fails.append((f"C07:get_referable:{tag}:expected-{want[0]}",
                              f"get_referable({ids}) from {p} {what}: {got!r}; the path addresses nothing ({want[0]} documented)"))
    return obs, fails


# ------------------------------------------------------------------ case generation

PYINT_FORMS = ["-1", "-0", "+0", " 0", "0 ", "0_0", "00", "+1", "1_0", "-2", "\t1", "0\n"]
NONNUM = ["x", "1.5", "0x0", "one", "1e0", "_1", "1_", "1__0", "+ 1", "--1", "+", " "]
BAD_IDS = ["nope", "zz", "a_", "0"]


def chain_of(root, p):
    """[(node, parent)] from the root to the node"""
    n, res = root, [(root, None)]
    for i in p:
        c = n["ch"][i]
        res.append((c, n))
        n = c
    return res


def gen_queries(rng, aprov, facts, per_node, count, order="pre", is_old=None):
    kt_code = dict(facts["members"])
    kt_of_cls = {c: kt_code[facts["table"][c]["key_type"]] for c in facts["concrete"]}
    rtypes = facts["rtypes"]
    blocks = []          # (node, its queries): the order of the blocks is part of the generated case
    for si, s in enumerate(aprov):
        for ri, root in enumerate(s):
            for p, n, par in rt.walk(root):
                queries = [("from", si, ri, p, "from")]
                blocks.append((n, par, queries))
                chain = chain_of(root, p)
                keys = []
                for j, (m, mp) in enumerate(chain):
                    if j == 0:
                        keys.append((kt_of_cls[m["c"]], m["id"]))
                    elif mp["c"] == "SubmodelElementList":
                        keys.append((kt_of_cls[m["c"]], str(p[j - 1])))
                    else:
                        keys.append((kt_of_cls[m["c"]], m["k"]))
                ty_ok = rtypes.index(facts["table"][n["c"]]["ref_type"])
                wide = par is not None and len(par["ch"]) > 8       # items of long lists: fewer perturbations each
                for _ in range(1 if wide else per_node):
                    ks = list(keys)
                    ty = rng.choice([0, ty_ok])
                    listpos = [j for j in range(1, len(chain)) if chain[j][1]["c"] == "SubmodelElementList"]
                    idpos = [j for j in range(1, len(chain)) if chain[j][1]["c"] != "SubmodelElementList"]
                    kinds = ["trailing", "root", "firsttype", "wrongtype", "same"] + (["trailing"] * 3 if n["c"] in ("File", "Blob") else [])
                    if len(ks) > 1:
                        kinds += ["prefix", "ktnoise"]
                    if idpos:
                        kinds += ["unknown", "unknown"]
                    if listpos:
                        kinds += ["oob", "nonnum", "pyint"] * 2
                    kind = rng.choice(kinds)
                    if kind == "prefix" and len(ks) > 1:
                        ks = ks[:rng.randint(1, len(ks) - 1)]
                        ty = 0
                    elif kind == "trailing":
                        if n["c"] in ("File", "Blob") and len(ks) > 1 and rng.random() < .8:
                            # the one extra key the reference constraints admit behind a File/Blob
                            ks = ks + [(kt_code["FRAGMENT_REFERENCE"], rng.choice(["frag", "0", "a", "#/x"]))]
                            kind = "trailing-fragment"
                            ty = rng.choice([0, ty_ok])
                        else:
                            ks = ks + [(kt_code["PROPERTY"], rng.choice(["zz", "0", "a", "1"]))]
                            if rng.random() < .3:
                                ks = ks + [(kt_code["PROPERTY"], "b")]
                            ty = 0
                    elif kind == "unknown" and idpos:
                        j = rng.choice(idpos)
                        ks[j] = (ks[j][0], rng.choice(BAD_IDS + [ks[j][1].swapcase(), ks[j][1] + "x"]))
                        ty = 0
                    elif kind in ("oob", "nonnum", "pyint") and listpos:
                        j = rng.choice(listpos)
                        ln = len(chain[j][1]["ch"])
                        v = {"oob": rng.choice([str(ln), str(ln + 7), "99999999999999999999999", str(ln) + "0", "10", "20",
                                                "100", "101", "110", "1000"]),
                             "nonnum": rng.choice(NONNUM), "pyint": rng.choice(PYINT_FORMS)}[kind]
                        ks[j] = (ks[j][0], v)
                        if rng.random() < .6:      # lie about the list's key type so that AASd-128 does not apply
                            ks[j - 1] = (kt_code["SUBMODEL_ELEMENT_COLLECTION"] if j - 1 > 0 else ks[0][0], ks[j - 1][1])
                        ty = 0
                    elif kind == "root":
                        ks[0] = (ks[0][0], rng.choice(["urn:zz"] + rt.IDS))
                        ty = 0
                    elif kind == "firsttype":
                        ks[0] = (rng.choice([kt_code["PROPERTY"], kt_code["ASSET_ADMINISTRATION_SHELL"], kt_code["SUBMODEL"],
                                             kt_code["GLOBAL_REFERENCE"], kt_code["CONCEPT_DESCRIPTION"]]), ks[0][1])
                    elif kind == "wrongtype":
                        ty = rng.randrange(len(rtypes))
                    elif kind == "ktnoise" and len(ks) > 1:
                        j = rng.randrange(1, len(ks))
                        ks[j] = (rng.choice([kt_code["GLOBAL_REFERENCE"], kt_code["FRAGMENT_REFERENCE"], kt_code["SUBMODEL"],
                                             kt_code["FILE"], kt_code["SUBMODEL_ELEMENT_LIST"], kt_code["BLOB"]]), ks[j][1])
                    else:
                        kind = "same"
                    queries.append(("resolve", ks, ty, kind))
                    count(f"perturbation={kind}")
                # id_short paths from a random ancestor
                for _ in range(1 if wide else max(1, per_node // 2)):
                    a = rng.randint(0, len(chain) - 1)
                    ids = [k[1] for k in keys[a + 1:]]
                    kind = rng.choice(["same", "trailing", "unknown", "index", "empty"])
                    if kind == "trailing":
                        ids = ids + [rng.choice(["zz", "0", "-1", "a"])]
                    elif kind == "unknown" and ids:
                        j = rng.randrange(len(ids))
                        ids[j] = rng.choice(BAD_IDS + NONNUM[:4] + [ids[j].swapcase(), ""])
                    elif kind == "index" and ids:
                        j = rng.randrange(len(ids))
                        par_n = chain[a + 1 + j][1]
                        ids[j] = rng.choice(PYINT_FORMS + NONNUM + [str(len(par_n["ch"])), "0", "1", "2", "", "10", "20", "100"])
                    elif kind == "empty":
                        ids = []
                    else:
                        kind = "same"
                    queries.append(("get", si, ri, p[:a], ids, kind))
                    count(f"path-perturbation={kind}")
    # ---- order of the targets within the round
    if order == "reversed":
        blocks.reverse()
    elif order == "random":
        rng.shuffle(blocks)
    elif order == "old-first" and is_old is not None:
        # the elements that existed before the mutation (last ones first), then the new ones
        blocks = [b for b in reversed(blocks) if is_old(b[0])] + [b for b in blocks if not is_old(b[0])]
    elif order == "single":
        # one target only, preferably a list item that existed before the mutation
        pref = [b for b in blocks if b[1] is not None and b[1]["c"] == "SubmodelElementList"
                and (is_old is None or is_old(b[0]))]
        blocks = [rng.choice(pref or blocks)] if blocks else []
    elif order == "from-only-reversed":
        blocks = [(n, par, q[:1]) for n, par, q in reversed(blocks)]
    count(f"query-order={order}")
    return [q for _, _, qs in blocks for q in qs]


def coq_query(q):
    if q[0] == "from":
        return f"QFrom {q[1]}%nat {q[2]}%nat {rt.coq_path(q[3])}"
    if q[0] == "resolve":
        return "QResolve " + coq_list(f"({coq_z(c)}, {coq_str_any(v)})" for c, v in q[1]) + f" {q[2]}%nat"
    return f"QGet {q[1]}%nat {q[2]}%nat {rt.coq_path(q[3])} " + coq_list(coq_str_any(s) for s in q[4])


def coq_case(aprov, queries, obs, cls_index):
    prov = coq_list(coq_list(rt.coq_tree(t, cls_index) for t in s) for s in aprov)
    return f"({prov}, {coq_list(coq_query(q) for q in queries)}, {coq_z(common.zhash_d(obs, 2))})"


# ------------------------------------------------------------------ value objects

def value_object_oracle(rng, n, count):
    """eq => equal hash, and attribute assignment raises, for Key / Reference / SpecificAssetId"""
    from basyx.aas import model
    fails = []
    KT = [model.KeyTypes.SUBMODEL, model.KeyTypes.PROPERTY, model.KeyTypes.GLOBAL_REFERENCE, model.KeyTypes.FILE,
          model.KeyTypes.FRAGMENT_REFERENCE, model.KeyTypes.SUBMODEL_ELEMENT_LIST]
    vals = ["a", "b", "0", "urn:a"]

    def mk_key():
        return model.Key(rng.choice(KT), rng.choice(vals))

    def mk_ext():
        sem = mk_ext() if rng.random() < .2 else None
        return model.ExternalReference((model.Key(model.KeyTypes.GLOBAL_REFERENCE, rng.choice(vals)),) +
                                       tuple(model.Key(model.KeyTypes.GLOBAL_REFERENCE, rng.choice(vals))
                                             for _ in range(rng.randint(0, 1))), sem)

    def mk_mref():
        sem = mk_ext() if rng.random() < .3 else None
        ks = (model.Key(model.KeyTypes.SUBMODEL, rng.choice(vals)),) + tuple(
            model.Key(model.KeyTypes.PROPERTY, rng.choice(vals)) for _ in range(rng.randint(0, 2)))
        return model.ModelReference(ks, rng.choice([model.Property, model.Submodel, model.Referable]), sem)

    def mk_said():
        sem = mk_ext() if rng.random() < .4 else None
        return model.SpecificAssetId(rng.choice(["n", "m"]), rng.choice(vals),
                                     mk_ext() if rng.random() < .5 else None, sem,
                                     tuple(mk_ext() for _ in range(rng.randint(0, 1))) if sem is not None else ())
    makers = {"Key": mk_key, "ExternalReference": mk_ext, "ModelReference": mk_mref, "SpecificAssetId": mk_said}
    pools = {k: [m() for _ in range(n)] for k, m in makers.items()}
    allobjs = [o for p in pools.values() for o in p]
    for kind, pool in pools.items():
        for a in pool:
            for b in rng.sample(allobjs, 12) + rng.sample(pool, min(len(pool), 12)):
                eq = (a == b)
                count(f"value-object {kind} eq={eq}")
                if eq and hash(a) != hash(b):
                    fails.append((f"C07:value-object:{kind}:eq-but-hash-differs", f"{a!r} == {b!r} but hashes differ"))
                if eq != (b == a):
                    fails.append((f"C07:value-object:{kind}:eq-not-symmetric", f"{a!r} vs {b!r}"))
            before = (repr(a), hash(a))
            names = sorted(set(list(vars(a).keys()) + ["type", "value", "key", "name", "referred_semantic_id",
                                                      "external_subject_id", "semantic_id",
                                                      "supplemental_semantic_id", "new_attribute"]))
            for nm in names:
                if nm.startswith("_") or (kind == "SpecificAssetId" and nm in ("parent", "namespace_element_sets")):
                    continue      # private slots of the HasSemantics machinery are not part of the value
                try:
                    setattr(a, nm, rng.choice([getattr(a, nm, None), "changed", None]))
                    fails.append((f"C07:value-object:{kind}:assignable", f"attribute {nm} of {a!r} could be assigned"))
                except AttributeError:
                    pass
                except Exception as e:
                    fails.append((f"C07:value-object:{kind}:setattr-raises-{type(e).__name__}", f"{nm}: {e}"))
            if (repr(a), hash(a)) != before:
                fails.append((f"C07:value-object:{kind}:mutated", f"{before[0]} became {a!r}"))
    return fails


def equivalence_oracle(count):
    """Hand-built pools over ALL key types (incl. the abstract SUBMODEL_ELEMENT, DATA_ELEMENT, EVENT_ELEMENT and the
    reserved members) x values: same value / different type and vice versa, and references that differ in exactly one
    key.  On every pool: == is reflexive, symmetric, transitive (all triples with a == b == c), never equal across
    kinds, eq => equal hash, and a set / dict finds every member through an equal but distinct object."""
    from basyx.aas import model
    fails = []
    pools = equivalence_pools()
    return _equivalence_checks(pools, fails, count)


def equivalence_pools():
    """the hand-built pools of equivalence_oracle (deterministic; also built by the worker interpreter of
    foreign_value_oracle)"""
    from basyx.aas import model
    KT = list(model.KeyTypes)
    vals = ["a", "b", "0"]
    keys = [model.Key(t, v) for t in KT for v in vals]
    frag = [t for t in KT if t.is_fragment_key_element]
    ident = [t for t in KT if t.is_aas_identifiable]
    mrefs = []
    for t0 in ident:
        for v0 in (vals[:2] if t0 == model.KeyTypes.SUBMODEL else vals[:1]):
            mrefs.append((model.Key(t0, v0),))
            if t0 != model.KeyTypes.SUBMODEL and v0 != "a":
                continue
            for t1 in frag:
                for v1 in vals[:2]:
                    if t1 == model.KeyTypes.FRAGMENT_REFERENCE:
                        continue                 # needs a File/Blob in front (AASd-127); added below
                    mrefs.append((model.Key(t0, v0), model.Key(t1, v1)))
    for t1 in (model.KeyTypes.SUBMODEL_ELEMENT_COLLECTION, model.KeyTypes.SUBMODEL_ELEMENT, model.KeyTypes.FILE,
               model.KeyTypes.DATA_ELEMENT, model.KeyTypes.SUBMODEL_ELEMENT_LIST):
        for t2 in frag:
            if t2 == model.KeyTypes.FRAGMENT_REFERENCE and t1 not in (model.KeyTypes.FILE, model.KeyTypes.BLOB):
                continue
            if t1 == model.KeyTypes.SUBMODEL_ELEMENT_LIST:
                mrefs.append((model.Key(model.KeyTypes.SUBMODEL, "a"), model.Key(t1, "a"), model.Key(t2, "0")))
            else:
                mrefs.append((model.Key(model.KeyTypes.SUBMODEL, "a"), model.Key(t1, "a"), model.Key(t2, "b")))
    sem = model.ExternalReference((model.Key(model.KeyTypes.GLOBAL_REFERENCE, "s"),))
    pools = {"Key": keys}
    mr = []
    for ks in mrefs:
        for ty, rs in ((model.Referable, None), (model.Referable, sem)) + (((model.Property, None),) if len(ks) == 1 else ()):
            try:
                mr.append(model.ModelReference(ks, ty, rs))
            except model.AASConstraintViolation:
                pass
    pools["ModelReference"] = mr
    er = []
    for v0 in vals[:2]:
        for tl in (model.KeyTypes.GLOBAL_REFERENCE, model.KeyTypes.FRAGMENT_REFERENCE, None):
            for v1 in vals[:2]:
                ks = (model.Key(model.KeyTypes.GLOBAL_REFERENCE, v0),) + ((model.Key(tl, v1),) if tl else ())
                for rs in (None, sem):
                    er.append(model.ExternalReference(ks, rs))
    pools["ExternalReference"] = er
    said = []
    for nm in ("n", "m"):
        for v in vals[:2]:
            for es in (None, er[0], er[3]):
                for sm in (None, sem, er[1]):
                    for sup in ((), (sem,)):
                        if sup and sm is None:
                            continue
                        said.append(model.SpecificAssetId(nm, v, es, sm, sup))
    pools["SpecificAssetId"] = said
    return pools


def _equivalence_checks(pools, fails, count):
    from basyx.aas import model
    import copy
    import pickle
    for kind, pool in pools.items():
        n = len(pool)
        eq = [[(pool[i] == pool[j]) is True for j in range(n)] for i in range(n)]
        count(f"equivalence-pool {kind}", n)
        hs = [hash(x) for x in pool]
        done = set()

        def report(sig, msg):
            if sig not in done:
                done.add(sig)
                fails.append((sig, msg))
        for i in range(n):
            if not eq[i][i]:
                report(f"C07:value-object:{kind}:eq-not-reflexive", f"{pool[i]!r} != itself")
            for j in range(n):
                if eq[i][j] != eq[j][i]:
                    report(f"C07:value-object:{kind}:eq-not-symmetric", f"{pool[i]!r} vs {pool[j]!r}")
                if eq[i][j] and hs[i] != hs[j]:
                    report(f"C07:value-object:{kind}:eq-but-hash-differs",
                           f"{pool[i]!r} == {pool[j]!r} but their hashes differ (not found in a set/dict)")
                if eq[i][j] and i != j and (pool[j] not in {pool[i]} or {pool[i]: 1}.get(pool[j]) != 1):
                    report(f"C07:value-object:{kind}:equal-object-not-found-in-set-or-dict", f"{pool[i]!r} / {pool[j]!r}")
        for i in range(n):
            ei = [j for j in range(n) if eq[i][j]]
            for j in ei:
                for k in range(n):
                    if eq[j][k] and not eq[i][k]:
                        report(f"C07:value-object:{kind}:eq-not-transitive",
                               f"{pool[i]!r} == {pool[j]!r} == {pool[k]!r} but the first differs from the last")
                        break
        # a structurally identical but distinct object is equal and hashes alike
        for x in pool[:: max(1, n // 40)]:
            y = copy.deepcopy(x) if kind != "SpecificAssetId" else model.SpecificAssetId(
                x.name, x.value, x.external_subject_id, x.semantic_id, tuple(x.supplemental_semantic_id))
            if not (x == y and hash(x) == hash(y)):
                report(f"C07:value-object:{kind}:copy-not-equal", f"{x!r}")
            z = pickle.loads(pickle.dumps(x))
            if not (x == z and z == x and hash(x) == hash(z) and z in {x} and {x: 1}.get(z) == 1):
                report(f"C07:value-object:{kind}:pickle-round-trip-not-equal", f"{x!r}")
    kinds = list(pools)
    for a in kinds:
        for b in kinds:
            if a < b and {a, b} != {"ModelReference", "ExternalReference"} or (a < b):
                for x in pools[a][::7]:
                    for y in pools[b][::7]:
                        if x == y or y == x:
                            fails.append((f"C07:value-object:{a}-equals-{b}", f"{x!r} == {y!r}"))
    return fails


FOREIGN_WORKER = r"""
import pickle, random, sys
import c07, reftrees as rt
from basyx.aas import model
pools = c07.equivalence_pools()
aprov = c07.foreign_provider()
roots = [rt.build(t, attach=True) for t in aprov[0]]
refs = [[(p, model.ModelReference.from_referable(n["_o"])) for p, n, _ in rt.walk(t)] for t in aprov[0]]
sys.stdout.buffer.write(pickle.dumps((pools, refs)))
"""


def foreign_provider():
    """a fixed one-store provider (deterministic: own generator) built on both sides of foreign_value_oracle"""
    import random
    r = random.Random(7)
    return [[rt.gen_root(r, 4, i) for i in rt.BASE_IDS[:4]]]


def foreign_value_oracle(count):
    """Values are values wherever they were built: a worker interpreter with ANOTHER str-hash seed (PYTHONHASHSEED)
    builds the equivalence pools, a provider and the reference of every referable in it, and sends them by pickle
    (what multiprocessing's spawn start method, joblib or a cache on disk do).  Here every received Key / Reference /
    SpecificAssetId must equal the same value built locally, and then hash alike and be found in sets / dicts of local
    values (and vice versa); every received reference must resolve to the very element at that position of the
    same tree built here, and the reference rebuilt from that element must be the same value with the same hash."""
    import pickle
    import subprocess
    import sys
    from basyx.aas import model
    fails, done = [], set()

    def report(sig, msg):
        if sig not in done:
            done.add(sig)
            fails.append((sig, msg))
    env = dict(os.environ)
    env["PYTHONHASHSEED"] = "4242" if env.get("PYTHONHASHSEED") != "4242" else "4243"
    pr = subprocess.run([sys.executable, "-c", FOREIGN_WORKER], env=env, stdout=subprocess.PIPE, stderr=subprocess.PIPE)
    if pr.returncode != 0:
        return [("C07:value-object:foreign:worker-failed", pr.stderr.decode(errors="replace")[-600:])]
    try:
        pools_f, refs_f = pickle.loads(pr.stdout)
    except Exception as e:
        return [("C07:value-object:foreign:unpickle-raises", f"{type(e).__name__}: {e}")]
    pools = equivalence_pools()
    for kind, pool in pools.items():
        got = pools_f.get(kind, [])
        count(f"foreign-pool {kind}", len(got))
        if len(got) != len(pool):
            report(f"C07:value-object:foreign:{kind}:pool-differs", f"{len(got)} values received, {len(pool)} built here")
            continue
        index = {}
        for j, y in enumerate(pool):
            index.setdefault(y, j)
        local_set = set(pool)
        for x, y in zip(got, pool):
            what = f"{x!r} built by another interpreter and {y!r} built here"
            if not (x == y and y == x):
                report(f"C07:value-object:foreign:{kind}:not-equal", what + " differ")
                continue
            if hash(x) != hash(y):
                report(f"C07:value-object:foreign:{kind}:eq-but-hash-differs", what + " are equal but hash differently")
            j = index.get(x)
            if x not in local_set or j is None or not pool[j] == x or y not in {x} or {x: 1}.get(y) != 1:
                report(f"C07:value-object:foreign:{kind}:equal-object-not-found-in-set-or-dict", what)
    # the provider itself is built here (LangStringSets, hence whole trees, do not pickle): a reference is a value and
    # addresses the same position in an equal tree held by any provider
    aprov = foreign_provider()
    store = model.DictObjectStore([rt.build(t, attach=True) for t in aprov[0]])
    for ri, t in enumerate(aprov[0]):
        count("foreign-references", len(refs_f[ri]) if ri < len(refs_f) else 0)
        for (p, n, _), (pf, ref) in zip(rt.walk(t), refs_f[ri] if ri < len(refs_f) else []):
            local = model.ModelReference.from_referable(n["_o"])
            if not (ref == local and list(pf) == list(p)):
                report("C07:value-object:foreign:reference:not-equal", f"{ref!r} received, {local!r} built here for position {p}")
                continue
            if hash(ref) != hash(local) or ref not in {local} or {local: 1}.get(ref) != 1:
                report("C07:value-object:foreign:reference:eq-but-hash-differs",
                       f"{ref!r} built by another interpreter equals the reference built here but hashes differently")
            try:
                target = ref.resolve(store)
                if target is not n["_o"]:
                    report("C07:value-object:foreign:reference:resolve-not-identical", f"{ref!r} resolved to {target!r}")
                rebuilt = model.ModelReference.from_referable(target)
                if not rebuilt == ref:
                    report("C07:value-object:foreign:reference:rebuilt-differs", f"{ref!r} vs {rebuilt!r}")
                elif hash(rebuilt) != hash(ref) or {rebuilt: 1}.get(ref) != 1:
                    report("C07:value-object:foreign:reference:rebuilt-eq-but-hash-differs",
                           f"{ref!r} (received) == from_referable(element it resolves to), but a dict keyed by the latter "
                           f"does not find the former")
            except Exception as e:
                report(f"C07:value-object:foreign:reference:raises-{type(e).__name__}", f"{ref!r}: {e}")
    return fails


# ------------------------------------------------------------------ driver

def shrink_history(aprov, rounds, facts, sig, k, world=None):
    """keep the rounds up to the failing one; one query in the failing round; drop earlier queries and single
    mutations as long as the same signature still fails"""
    import copy

    def failing(rs):
        try:
            return any(s == sig for s, _, _ in run_history(aprov, rs, facts, world)[1])
        except Exception:
            return False
    rs = copy.deepcopy([{"mut": r["mut"], "queries": list(r["queries"])} for r in rounds[:k + 1]])
    for q in rs[k]["queries"]:
        cand = rs[:k] + [{"mut": rs[k]["mut"], "queries": [q]}]
        if failing(cand):
            rs = cand
            break
    for j in range(k):
        cand = copy.deepcopy(rs)
        cand[j]["queries"] = []
        if failing(cand):
            rs = cand
        else:
            for q in rs[j]["queries"]:
                cand[j]["queries"] = [q]
                if failing(cand):
                    rs = copy.deepcopy(cand)
                    break
    changed = True
    while changed:
        changed = False
        for j in range(len(rs)):
            for i in range(len(rs[j]["mut"])):
                cand = copy.deepcopy(rs)
                del cand[j]["mut"][i]
                if failing(cand):
                    rs, changed = cand, True
                    break
            if changed:
                break
    return rs


def run(chk):
    rng = chk.rng
    quick = chk.tier == "quick"
    ncases, depth, per_node = (500, 4, 3) if quick else (6000, 6, 4)
    rt.long_lists["p"], rt.long_lists["thorough"] = 0.06, not quick
    # ---- tie T: regenerate, then theorems
    from py2coq import refkeys, refeqhash
    facts = None
    try:
        chk.notes.append(refkeys.regenerate())
        facts = refkeys.facts()
    except Exception as e:
        chk.tie_broken("translator", f"py2coq/refkeys.py aborted: {type(e).__name__}: {e}")
    try:
        chk.notes.append(refeqhash.regenerate())
    except Exception as e:
        chk.tie_broken("translator", f"py2coq/refeqhash.py aborted: {type(e).__name__}: {e}")
    chk.theorems("props.C07", THEOREMS, ["theories/props/C07.vo", "theories/model/RefsObs.vo"])
    if facts is None:
        # translator aborted: fall back to the last generated tables for the search, if the classes still exist
        return finish(chk)
    cls_index = {c: i for i, c in enumerate(facts["concrete"])}
    # ---- translator validation: generated tables vs live classes
    rows, krows, problems = live_tables(facts)
    for pb in problems:
        chk.tie_broken("translator-validation", pb)
    bad, errs = common.run_mismatch_shards("C07tab", PRELUDE, [f"({coq_z(common.zhash_d(rows, 2))}, {coq_z(common.zhash_d(krows, 2))})"],
                                           "check_tables")
    if bad or errs:
        chk.tie_broken("translator-validation", {"what": "generated class/key-type tables differ from the live classes "
                                                 "(inspect.getmro, Key.from_referable, isinstance, KeyTypes properties)",
                                                 "errors": errs[:1]})
    # ---- int()/str()/isnumeric() alone
    strs = sorted(set(PYINT_FORMS + NONNUM + ["", "0", "7", "10", "007", "123456789012345678901234567890", "1_2_3", " 12 ", "\x0b3",
                                               "\x1f1", "+", "-", "+_1", "1 2", "12a"]))
    for _ in range(300 if quick else 3000):
        strs.append("".join(rng.choice("0123456789_+- \tx") for _ in range(rng.randint(0, 6))))
    int_terms = []
    for s in strs:
        try:
            r = [1, int(s)]
        except ValueError:
            r = [0]
        int_terms.append(f"({coq_str_any(s)}, {coq_list(coq_z(x) for x in r + [int(s.isnumeric())])})")
    str_terms = [f"({i}%nat, {coq_list(coq_z(x) for x in enc_str(str(i)))})" for i in list(range(0, 130)) + [999, 1000, 4095]]
    # ---- trees
    import copy
    cases, terms, origin = [], [], []
    stats = {}
    corpus = os.path.join(common.VERIF, "corpus", "C07")
    if os.path.isdir(corpus):
        for fn in sorted(os.listdir(corpus)):
            c = json.load(open(os.path.join(corpus, fn)))
            rounds = c.get("rounds") or [{"mut": [], "queries": c["queries"]}]
            cases.append((c["prov"], [{"mut": r["mut"], "queries": [tuple(q) for q in r["queries"]]} for r in rounds],
                          c.get("world")))
    for _ in range(ncases):
        nstores = rng.choice([1, 1, 2, 3])
        d = rng.randint(2, depth)
        aprov = rt.gen_provider(rng, d, nstores, stats)
        rounds = [{"mut": [], "queries": gen_queries(rng, aprov, facts, per_node, chk.count,
                                                     rng.choice(["pre", "pre", "reversed", "random"]))}]
        if rng.random() < 0.6:
            # history: mutate the live lists / containers / stores / provider arrangement between rounds; the
            # queries of a later round are generated for (and the model evaluated on) the provider as it is then
            cur = copy.deepcopy(aprov)
            for _ in range(rng.randint(1, 3)):
                old = {id(n) for st in cur for t in st for _, n, _ in rt.walk(t)}
                muts = gen_mutations(rng, cur, d, chk.count)
                order = rng.choice(["pre", "reversed", "random", "random", "old-first", "old-first", "single", "single",
                                    "from-only-reversed"])
                rounds.append({"mut": muts, "queries": gen_queries(rng, cur, facts, max(1, per_node - 1), chk.count,
                                                                   order, lambda n: id(n) in old)})
        # the world of the case (see Prov): in half of the cases the multiplexer is constructed in another of the
        # documented ways and a bystander provider of the same making lives next to ours
        world = None
        if rng.random() < 0.5:
            world = {"ctor": rng.choice(CTOR_MODES), "via_mux": rng.random() < .7,
                     "order": rng.choice(["before", "after", "interleaved"]),
                     "bystander": rt.gen_provider(rng, 2, rng.choice([1, 1, 2]))}
        cases.append((aprov, rounds, world))
    for ci, (aprov, rounds, world) in enumerate(cases):
        out, fails = run_history(aprov, rounds, facts, world)
        nn = sum(rt.size(t) for s in aprov for t in s)
        chk.seen((aprov, rounds, world), nontrivial=nn >= 3)
        chk.count(f"multiplexer-ctor={world['ctor'] if world else 'list (no bystander)'}")
        chk.count(f"stores={len(aprov)}")
        chk.count(f"rounds={len(rounds)}")
        chk.count(f"nodes={'1-5' if nn <= 5 else '6-15' if nn <= 15 else '16-40' if nn <= 40 else '>40'}")
        chk.count(f"height={max([rt.height(t) for s in aprov for t in s] or [0])}")
        for k, (ap_k, obs) in enumerate(out):
            for o in obs:
                chk.count("outcome=" + ("element" if o[0] == 0 else "ctor-raises" if o[0] == 2 else
                                        {1: "KeyError", 2: "TypeError", 3: "ValueError", 6: "UnexpectedTypeError"}.get(o[1], str(o[1]))
                                        if o[0] == 1 else "other"))
            terms.append(coq_case(ap_k, rounds[k]["queries"], obs, cls_index))
            origin.append((ci, k))
        seen_sigs = set()
        for sig, msg, k in fails:
            if sig in seen_sigs:
                continue
            seen_sigs.add(sig)
            # shrinking re-runs the history many times: do it for the first few signatures of a run only
            chk._n_shrunk = getattr(chk, "_n_shrunk", 0) + 1
            small = shrink_history(aprov, rounds, facts, sig, k, world) if chk._n_shrunk <= 8 else rounds[:k + 1]
            chk.fail(sig, msg, {"prov": aprov, "rounds": small, "world": world,
                                "how": "tools/c07.py run_history(prov, rounds, facts, world): the provider (and the "
                                       "bystander provider of the world, if any) is constructed as the world says; the "
                                       "mutations of a round are applied to the live objects before its queries"})
        if len(chk.samples) < 3 and nn >= 6 and len(rounds) > 1:
            chk.samples.append({"provider": aprov, "mutations_before_round_2": rounds[1]["mut"],
                                "first_queries": rounds[0]["queries"][:3], "sdk_observations": out[0][1][:3]})
    for c, n in stats.items():
        chk.count(f"class={c}", n)
    for sig, msg in value_object_oracle(rng, 40 if quick else 150, chk.count):
        chk.fail(sig, msg, {"how": "tools/c07.py value_object_oracle(random.Random(seed), n, count)"})
    for sig, msg in equivalence_oracle(chk.count):
        chk.fail(sig, msg, {"how": "tools/c07.py equivalence_oracle(lambda *a: None)", "kind": "equivalence"})
    for sig, msg in foreign_value_oracle(chk.count):
        chk.fail(sig, msg, {"how": "tools/c07.py foreign_value_oracle(lambda *a: None): the equivalence pools and the "
                                   "references of a fixed provider are built by a worker interpreter with another "
                                   "PYTHONHASHSEED, arrive by pickle and are compared with the same values built here",
                            "kind": "foreign-values"})
    bad, errs = common.run_mismatch_shards("C07", PRELUDE, terms, "check_case", shard=max(8, len(terms) // 32 + 1), jobs=16)
    n1 = common.run_mismatch_shards.evaluated
    bad2, errs2 = common.run_mismatch_shards("C07int", PRELUDE, int_terms, "check_int", shard=4000)
    bad3, errs3 = common.run_mismatch_shards("C07str", PRELUDE, str_terms, "check_str", shard=4000)
    chk.traces = n1 - len(bad)
    chk.cov["queries_compared"] = sum(len(r["queries"]) for _, rs, _ in cases for r in rs)
    chk.cov["rounds_compared"] = len(terms)
    chk.cov["int_str_literals_compared"] = len(int_terms) + len(str_terms)
    for e in errs + errs2 + errs3:
        chk.tie_broken("correspondence-run", e)
    if bad:
        ci, k = origin[bad[0]]
        aprov, rounds, world = cases[ci]
        out, _ = run_history(aprov, rounds, facts, world)
        ap_k, obs = out[k]
        queries = rounds[k]["queries"]
        first = None
        b, e = common.run_mismatch_shards("C07s", PRELUDE, [coq_case(ap_k, [q], [o], cls_index) for q, o in zip(queries, obs)],
                                          "check_case", shard=50)
        if b:
            first = (queries[b[0]], obs[b[0]])
        model = None
        if first:
            prov = coq_list(coq_list(rt.coq_tree(t, cls_index) for t in s) for s in ap_k)
            model = common.coq_eval("C07", PRELUDE, f"obs {prov} ({coq_query(first[0])})")
        chk.tie_broken("correspondence", {"n_disagreements": len(bad), "initial_prov": aprov, "world": world,
                                          "mutations_so_far": [r["mut"] for r in rounds[:k + 1]], "round": k,
                                          "prov_at_that_time": ap_k, "query": first and first[0],
                                          "sdk_observation": first and first[1], "model_observation": model})
    if bad2:
        chk.tie_broken("correspondence-int", {"n": len(bad2), "first": int_terms[bad2[0]]})
    if bad3:
        chk.tie_broken("correspondence-str", {"n": len(bad3), "first": str_terms[bad3[0]]})
    return finish(chk)


def coq_str_any(s):
    return rt.coq_str_any(s)


def finish(chk):
    chk.trusted = [
        "Coq 8.16.1 kernel (coqc; vm_compute for the finite class/key-type checks, the Example and the correspondence)",
        "tools/py2coq/refkeys.py + refeqhash.py (fail-closed ast translators), validated on every run against the live classes",
        "hand-written model coq/theories/model/Refs.v tied to base.py/provider.py by the correspondence run",
        "int()/str()/isnumeric() modelled for ASCII strings only (Unicode digits / Unicode white space not modelled)",
        "parent pointers and NamespaceSet contents are consistent and id_shorts unique per namespace (property C01)",
        "tools/c07.py, tools/reftrees.py (generator, SDK driver, canonicaliser, oracle), tools/common.py",
    ]
    chk.assumptions = ["trees are built through the public constructors (C01 invariant: parent <-> contained, unique id_short)",
                       "key values are ASCII", "component values of value objects have eq => hash themselves"]
    return chk.finish(level="proof",
                      rule="seeded random providers: 1-3 DictObjectStores (ids may repeat across stores) of Submodel/AAS/"
                           "ConceptDescription roots over SubmodelElementCollection, SubmodelElementList (any level, lists of "
                           "lists), Entity, Operation (3 variable sets), AnnotatedRelationshipElement and all 9 leaf classes; "
                           "for EVERY referable: from_referable+resolve, and per_node perturbed key chains (prefix, trailing key, "
                           "unknown id_short, index out of range / non-numeric / Python-int forms, wrong root, wrong first key "
                           "type, wrong expected type, key type noise; behind File/Blob a trailing FRAGMENT_REFERENCE key) and "
                           "id_short paths from a random ancestor; in ~60% of the cases 1-2 further rounds after 1-3 mutations "
                           "of the live objects (list insert/append/extend/pop/remove/del slice/setitem/set slice/reorder, "
                           "add_referable/remove_referable, store add/discard/move, multiplexer providers removed/reversed/"
                           "moved), the referables queried again and the model evaluated on the provider as it is then; the ORDER of "
                           "the targets within a round is part of the case (pre-order, reversed, random permutation, elements "
                           "that existed before the mutation first, a single target, from_referable only in reverse); "
                           "in half of the cases the multiplexer is constructed in another documented way (no argument / None / "
                           "empty list, filled through .providers afterwards), a lone store is queried through it, and a "
                           "bystander provider of the same making (ids overlapping ours) is constructed before / after / "
                           "interleaved with ours in the same process: each provider must list exactly its stores and answer "
                           "get_identifiable for every id in play from its own stores only; value objects additionally built "
                           "by a worker interpreter with another PYTHONHASHSEED and received by pickle; "
                           "non-trivial = provider with >= 3 nodes; distinct by (provider, queries, world)")


def replay(path):
    r = json.load(open(path))
    rp = r.get("replay") or {}
    if rp.get("kind") == "foreign-values":
        fails = foreign_value_oracle(lambda *a: None)
        print("oracle:", fails[:6])
        return 1 if fails else 0
    if rp.get("kind") == "equivalence" or "value_object_oracle" in str(rp.get("how", "")):
        import random
        fails = equivalence_oracle(lambda *a: None) + value_object_oracle(random.Random(0), 40, lambda *a: None)
        print("oracle:", fails[:6])
        return 1 if fails else 0
    if "rounds" in rp or "queries" in rp:
        from py2coq import refkeys
        facts = refkeys.facts()
        rounds = rp.get("rounds") or [{"mut": [], "queries": rp["queries"]}]
        rounds = [{"mut": r["mut"], "queries": [tuple(q) for q in r["queries"]]} for r in rounds]
        out, fails = run_history(rp["prov"], rounds, facts, rp.get("world"))
        print("observations:", [o for _, o in out])
        print("oracle:", fails)
        return 1 if fails else 0
    print(json.dumps(r, indent=1)[:3000])
    return 1
