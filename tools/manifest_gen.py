"""Writes /verif/MANIFEST.json from the table below (single place to register checks)."""
import json
import os

VERIF = os.path.dirname(os.path.dirname(os.path.abspath(__file__)))
PROPS = [json.loads(l) for l in open(os.path.join(VERIF, "properties.jsonl"))]

# pid -> dict(category, text, note, technique, design_ref)
CHECKS = {
    "C19": dict(
        category="proof",
        text="Closed Coq theorems over an executable model of DictSupplementaryFileContainer: bookkeeping invariant after every "
             "history, refinement of the name map to the ghost map of names handed out, add/delete contracts, termination of the "
             "conflict loop by pigeonhole. The model is tied to aasx.py on every run by differential execution of add/delete "
             "sequences and of _append_counter, and an independent dict oracle searches for failing inputs.",
        note="Trusted: Coq 8.16.1 kernel + vm_compute; hand-written model Files.v tied only by the correspondence run; SHA-256 "
             "treated as injective; Python harness/oracle.",
        technique="Coq proof (induction over operation histories, refinement to a map) + model/implementation correspondence",
        design_ref="DESIGN.md 6.C19"),
    "C03": dict(
        category="proof",
        text="The JSON adapter is translated on every run (fail-closed Python-ast translator) into per-class writer/reader rule "
             "tables; a generic Coq theorem proves that a decidable compatibility predicate between rule tables and the metamodel "
             "attribute table implies dec(enc v) = v for every well-formed value at every depth; compat is established for the "
             "generated tables by vm_compute over the whole (finite) tables. The interpretation of the tables is validated against "
             "the real encoder/decoder, and an adapter-independent canonicaliser compares stores before/after the SDK's own strict "
             "write/read through path, text and binary streams.",
        note="Trusted: Coq kernel + vm_compute; translator tools/py2coq/jsonrules.py; metamodel table tools/aasgen.py META; typed "
             "values are leaves identified by their literal (their lexical round trip is C06); the json module's text layer.",
        technique="Coq proof (generic codec round-trip theorem + finite compat check on tables regenerated from source) + correspondence",
        design_ref="DESIGN.md 6.C03"),
    "C18": dict(
        category="proof",
        text="Over the same regenerated rule tables: theorems that the guarded (`not cls.stripped`) members of the JSON writer, the "
             "guarded attributes of the JSON reader and of the XML reader are exactly the detachable parts named in the property; "
             "that the stripped rendering of any value equals the full rendering with exactly those attributes emptied (every depth); "
             "and that for ANY document the full reader accepts, the stripped reader returns the same object with exactly the guarded "
             "attributes absent. Oracle: stripped JSON == full JSON minus the members; four stripped reader modes on full and stripped documents.",
        note="Trusted: as C03, plus tools/py2coq/xmlrules.py for the XML reader's guard set; the XML reader itself is covered by its "
             "guard-set theorem and the oracle, not by the interpreter model; HTTP level=core is C10/C11.",
        technique="Coq proof (structural induction over values / documents, finite guard-set checks on regenerated tables) + correspondence",
        design_ref="DESIGN.md 6.C18"),
}

NOT_YET = "check under construction in this round (see DESIGN.md section 9); not claimed until it is green on the unchanged tree"


def main():
    checks = []
    for p in PROPS:
        pid = p["id"]
        if pid not in CHECKS:
            continue
        c = CHECKS[pid]
        checks.append({
            "property_id": pid,
            "quick_cmd": f"./check {pid} --tier quick",
            "thorough_cmd": f"./check {pid} --tier thorough",
            "evidence_file": f"/verif/evidence/{pid}.json",
            "replay_cmd_template": f"./check {pid} --replay {{path}}",
            "engine": "coq",
            "level_claimed": {"category": c["category"], "text": c["text"], "design_ref": c["design_ref"]},
            "level_note": c["note"],
            "technique": c["technique"],
        })
    m = {
        "version": 1,
        "setup_cmd": "cd /verif && ./setup.sh",
        "hooks": {"guard": "BASYX_PYTHON_SDK_VERIF",
                  "enable": "checks export BASYX_PYTHON_SDK_VERIF=1; no source hooks are needed (all observation goes through the "
                            "public API or through monkey-patching inside the harness process)",
                  "baseline_off_cmd": "cd /repo && /venv/bin/python -m pytest -ra -q -p no:cacheprovider --timeout=900 --continue-on-collection-errors",
                  "source_commits": [], "add_only": True},
        "engines": [
            {"name": "coq", "path": "/verif/coq", "serves_properties": sorted(CHECKS),
             "kind_free_text": "Coq 8.16.1 development: executable models (theories/model), models regenerated from /repo by "
                               "translators (theories/gen), proofs, one props/Cxx.v per property"},
            {"name": "harness", "path": "/verif/tools", "serves_properties": sorted(CHECKS),
             "kind_free_text": "Python: translators (py2coq), correspondence runs (SDK vs model under vm_compute), property oracles, verdict"}],
        "checks": checks,
        "not_applicable": [{"property_id": p["id"], "reason": NOT_YET} for p in PROPS if p["id"] not in CHECKS],
        "notes": "See DESIGN.md. Every check rebuilds its theorems (full .vo), parses Print Assumptions, ties the model to /repo by "
                 "regeneration and/or differential execution, and runs an independent property oracle that searches for a concrete failing input.",
    }
    with open(os.path.join(VERIF, "MANIFEST.json"), "w") as f:
        json.dump(m, f, indent=1)
    print("MANIFEST.json:", [c["property_id"] for c in checks])


main()
