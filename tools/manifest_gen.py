"""Writes /verif/MANIFEST.json from the table below (single place to register checks)."""
import json
import os

VERIF = os.path.dirname(os.path.dirname(os.path.abspath(__file__)))
PROPS = [json.loads(l) for l in open(os.path.join(VERIF, "properties.jsonl"))]

# pid -> dict(category, text, note, technique, design_ref)
CHECKS = {
    "C19": dict(
        category="proof",
        text="Closed Coq theorems over an executable model of DictSupplementaryFileContainer: bookkeeping invariant after every "
             "history, refinement of the name map to the ghost map of names handed out, add/delete contracts, termination of the "
             "conflict loop by pigeonhole; for every stream and position the stored content is what read() returns from that position "
             "(C19_stream). The model is tied to aasx.py on every run by differential execution of add/delete "
             "sequences and of _append_counter, and an independent dict oracle searches for failing inputs.",
        note="Trusted: Coq 8.16.1 kernel + vm_compute; hand-written model Files.v tied only by the correspondence run; SHA-256 "
             "treated as injective; Python harness/oracle.",
        technique="Coq proof (induction over operation histories, refinement to a map) + model/implementation correspondence",
        design_ref="DESIGN.md 6.C19"),
    "C03": dict(
        category="proof",
        text="The JSON adapter is translated on every run (fail-closed Python-ast translator) into per-class writer/reader rule "
             "tables; a generic Coq theorem proves that a decidable compatibility predicate between rule tables and the metamodel "
             "attribute table implies dec(enc v) = v for every well-formed value at every depth; compat is established for the "
             "generated tables by vm_compute over the whole (finite) tables. The interpretation of the tables is validated against "
             "the real encoder/decoder, and an adapter-independent canonicaliser compares stores before/after the SDK's own strict "
             "write/read through path, text and binary streams.",
        note="Trusted: Coq kernel + vm_compute; translator tools/py2coq/jsonrules.py; metamodel table tools/aasgen.py META; typed "
             "values are leaves identified by their literal (their lexical round trip is C06); the json module's text layer.",
        technique="Coq proof (generic codec round-trip theorem + finite compat check on tables regenerated from source) + correspondence",
        design_ref="DESIGN.md 6.C03"),
    "C18": dict(
        category="proof",
        text="Over the same regenerated rule tables: theorems that the guarded (`not cls.stripped`) members of the JSON writer, the "
             "guarded attributes of the JSON reader and of the XML reader are exactly the detachable parts named in the property; "
             "that the stripped rendering of any value equals the full rendering with exactly those attributes emptied (every depth); "
             "and that for ANY document the full reader accepts, the stripped reader returns the same object with exactly the guarded "
             "attributes absent. Oracle: stripped JSON == full JSON minus the members; four stripped reader modes on full and stripped documents.",
        note="Trusted: as C03, plus tools/py2coq/xmlrules.py for the XML reader's guard set; the XML reader itself is covered by its "
             "guard-set theorem and the oracle, not by the interpreter model; HTTP level=core is C10/C11.",
        technique="Coq proof (structural induction over values / documents, finite guard-set checks on regenerated tables) + correspondence",
        design_ref="DESIGN.md 6.C18"),

    "C07": dict(
        category="proof",
        text="Key types, class hierarchy (MRO), KeyTypes predicates, namespace/list/identifiable tables and the eq/hash/setattr "
             "bodies of Key/Reference/SpecificAssetId are translated from the source on every run; a hand-written executable model "
             "of Key.from_referable, ModelReference.__init__/from_referable/resolve, get_referable, DictObjectStore and "
             "ObjectProviderMultiplexer is proved, for every well-formed tree of any depth/width and every node, to resolve "
             "constructed references and idShort paths to exactly that node, to be sound and unambiguous for arbitrary key chains, "
             "and to raise KeyError/TypeError/ValueError in exactly the documented situations; tied to the SDK by differential "
             "execution on random providers over every container kind with perturbed chains.",
        note="Trusted: Coq kernel + vm_compute; translators tools/py2coq/refkeys.py, refeqhash.py (validated against live classes "
             "each run); hand-written Refs.v incl. the ModelReference constructor check (tie C only); int()/str()/isnumeric() "
             "modelled for ASCII strings only; C01 invariant assumed as wf_tree; component values of value objects assumed eq => hash.",
        technique="Coq proof (structural induction over paths, finite checks on regenerated tables) + correspondence + independent oracle",
        design_ref="DESIGN.md 6.C07, 10.4"),
    "C17": dict(
        category="proof",
        text="Executable model of commit/_direct_source_commit/update/find_source/get_backend proved equal, for every well-formed "
             "tree, node, registry and source placement, to carrying out a declaratively characterised list of intended calls (each "
             "sourced strict ancestor once, own source, each sourced descendant once, nothing else; nearest sourced ancestor for "
             "update) with abort at the first source lacking a backend; commit paths proved to lead from store object to object; "
             "update's path: full statement refuted (open known finding pinned by test_base.py:171), partial theorem proved.",
        note="Trusted: Coq kernel; Dispatch.v tied by correspondence with recording Backends registered via register_backend; "
             "backends never raise; ASCII sources; C01 invariant.",
        technique="Coq proof + correspondence + multiset/path-walk oracle",
        design_ref="DESIGN.md 6.C17, 10.4"),
    "C13": dict(
        category="proof",
        text="Closed Coq theorems over an executable model of DictObjectStore (with the inherited MutableSet methods), "
             "AbstractObjectProvider.get, ObjectProviderMultiplexer and NamespaceIRIGenerator: representation invariant and "
             "refinement to a functional map for every history (state and outputs), duplicate rejection, removal locality, pop/clear, "
             "iteration = each stored object exactly once, multiplexer = first provider that knows the id, generate_id terminates "
             "within |known|+1 rounds (pigeonhole) with a fresh identifier in the namespace for any counter-cache state; tied to the "
             "SDK by differential execution of call sequences over pools with objects sharing one identifier.",
        note="Trusted: Coq kernel + vm_compute; hand-written Store.v tied by correspondence only; object identity modelled by tokens; "
             "UUIDGenerator only by correspondence; Python harness/oracle.",
        technique="Coq proof (induction over histories, refinement to a map, pigeonhole) + correspondence + dict oracle",
        design_ref="DESIGN.md 6.C13, 10.4"),
    "C01": dict(
        category="proof",
        text="Closed Coq theorems over an executable model of NamespaceSet / OrderedNamespaceSet (several sets sharing one "
             "uniqueness domain, case-insensitive keys, SubmodelElementList hooks with their undo path), the renaming setters and "
             "the list value setter: the invariant (uniqueness across the namespace, parent link iff contained, lookup by key / "
             "index returns the contained child, iteration/len/membership/positions agree) holds initially, is preserved by every "
             "public call whether it returns or raises, hence after every history; failing single-element calls leave the state "
             "exactly unchanged; the generated idShorts of list items are pairwise distinct under every sequence of clock readings "
             "(C01_generated_ids_any_clock: the counter abstraction of the model is exact); tied to the SDK by differential "
             "execution over all namespace kinds with colliding, case-differing, None and foreign-owned elements, under running, "
             "frozen, coarse and stepping-back clocks.",
        note="Trusted: Coq kernel + vm_compute; hand-written Namespace.v tied by correspondence only; element identity by tokens; "
             "Python harness and invariant-checker oracle.",
        technique="Coq proof (inductive invariant over operation histories, atomicity of failing calls) + correspondence + invariant oracle",
        design_ref="DESIGN.md 6.C01, 10.4"),
    "C14": dict(
        category="proof",
        text="Closed Coq theorems over a model of LocalFileObjectStore / LocalFileBackend with Referable.update/commit dispatch: any "
             "number of instances on one directory, live objects and weak caches. For every call history the answers are those of "
             "one persistent map; contracts for get/add/discard/update; a retrieved object stays the one handed out while it is "
             "alive; for two threads doing get/add of one id on one instance every schedule of the modelled yield points yields a "
             "single object (the two pre-repair races are refuted); an add whose write fails leaves the state exactly as it was and is "
             "transparent for the rest of every history (C14_add_fault*); fault-free concurrent commits with pairwise distinct "
             "temporary names: no writer fails and the writer whose os.replace runs leaves exactly its version "
             "(C14_concurrent_commits). Tied to the SDK by differential execution of seeded histories "
             "and of all thread interleavings forced on real threads.",
        note="Partial w.r.t. OS, GC timing and the real scheduler (only interleavings at the modelled yield points). Trusted: "
             "kernel + vm_compute; hand-written model; JSON adapter and update_from exercised only through payloads (C03/C12); "
             "sha256 injective; file system = name->content map; no other process writes the directory.",
        technique="Coq proof (simulation by a persistent map, small-step two-thread semantics) + correspondence incl. forced interleavings",
        design_ref="DESIGN.md 6.C14, 10.4"),
    "C15": dict(
        category="proof",
        text="Closed Coq theorems over an effect-list model of LocalFileObjectStore.add / LocalFileBackend.commit_object: every "
             "disciplined write (encode; temp file open/write/close; atomic rename; then marks) is all-or-nothing under every fault "
             "list (exception at any effect, failing cleanup, process death at any effect with any prefix of buffered data "
             "flushed); other files untouched; a fresh store answers every operation; a failed add is neither contained nor "
             "marked; histories of faulty writes refine an atomic map; the pre-repair effect order is refuted; for any number of "
             "concurrent writers of one document, every interleaving and every fault the document is the old version or one writer's "
             "complete version provided the temporary names are pairwise distinct (one shared name per process: refuted). Tied to local_file.py "
             "by fault-injection correspondence: observed effect list, outcome, directory and fresh-store answers equal the model's.",
        note="Partial w.r.t. kernel durability on power loss. Trusted: kernel + vm_compute; hand-written model; os.replace atomic; a "
             "failing open() creates nothing; buffered data reaches a file as a prefix; no strict prefix of a document parses "
             "(checked on samples); faults injected at the Python API boundary.",
        technique="Coq proof (induction over effect lists, phase invariant) + fault-injection correspondence",
        design_ref="DESIGN.md 6.C15, 10.4"),
    "C08": dict(
        category="proof",
        text="Closed theorems over an executable model of the AASXWriter/AASXReader selection, de-duplication, relationship, merge "
             "and renaming logic (on top of the C19 container theorems), with the payload codec and the OPC container as visible "
             "premises (the OPC premise is proved for the reference semantics the correspondence evaluates): closure of written "
             "objects, objects and files read back (also into a pre-populated container), merge policy, frame, core properties and "
             "thumbnail; a case-colliding-names refutation recorded as open finding. Tied to aasx.py / traversal.py by differential "
             "execution on in-memory packages.",
        note="Partial for the zip/OPC container and the JSON/XML text layer (premises). Submodel elements modelled as a flat "
             "document-order list; one container per session. Trusted: kernel + vm_compute, tools/c08.py, SHA-256 injective.",
        technique="Coq proof + model/implementation correspondence + independent oracle",
        design_ref="DESIGN.md 6.C08, 10.4"),

    "C02": dict(
        category="proof",
        text="Closed theorems over definitions regenerated from the SDK source on every run (reference constructor checks "
             "AASd-121..128 for all key lists incl. the order of the reported constraint, the 13 bounded integer ranges, the 16 "
             "constrained string checks incl. AASd-130 = the four XML Char ranges and the version/revision pattern, idShort syntax) "
             "and over hand-written state machines tied by correspondence: accept => well-formed and reject => unchanged + documented "
             "error, by induction over all histories, for ConstrainedList with Entity AASd-014 / AssetInformation AASd-131 / "
             "HasSemantics AASd-118, AdministrativeInformation AASd-005, BasicEventElement direction/UTC/max_interval, language "
             "string sets and category AASd-090 (File/Blob exemption: refuted + partial theorem, open known finding). Typed values "
             "(AASd-020 / value vs value_type of Property, Qualifier, Extension, Range): the decision structure of "
             "datatypes.trivial_cast and the class table of the 31 XSD classes are translated from datatypes.py on every run; theorems: the "
             "translated hierarchy and trivial_cast are the specified ones (finite check over the whole class universe, lifted), accept "
             "=> value of the announced type with the same payload, converted only within its base kind (booleans only for xs:boolean, "
             "XSD bounds as literals), accepted iff trivially castable, reject => TypeError / ValueError exactly as documented, and "
             "for the holder state machines accept => well-formed, reject => unchanged, every history, Range re-casts min and max "
             "together or not at all. The namespace-level list constraints are covered by C01.",
        note="Trusted: Coq kernel + vm_compute; translators tools/py2coq/{c02engine,refchecks,intranges,strconstraints,beechecks,semsetter,typedvalues,typedsetters}.py (validated "
             "every run against the Python originals); re.fullmatch decides membership for the escape-free patterns; str.isalpha on "
             "ASCII (visible premise, checked on 128 points); ConstraintsSpec.v transcribes constraints.rst / Part 1 / XSD Part 2; "
             "ConstraintsModel.v and TypedValue.v (values = class + integer payload + characters + opaque token) tied by "
             "differential runs only; CPython facts bool < int, datetime < date.",
        technique="fail-closed Python-ast translation + Coq proofs (derivative-based regex theory, induction over op lists) + "
                  "differential execution against the public API + text-derived oracles",
        design_ref="DESIGN.md 6.C02, 10.4"),
    "C04": dict(
        category="proof",
        text="The XML adapter is translated on every run into per-class writer/reader rule tables (271/263 rules, 26 enum tables; "
             "helpers pinned by AST fingerprint); a generic Coq theorem proves dec(enc v) = v for every well-formed value at every "
             "depth for all tables satisfying a decidable compat predicate; compat is established for the generated tables by "
             "vm_compute; store level (unique ids => same identifiables, grouped by top-level list) and 52 single-object "
             "writer/reader pairs are covered. Tied by enc/dec/store correspondence and an adapter-independent canonicaliser oracle "
             "with XML lexical stress strings.",
        note="Trusted: Coq kernel + vm_compute; tools/py2coq/xmlrules.py (helper semantics hand-written in XmlCodec.v, pinned by "
             "fingerprint, validated by the correspondence); XmlMeta.v cross-checked every run; lxml print/parse is the identity on "
             "(tag, text, children) trees with empty text = no text; typed values identified by (type, literal) (C06); empty plain "
             "strings excluded by AASd-100. Six open findings: single-object writer lacks lang-string-set / value-list branches.",
        technique="fail-closed ast translation to rule tables + generic codec round-trip theorem + finite compat check + correspondence",
        design_ref="DESIGN.md 6.C04, 10.4"),
    "C09": dict(
        category="proof",
        text="The exception-flow model of both readers (about 600 primitive sites, 194 function instances, raise-sets per primitive, "
             "caught tuples) is regenerated from source on every run; a sound escape analysis (post-fixpoint check by vm_compute) "
             "proves over the abstract nondeterministic semantics: failsafe mode raises nothing on a well-formed document, strict "
             "mode only the four documented classes, malformed bytes only the syntax errors (JSON) / empty result (XML failsafe), an "
             "existing identifier only KeyError; a hand-written walk model gives failsafe totality, strict-refines-failsafe, error "
             "classes and isolation of undamaged top-level items by induction. Tied by sys.monitoring event correspondence "
             "(every observed exception within the raise-sets / escape sets) and a damage-operator oracle campaign.",
        note="Trusted: Coq kernel + vm_compute; tools/py2coq/readerflow.py and its hand-written PRIMS raise-set table (validated each "
             "run against observed exceptions); json and lxml parsers; object store obeys the dict contract (C13). Theorems quantify "
             "over model executions; nested-damage isolation is oracle-only.",
        technique="fail-closed ast translation + sound escape analysis with post-fixpoint check + induction on the walk + event correspondence",
        design_ref="DESIGN.md 6.C09, 10.4"),
    "C12": dict(
        category="proof",
        text="Closed theorems over a functional tree model with identity tokens of the repaired update_from/update_nss_from: "
             "path-wise equality with the copy at every depth (class, key, payload, qualifier/extension values, child source), "
             "identity of root / survivors / surviving qualifiers, one-level child law (added, removed, updated in place, replaced "
             "when retyped), key uniqueness preserved, root source changes only when asked. Tied by differential execution on "
             "(live, edit(live)) pairs; oracle = canonical equality + identity + C01 checker + detachment + source rule. Nodes with "
             "several child sets sharing one namespace (Operation) are modelled statement by statement (UpdateFromNS.v, two-phase "
             "order of the repaired code): the update never raises on well-formed trees, each set ends with exactly the other's keys, "
             "a child survives with its identity iff a same-class child with its key sits in the SAME set, keys stay unique across "
             "the sets, and the pre-repair per-set order is refuted (AASd-022 for a move towards an earlier set).",
        note="Trusted: kernel + vm_compute; plain attributes are one payload token per node; for multi-set nodes the one-level laws "
             "are proved, the path-wise equality at every depth only for single-set nodes; SubmodelElementList is oracle-only.",
        technique="Coq proof (induction over idShort paths) + correspondence + oracle",
        design_ref="DESIGN.md 6.C12, 10.4"),
    "C16": dict(
        category="proof",
        text="Closed theorems over an executable model of couchdb.py and of a server obeying CouchDB's documented document-API MVCC "
             "rules: map refinement for every history, no lost update in any state, a fresh commit visible to every reader, safe "
             "delete, every injected fault (non-2xx, non-JSON body, drop) ends in a documented error with the server unchanged, a "
             "request whose answer is lost after the server applied it ends in the transport error with the server in the state "
             "the request produced and the client untouched (C16_lost_answer_add/commit/safe_delete; through the module pool, which repeats only GET/HEAD after a read error: "
             "C16_lost_answer_pool_add/commit/safe_delete/lookup - the SDK defect of a pool that re-sent PUT/DELETE was repaired), id "
             "quoting injective, revision-store key agreement across operations, routing for all legal ids (reserved '_' ids: "
             "refuted, open known finding). Tied by differential execution of the real client against a loopback fake with a "
             "second actor and fault injection.",
        note="Partial: a real CouchDB and the network are not exercised. Trusted: kernel; CouchDB's rules as written in Couch.v; the "
             "fake tools/fakes/couchdb_server.py; payload abstracted to idShort, revisions to generations; calls atomic.",
        technique="Coq proof on the protocol model + differential execution against a loopback fake",
        design_ref="DESIGN.md 6.C16, 10.4"),
    "C20": dict(
        category="proof",
        text="Closed theorems over (a) a state-manager model (overall status = worst step status for every step list), (b) the "
             "try/except structure of the three compliance_check_* modules translated on every run: nothing escapes the six "
             "schema/deserialisation check functions, the six comparing functions may only let NotImplementedError through "
             "(unordered SubmodelElementList: open known finding, full statement refuted), (c) the compared-attribute table of "
             "AASDataChecker translated on every run: every metamodel attribute is compared (completeness) and equal data compares "
             "equal. Tied by state-manager op sequences, containment of every observed exception in the model's escape sets and "
             "single-leaf mutations; oracle on arbitrary bytes, non-AAS documents, damaged packages and SDK-written files.",
        note="Partial: the raise table is hand-written (tested by containment); schema validators, readers and AASXReader are not "
             "modelled; 'own output passes' is oracle-only (needs C05/C03); escape analysis is path-insensitive.",
        technique="fail-closed ast translation + finite vm_compute checks lifted by lemmas + correspondence + oracle",
        design_ref="DESIGN.md 6.C20, 10.4"),

    "C06": dict(
        category="proof",
        text="Closed Coq theorems over executable models of xsd_repr / from_xsd / the value constructors for all 31 XSD types: "
             "print->parse identity and validity of the printed text against recognisers transcribed from XML Schema 1.1 Part 2 "
             "(integers, boolean, all 1681 zone offsets by exhaustive vm_compute with the bound stated, date/time/dateTime incl. all "
             "10^6 microsecond values deductively, the five g-types, strings, hex and base64 on bit level for arbitrary byte strings, "
             "durations of both signs, decimals of any exponent, floats under visible premises about repr/float), rejection of every "
             "invalid literal with ValueError, rejection of out-of-space values (integer bounds as literals, month/day, zone offsets, "
             "mixed-sign durations, forbidden white space), one-to-one name table with the specification names as literals; tables "
             "and range checks re-translated from datatypes.py on every run; the pre-repair microsecond expression is modelled "
             "bit-exactly with PrimFloat (11549 of 10^6 values lose 1 us). Tied by differential execution on values and literals.",
        note="Trusted: Coq kernel + vm_compute; tools/py2coq/xsdtables.py (self-validated against the interpreter); hand-written models "
             "incl. stdlib pieces (isoformat, int(), Decimal.__format__, relativedelta._fix, base64/hex) tied only by correspondence; "
             "XsdLex.v transcribes the spec (cross-checked with a Python re transcription); binary floating point only as premises of "
             "C06_float_roundtrip; C06_old_us_expression depends on the Coq primitives PrimFloat/PrimInt63 (no axioms). Open finding: "
             "Float is not a 32-bit type.",
        technique="Coq proof (structural + exhaustive vm_compute over finite domains with stated bounds) + translation + correspondence",
        design_ref="DESIGN.md 6.C06, 10.7"),
    "C10": dict(
        category="proof",
        text="Closed Coq theorems over an executable model of WSGIApp's handlers: create/read/replace/delete/duplicate/unknown refine a "
             "map from identifier to object on the submodel routes; the invariant 'filed under its own id' holds after every history "
             "of every request (C10_own_id; a PUT whose body carries another id re-keys the object: old id 404, new id 200 with the "
             "merged object, 409 and nothing changed when the id is taken: C10_rekeyed_then_read, C10_rekey_conflict - the SDK defect "
             "behind the former refutation was repaired); paging follows the cursor exactly once for every "
             "limit > 0, also on filtered listings (filter before slice: C10_filtered_*); every mutating handler commits (finite check over the call table translated from http.py). Route table, "
             "except clauses, statuses and commit() calls are regenerated from http.py on every run; the hand-written handler model is "
             "tied by differential execution of random request histories over in-memory and local-file stores; oracle = a Python "
             "dict as reference repository plus probes (GET at Location, GET after DELETE/PUT, listings, paging).",
        note="Proof on the handler model, partial: werkzeug routing/converters/Accept negotiation/multipart and JSON/XML parsing are not "
             "modelled (bodies enter as abstract values); request-level theorems are stated on the submodel routes, the others are "
             "covered by the invariant and the correspondence. Trusted: kernel + vm_compute, tools/py2coq/httproutes.py (self-checked "
             "against url_map), harness/oracle, Files.v. Open known findings: list-index paths, POST into a list, core level for XML, shared attachment.",
        technique="Coq proof (case analysis over generated endpoints, induction over histories) + translation tie + correspondence + reference-dict oracle",
        design_ref="DESIGN.md 6.C10, 10.7"),
    "C11": dict(
        category="proof",
        text="Closed Coq theorems: after every history no request yields 5xx except 501 on declared-unimplemented routes "
             "(C11_no_5xx, full statement since the id-changing PUT was repaired; the own-id invariant it rests on is proved for "
             "every history); every 4xx except 406 carries the "
             "result structure with success=false; every 4xx/501 leaves store and file container unchanged (both unconditional). Proved "
             "by walking every generated endpoint with the except tables translated from http.py on every run; tied by a 26k-request "
             "route x method x malformed-input matrix and random histories through werkzeug's test client, with a snapshot oracle.",
        note="As C10, plus: the exception class raised by each SDK operation is hand-modelled and tied only by the malformed-input matrix.",
        technique="Coq proof (exception-flow case analysis over generated endpoints) + translation tie + correspondence + snapshot oracle",
        design_ref="DESIGN.md 6.C10/C11, 10.7"),

    "C05": dict(
        category="proof",
        text="Both schema files shipped in the repository are translated (fail-closed) into Coq tables = the specification's mapping; "
             "executable validators for exactly the schema subset used are tied to jsonschema / lxml.XMLSchema by verdict "
             "correspondence on SDK output and damaged documents. JSON writing: generic theorem `conforms W S = true -> every "
             "well-formed value encodes to a schema-valid document` (names, nesting, required members, enum literals and spelling, "
             "cardinalities, length facets; pattern facets relative to a pattern oracle) and `conforms` for the regenerated writer "
             "tables by vm_compute. XML writing: theorem for element names, nesting, xs:sequence order, cardinalities, wrappers, "
             "choice alternatives, enum literals. JSON reading: documents produced by spec-derived writer rules (defaults omitted or "
             "explicit) are decoded to exactly the value by the translated SDK reader rules (instance of C03's generic theorem); the "
             "schema's key-type literals the reader does not know are exactly 'Identifiable'/'Referable' (refuted, open finding). "
             "Oracles: SDK output judged by the real validators; an independent writer driven only by the schema tables produces "
             "spec-valid documents the SDK never emits (explicit defaults, 128-char names, BCP-47 shapes, abstract list types, "
             "non-canonical xs literals, prefixes) which the strict readers must accept with the same canonical value.",
        note="Partial: XML leaf facets, every `pattern` decision and XML reading rest on the differential tests only; the JSON reading "
             "theorem ranges over the image of the spec-derived writers, SDK constructor restrictions are oracle-only. Trusted: kernel + "
             "vm_compute; translators schemas.py / jsonrules.py / xmlrules.py; spec-side tables in schemas.py; Python re as pattern "
             "oracle; real validators as judges (two documented quirks). Three open findings pinned by existing tests / wide changes "
             "(display-name limit 64 vs 128, language tags, key types Referable/Identifiable).",
        technique="fail-closed translation of schemas and adapters + vm_compute table checks lifted by generic lemmas + validator "
                  "correspondence + independent-writer oracle",
        design_ref="DESIGN.md 6.C05, 10.7"),
}

NOT_YET = "check under construction in this round (see DESIGN.md section 9); not claimed until it is green on the unchanged tree"


def main():
    checks = []
    for p in PROPS:
        pid = p["id"]
        if pid not in CHECKS:
            continue
        c = CHECKS[pid]
        checks.append({
            "property_id": pid,
            "quick_cmd": f"./check {pid} --tier quick",
            "thorough_cmd": f"./check {pid} --tier thorough",
            "evidence_file": f"/verif/evidence/{pid}.json",
            "replay_cmd_template": f"./check {pid} --replay {{path}}",
            "engine": "coq",
            "level_claimed": {"category": c["category"], "text": c["text"], "design_ref": c["design_ref"]},
            "level_note": c["note"],
            "technique": c["technique"],
        })
    m = {
        "version": 1,
        "setup_cmd": "cd /verif && ./setup.sh",
        "hooks": {"guard": "BASYX_PYTHON_SDK_VERIF",
                  "enable": "checks export BASYX_PYTHON_SDK_VERIF=1; no source hooks are needed (all observation goes through the "
                            "public API or through monkey-patching inside the harness process)",
                  "baseline_off_cmd": "cd /repo && /venv/bin/python -m pytest -ra -q -p no:cacheprovider --timeout=900 --continue-on-collection-errors",
                  "source_commits": [], "add_only": True},
        "engines": [
            {"name": "coq", "path": "/verif/coq", "serves_properties": sorted(CHECKS),
             "kind_free_text": "Coq 8.16.1 development: executable models (theories/model), models regenerated from /repo by "
                               "translators (theories/gen), proofs, one props/Cxx.v per property"},
            {"name": "harness", "path": "/verif/tools", "serves_properties": sorted(CHECKS),
             "kind_free_text": "Python: translators (py2coq), correspondence runs (SDK vs model under vm_compute), property oracles, verdict"}],
        "checks": checks,
        "not_applicable": [{"property_id": p["id"], "reason": NOT_YET} for p in PROPS if p["id"] not in CHECKS],
        "notes": "See DESIGN.md. Every check rebuilds its theorems (full .vo), parses Print Assumptions, ties the model to /repo by "
                 "regeneration and/or differential execution, and runs an independent property oracle that searches for a concrete failing input.",
    }
    with open(os.path.join(VERIF, "MANIFEST.json"), "w") as f:
        json.dump(m, f, indent=1)
    print("MANIFEST.json:", [c["property_id"] for c in checks])


main()
