"""C05 helpers that know only the *specification side*: the flattened schema tables (tools/py2coq/schemas.py), the
metamodel attribute table (aasgen.META) and the mapping names.  Nothing here imports the SDK's adapters.

  SpecGen                 aasgen.Gen with leaf strings drawn from the specification's lexical spaces
  Patterns                the schemas' pattern texts compiled for Python's `re` (JSON: as jsonschema does; XSD: own
                          translation of the XSD regular expression = fullmatch)
  jcheck / xcheck         Python twins of model/Schema.v jvalid and model/SchemaXml.v xvalid, used to *locate* failures
                          (class, member, facet) for signatures and to record the pattern queries the Coq run needs
  IndependentWriter       canonical form (aasgen.canon) -> JSON value / lxml tree, driven by the schema tables, META and
                          the mapping names only; knobs produce spec-valid forms the SDK never emits
"""
import base64
import re

import aasgen
import py2coq.schemas as schemas

NS = "{" + schemas.AAS_NS + "}"

# ------------------------------------------------------------------------------------------------- lexical spaces
BCP47_SDK = ["en", "de", "en-US", "zh-Hant-TW", "fr-CA", "de-CH-1996", "sr-Latn-RS", "es-419", "de-DE-x-private"]
# further shapes of BCP 47 (all accepted by the schemas' pattern): 3-letter primary, upper case, private use,
# grandfathered, extended language subtags, extensions, 4-8 letter primary
BCP47_MORE = ["deu", "EN", "x-private", "i-klingon", "zh-aaa-bbb-ccc", "en-a-bbb-x-a-ccc", "qaa-Qaaa-QM-x-southern",
              "de-1996", "sl-rozaj-biske", "hy-Latn-IT-arevela", "En-Us", "art-lojban", "abcd", "abcdefgh"]
# quoted parameter values are drawn from upper-case letters, digits and '-': libxml2 (2.14) reads the range `\]-~` of the
# XSD contentType pattern as the three characters ']', '-', '~', so lxml rejects quoted values with lower-case letters
# although they match the pattern as XML Schema defines it (the JSON judge accepts them)
CONTENT_TYPES = ["image/png", "application/pdf", "text/plain", 'text/plain; charset="UTF-8"', "application/x-my+json;v=1",
                 "application/octet-stream", "a/b", "text/plain;charset=utf-8"]
FILE_URIS = ["file:///a/b.png", "file:/aasx/files/x.pdf", "file://localhost/c:/x.y", "file://host.example/p/q",
             "file:///tmp/a%20b", "file:/a"]


class SpecGen(aasgen.Gen):
    """Generator narrowed to stores that satisfy the metamodel constraints with leaf strings from the specification's
    lexical spaces: no empty strings (AASd-100), DataTypeDefXsd without the SDK-only NormalizedString, BCP 47
    language tags (those the SDK's constructor accepts), RFC 2046 content types, RFC 8089 file URIs."""

    def __init__(self, rng, **kw):
        avoid = set(kw.pop("avoid", ())) | {"empty_strings"}
        super().__init__(rng, avoid=avoid, **kw)

    def xsd_type(self):
        while True:
            t = super().xsd_type()
            if t.__name__ != "NormalizedString":
                return t

    DECIMALS = ["100", "1200", "1E+5", "0.00000012", "2.50E+3", "-7000", "0.000001", "1.10", "-0.5", "0",
                "1234567890123456789012345678901234567890", "0.1234567890123456789012345678901", "-1E-9", "5E+30"]

    @staticmethod
    def durations():
        """xs:duration values as the API lets them be built: every single field with either sign, all fields at once
        with either sign, negative values with fractional seconds, and non-integral / un-normalised fields (hours=1.5,
        days=0.5, minutes=90, seconds=3600.5, weeks=1.5) which only normalized() turns into an xs:duration literal"""
        from dateutil.relativedelta import relativedelta as rd
        out = []
        for sign in (1, -1):
            for f in ("years", "months", "days", "hours", "minutes", "seconds", "microseconds"):
                out.append(rd(**{f: sign * 7}))
            out.append(rd(years=sign * 1, months=sign * 2, days=sign * 3, hours=sign * 4, minutes=sign * 5, seconds=sign * 6,
                          microseconds=sign * 7))
            out += [rd(seconds=sign * 1, microseconds=sign * 500000), rd(microseconds=sign * 500000),
                    rd(hours=sign * 1.5), rd(days=sign * 0.5), rd(minutes=sign * 90), rd(seconds=sign * 3600.5),
                    rd(weeks=sign * 1.5), rd(minutes=sign * 2.25), rd(months=sign * 14), rd(hours=sign * 25),
                    rd(days=sign * 1, seconds=sign * 59, microseconds=sign * 999999)]
        return out

    # time zones met by every calendar edge below: none, Z, a half-hour zone, both ends of the xs range, one minute west
    CAL_TZ_MIN = [None, 0, 330, -660, 840, -840, -1]

    @classmethod
    def calendar_values(cls):
        """the eight date/time types of DataTypeDefXsd at the edges of their value spaces, EVERY edge combined with EVERY
        time zone of CAL_TZ_MIN (the random pools draw day <= 28 and the edge days only without a zone): first and last
        day of every month length (--02-29, --04-30, --12-31, ---31), leap days of years divisible by 4 / 100 / 400,
        the first and the last representable year, midnight and the last microsecond of a day.
        Returns [(type, value)], a fixed list (no random choice)"""
        import datetime
        from basyx.aas.model import datatypes as dt
        tzs = [None if m is None else datetime.timezone(datetime.timedelta(minutes=m)) for m in cls.CAL_TZ_MIN]
        out = []
        for tz in tzs:
            for mo, d in ((1, 1), (1, 31), (2, 28), (2, 29), (3, 31), (4, 30), (6, 30), (9, 30), (11, 30), (12, 31)):
                out.append((dt.GMonthDay, dt.GMonthDay(mo, d, tz)))
            for d in (1, 28, 29, 30, 31):
                out.append((dt.GDay, dt.GDay(d, tz)))
            for mo in (1, 2, 12):
                out.append((dt.GMonth, dt.GMonth(mo, tz)))
            for y in (1, 4, 1900, 1970, 2000, 9999):
                out.append((dt.GYear, dt.GYear(y, tz)))
            for y, mo in ((1, 1), (1900, 2), (2000, 2), (2024, 2), (9999, 12)):
                out.append((dt.GYearMonth, dt.GYearMonth(y, mo, tz)))
            for y, mo, d in ((1, 1, 1), (4, 2, 29), (1900, 2, 28), (1970, 1, 1), (2000, 2, 29), (2024, 2, 29), (2023, 2, 28),
                             (9999, 12, 31)):
                out.append((dt.Date, dt.Date(y, mo, d, tz)))
            for args in ((1, 1, 1, 0, 0, 0, 0), (4, 2, 29, 12, 0, 0, 1), (1969, 12, 31, 23, 59, 59, 999999),
                         (2000, 2, 29, 23, 59, 59, 999999), (2024, 2, 29, 0, 0, 0, 0), (9999, 12, 31, 23, 59, 59, 999999)):
                out.append((datetime.datetime, datetime.datetime(*args, tzinfo=tz)))
            for args in ((0, 0, 0, 0), (23, 59, 59, 999999), (12, 0, 0, 500000)):
                out.append((datetime.time, datetime.time(*args, tzinfo=tz)))
        return out

    def xsd_value(self, t):
        import decimal
        from dateutil.relativedelta import relativedelta
        if t is relativedelta and self.rng.random() < 0.7:
            return self.rng.choice(self.durations())
        if self.rng.random() < 0.25:
            # a calendar edge with a time zone (whole stores: the value then also occurs as Range min / max, Qualifier and
            # Extension value, not only in the Properties of the typed-value matrix)
            pool = [v for ty, v in self.calendar_values() if ty is t]
            if pool and "tz" not in self.avoid and "sub_ms" not in self.avoid:
                return self.rng.choice(pool)
        if t is decimal.Decimal:
            # integral values with trailing zeros, values below 1e-6, exponents, more than 28 digits: the spellings on
            # which str(Decimal) / normalize() switch to scientific notation (no xs:decimal literal)
            return decimal.Decimal(self.rng.choice(self.DECIMALS))
        return super().xsd_value(t)

    def submodel(self):
        if self.rng.random() < 0.15:
            return self.pair_submodel()
        return super().submodel()

    def pair_submodel(self):
        """a submodel in which every feature occurs at least twice with non-default values: two elements of each of three
        kinds with nearly all optional attributes present, two unordered SubmodelElementLists, kind = Template (state
        shared between the renderings of two objects of one class shows only then)"""
        from basyx.aas import model
        r = self.rng
        old = self.p_opt
        self.p_opt = 0.85
        try:
            elems = []
            for k in r.sample(aasgen.SUBMODEL_ELEMENTS, 3):
                elems += [self.submodel_element(kinds=[k]) for _ in range(2)]
            for _ in range(2):
                items = [model.Property(None, model.datatypes.Int, r.randint(0, 5)) for _ in range(r.randint(0, 2))]
                elems.append(model.SubmodelElementList(self.id_short(), model.Property, items,
                                                       value_type_list_element=model.datatypes.Int, order_relevant=False))
            r.shuffle(elems)
            kw = {}
            self.referable_kw(kw)
            self.identifiable_kw(kw)
            kw["kind"] = model.ModellingKind.TEMPLATE
            self.feat("pair-submodel")
            return model.Submodel(self.ident("sm"), submodel_element=elems, **kw)
        finally:
            self.p_opt = old

    def lang(self, clsname):
        r = self.rng
        maxlen = {"MultiLanguageNameType": 64, "MultiLanguageTextType": 1023, "DefinitionTypeIEC61360": 1023,
                  "PreferredNameTypeIEC61360": 255, "ShortNameTypeIEC61360": 18}[clsname]
        tags = r.sample(BCP47_SDK, r.randint(1, 3))
        return aasgen.cls_of(clsname)({t: self.text(maxlen) for t in tags})

    def resource(self):
        from basyx.aas import model
        r = self.rng
        return model.Resource(r.choice(FILE_URIS), r.choice([None] + CONTENT_TYPES))

    def submodel_element(self, depth=None, kinds=None, in_list=None):
        e = super().submodel_element(depth, kinds, in_list)
        r = self.rng
        n = type(e).__name__
        if n == "File":
            e.content_type = r.choice(CONTENT_TYPES)
            if e.value is not None:
                e.value = r.choice(FILE_URIS)
        elif n == "Blob":
            e.content_type = r.choice(CONTENT_TYPES)
        elif n == "BasicEventElement":
            if e.min_interval is not None and r.random() < 0.7:
                e.min_interval = r.choice(self.durations())
            if e.max_interval is not None and r.random() < 0.7:
                e.max_interval = r.choice(self.durations())
        return e


# ------------------------------------------------------------------------------------------------- patterns
def xsd_regex_to_python(p):
    """XSD regular expressions are implicitly anchored; the patterns of the AAS schema use only constructs whose
    meaning is the same in Python's re (classes, ranges, {m,n}, groups, alternation, escapes \\t \\. \\- \\[ \\] \\\\)."""
    i, out = 0, []
    while i < len(p):
        c = p[i]
        if c == "\\":
            if i + 1 >= len(p) or p[i + 1] not in "t.-[]\\nr+*?(){}|^$":
                raise ValueError(f"unsupported escape in XSD pattern at {i}: {p[i:i + 2]!r}")
            out.append(p[i:i + 2])
            i += 2
            continue
        out.append(c)
        i += 1
    return "(?:" + "".join(out) + ")"


XS_BOOLEAN = re.compile(r"[ \t\n\r]*(true|false|1|0)[ \t\n\r]*")
XS_BASE64 = re.compile(r"[ \t\n\r]*((([A-Za-z0-9+/] ?){4})*(([A-Za-z0-9+/] ?){3}[A-Za-z0-9+/]|([A-Za-z0-9+/] ?){2}"
                       r"[AEIMQUYcgkosw048] ?=|[A-Za-z0-9+/] ?[AQgw] ?= ?=))?[ \t\n\r]*")


def u16(s):
    """the string as its sequence of UTF-16 code units (the schema's JSON patterns are ECMA-262 patterns: they spell
    astral characters as surrogate pairs, while Python's re works on code points)"""
    if all(ord(c) < 0x10000 for c in s):
        return s
    b = s.encode("utf-16-le", "surrogatepass")
    return "".join(chr(int.from_bytes(b[i:i + 2], "little")) for i in range(0, len(b), 2))


# ------------------------------------------------------------------------------------------------- XSD lexical spaces
# written from XML Schema Part 2 (lexical representations of the built-in types); independent of the SDK and of C06's
# Coq recognisers.  Non-string types have whiteSpace=collapse.
_TZ = r"(Z|[+-]((0\d|1[0-3]):[0-5]\d|14:00))?"
_YEAR = r"-?([1-9]\d{3,}|0\d{3})"
_MON, _DAY = r"(0[1-9]|1[0-2])", r"(0[1-9]|[12]\d|3[01])"
_TIME = r"(([01]\d|2[0-3]):[0-5]\d:[0-5]\d(\.\d+)?|24:00:00(\.0+)?)"
_INT = r"[+-]?\d+"
XSD_LEX = {
    "xs:string": None, "xs:anyURI": None,
    "xs:boolean": r"true|false|1|0",
    "xs:decimal": r"[+-]?(\d+(\.\d*)?|\.\d+)",
    "xs:float": r"[+-]?(\d+(\.\d*)?|\.\d+)([Ee][+-]?\d+)?|[+-]?INF|NaN",
    "xs:double": r"[+-]?(\d+(\.\d*)?|\.\d+)([Ee][+-]?\d+)?|[+-]?INF|NaN",
    "xs:duration": r"-?P(?=\d|T\d)(\d+Y)?(\d+M)?(\d+D)?(T(?=\d)(\d+H)?(\d+M)?(\d+(\.\d+)?S)?)?",
    "xs:dateTime": _YEAR + "-" + _MON + "-" + _DAY + "T" + _TIME + _TZ,
    "xs:date": _YEAR + "-" + _MON + "-" + _DAY + _TZ,
    "xs:time": _TIME + _TZ,
    "xs:gYearMonth": _YEAR + "-" + _MON + _TZ, "xs:gYear": _YEAR + _TZ,
    "xs:gMonthDay": "--" + _MON + "-" + _DAY + _TZ, "xs:gMonth": "--" + _MON + _TZ, "xs:gDay": "---" + _DAY + _TZ,
    "xs:hexBinary": r"([0-9a-fA-F]{2})*",
    "xs:base64Binary": r"(([A-Za-z0-9+/] ?){4})*(([A-Za-z0-9+/] ?){3}[A-Za-z0-9+/]|([A-Za-z0-9+/] ?){2}"
                       r"[AEIMQUYcgkosw048] ?=|[A-Za-z0-9+/] ?[AQgw] ?= ?=)?",
}
XSD_INT_RANGE = {
    "xs:integer": (None, None), "xs:long": (-2 ** 63, 2 ** 63 - 1), "xs:int": (-2 ** 31, 2 ** 31 - 1),
    "xs:short": (-2 ** 15, 2 ** 15 - 1), "xs:byte": (-128, 127), "xs:nonPositiveInteger": (None, 0),
    "xs:negativeInteger": (None, -1), "xs:nonNegativeInteger": (0, None), "xs:positiveInteger": (1, None),
    "xs:unsignedLong": (0, 2 ** 64 - 1), "xs:unsignedInt": (0, 2 ** 32 - 1), "xs:unsignedShort": (0, 2 ** 16 - 1),
    "xs:unsignedByte": (0, 255),
}
_LEX_RE = {k: re.compile(v) for k, v in XSD_LEX.items() if v}
_INT_RE = re.compile(_INT)


def lexical_ok(xstype, s):
    """is s a literal of the XSD built-in type named xstype (None: the type is unknown)"""
    if xstype in ("xs:string", "xs:anyURI"):
        return True
    s = " ".join(s.split(" ")).strip(" \t\n\r")
    if xstype in XSD_INT_RANGE:
        if not _INT_RE.fullmatch(s):
            return False
        lo, hi = XSD_INT_RANGE[xstype]
        n = int(s)
        return (lo is None or n >= lo) and (hi is None or n <= hi)
    if xstype in _LEX_RE:
        return _LEX_RE[xstype].fullmatch(s) is not None
    return None


TYPED_MEMBERS = ("value", "min", "max")
FIXED_TYPED = {"lastUpdate": "xs:dateTime", "minInterval": "xs:duration", "maxInterval": "xs:duration"}   # BasicEventElement


def typed_values_json(d, cls="", out=None):
    """(class, member, valueType, literal) for every typed value of a JSON document: an object with a valueType member
    and string members value / min / max (Property, Range, Qualifier, Extension)"""
    out = [] if out is None else out
    if isinstance(d, list):
        for x in d:
            typed_values_json(x, cls, out)
    elif isinstance(d, dict):
        c = d.get("modelType") or cls
        vt = d.get("valueType")
        if isinstance(vt, str):
            for m in TYPED_MEMBERS:
                if isinstance(d.get(m), str):
                    out.append((c or "Qualifier|Extension", m, vt, d[m]))
        for m, vt in FIXED_TYPED.items():
            if isinstance(d.get(m), str):
                out.append((c, m, vt, d[m]))
        for k, v in d.items():
            typed_values_json(v, {"qualifiers": "Qualifier", "extensions": "Extension"}.get(k, ""), out)
    return out


def typed_values_xml(root):
    out = []
    for e in root.iter():
        if not isinstance(e.tag, str):
            continue
        if Twin.tag(e) in FIXED_TYPED and len(e) == 0:
            out.append((Twin.tag(e.getparent()), Twin.tag(e), FIXED_TYPED[Twin.tag(e)], e.text or ""))
        vt = e.find(NS + "valueType")
        if vt is None or vt.text is None:
            continue
        for m in TYPED_MEMBERS:
            k = e.find(NS + m)
            if k is not None and len(k) == 0:
                out.append((Twin.tag(e), m, vt.text, k.text or ""))
    return out


class Patterns:
    def __init__(self, t):
        self.j = [re.compile(p) for p in t["json"]["patterns"]]
        self.x = [re.compile(xsd_regex_to_python(p)) for p in t["xsd"]["patterns"]]

    def match(self, pid, s):
        if pid == "xs:boolean":
            return XS_BOOLEAN.fullmatch(s) is not None
        if pid == "xs:base64Binary":
            return XS_BASE64.fullmatch(s) is not None
        n = int(pid[1:])
        if pid[0] == "J":
            return self.j[n].search(u16(s)) is not None     # as jsonschema evaluates `pattern`, on UTF-16 code units
        return self.x[n].fullmatch(s) is not None


# ------------------------------------------------------------------------------------------------- twins
class Twin:
    """Python twins of jvalid / xvalid over the flattened tables.  errors: (class, member, facet); queries: the
    (pattern id, string) pairs evaluated, with their verdicts."""

    def __init__(self, t, pats):
        self.t, self.pats = t, pats
        self.jc = {c: rows for c, rows in t["json"]["classes"].items()}
        self.xc = t["xsd"]["classes"]
        self.xch = {c: dict((tag, ty[1]) for tag, ty in alts) for c, alts in t["xsd"]["choices"].items()}

    # ---- facets
    def facets(self, f, s, cls, member, errs, queries):
        if len(s) < f["min"]:
            errs.append((cls, member, "minLength"))
        if f["max"] is not None and len(s) > f["max"]:
            errs.append((cls, member, "maxLength"))
        for pid in f["pats"]:
            ok = self.pats.match(pid, s)
            queries[(pid, s)] = ok
            if not ok:
                errs.append((cls, member, "pattern:" + pid))

    # ---- JSON
    def mt_of(self, cls):
        row = next((r for r in self.jc.get(cls, []) if r[0] == "modelType"), None)
        if row and row[2][0] == "enum" and len(row[2][1]) == 1:
            return row[2][1][0]
        return None

    def jobj(self, cls, d, errs, queries):
        rows = self.jc.get(cls)
        if rows is None:
            errs.append((cls, "", "unknown-class"))
            return
        for m, req, ty in rows:
            if req and m not in d:
                errs.append((cls, m, "required"))
        byname = {m: ty for m, _, ty in rows}
        for m, v in d.items():
            if m in byname:
                self.jcheck(byname[m], v, cls, m, errs, queries)

    def jcheck(self, ty, d, cls, member, errs, queries):
        k = ty[0]
        if k == "str":
            if not isinstance(d, str):
                errs.append((cls, member, "type"))
            else:
                self.facets(ty[1], d, cls, member, errs, queries)
        elif k == "bool":
            if not isinstance(d, bool):
                errs.append((cls, member, "type"))
        elif k == "enum":
            if not isinstance(d, str) or d not in ty[1]:
                errs.append((cls, member, "enum"))
        elif k == "arr":
            if not isinstance(d, list):
                errs.append((cls, member, "type"))
            else:
                if ty[2] and not d:
                    errs.append((cls, member, "minItems"))
                for x in d:
                    self.jcheck(ty[1], x, cls, member, errs, queries)
        elif k == "obj":
            if not isinstance(d, dict):
                errs.append((cls, member, "type"))
            else:
                self.jobj(ty[1], d, errs, queries)
        elif k == "one":
            mt = d.get("modelType") if isinstance(d, dict) else None
            alt = next((a for a in ty[1] if isinstance(mt, str) and self.mt_of(a) == mt), None)
            if alt is None:
                errs.append((cls, member, "oneOf"))
            else:
                self.jobj(alt, d, errs, queries)
        else:
            raise KeyError(k)

    def jdoc(self, d, root=None):
        errs, queries = [], {}
        self.jcheck(("obj", root or self.t["json"]["root"]), d, "", "", errs, queries)
        return errs, queries

    # ---- XML (lxml elements)
    @staticmethod
    def kids(e):
        return [k for k in e if isinstance(k.tag, str)]

    @staticmethod
    def tag(e):
        return e.tag[len(NS):] if e.tag.startswith(NS) else e.tag

    def text_only_ws(self, e):
        parts = [e.text or ""] + [k.tail or "" for k in e]
        return all(not p.strip(" \t\r\n") for p in parts)

    def xcls(self, cls, e, errs, queries):
        parts = list(self.xc.get(cls, []))
        if cls not in self.xc:
            errs.append((cls, "", "unknown-class"))
            return
        if not self.text_only_ws(e):
            errs.append((cls, self.tag(e), "text-in-element-content"))
        for k in self.kids(e):
            tg = self.tag(k)
            while parts and parts[0][0] != tg and parts[0][1]:
                parts.pop(0)
            if not parts or parts[0][0] != tg:
                errs.append((cls, tg, "sequence"))
                return
            p = parts.pop(0)
            self.xcheck(p[2], k, cls, tg, errs, queries)
        for name, opt, _ in parts:
            if not opt:
                errs.append((cls, name, "required"))

    def xalt(self, choice, k, cls, member, errs, queries):
        c = self.xch[choice].get(self.tag(k))
        if c is None:
            errs.append((cls, member, "choice"))
        else:
            self.xcls(c, k, errs, queries)

    def xcheck(self, ty, e, cls, member, errs, queries):
        k = ty[0]
        if k in ("str", "bool", "b64", "enum"):
            if self.kids(e):
                errs.append((cls, member, "children-in-simple-content"))
                return
            s = (e.text or "") + "".join(c.tail or "" for c in e)      # comments / PIs inside character data
            if k == "str":
                self.facets(ty[1], s, cls, member, errs, queries)
            elif k == "enum":
                if s not in ty[1]:
                    errs.append((cls, member, "enum"))
            else:
                pid = "xs:boolean" if k == "bool" else "xs:base64Binary"
                ok = self.pats.match(pid, s)
                queries[(pid, s)] = ok
                if not ok:
                    errs.append((cls, member, pid))
        elif k == "cls":
            self.xcls(ty[1], e, errs, queries)
        else:
            if not self.text_only_ws(e):
                errs.append((cls, member, "text-in-element-content"))
            ks = self.kids(e)
            if k == "list":
                if not ks:
                    errs.append((cls, member, "minOccurs"))
                for x in ks:
                    if self.tag(x) != ty[1]:
                        errs.append((cls, member, "sequence"))
                    else:
                        self.xcheck(ty[2], x, cls, member, errs, queries)
            elif k == "many":
                if not ks:
                    errs.append((cls, member, "minOccurs"))
                for x in ks:
                    self.xalt(ty[1], x, cls, member, errs, queries)
            elif k == "one":
                if len(ks) != 1:
                    errs.append((cls, member, "choice-count"))
                else:
                    self.xalt(ty[1], ks[0], cls, member, errs, queries)
            else:
                raise KeyError(k)

    def xdoc(self, root):
        errs, queries = [], {}
        rt, rc = self.t["xsd"]["root"]
        if root.tag != NS + rt:
            errs.append(("", rt, "root"))
        else:
            self.xcls(rc, root, errs, queries)
        return errs, queries


# ------------------------------------------------------------------------------------------------- independent writer
# specification side: class of the value universe -> definition name in the schemas (XSD group = lower-case first)
CLASSMAP = schemas.CLASSMAP
XSD_NAME = schemas.XSD_NAME
LEVELS = ["min", "nom", "typ", "max"]


def xsd_name(pyname):
    return XSD_NAME.get(pyname) or "xs:" + pyname[0].lower() + pyname[1:]


def lower_first(s):
    return s[0].lower() + s[1:]


def tz_text(off, style=""):
    if off is None:
        return ""
    if off == 0:
        return {"": "Z", "plus": "+00:00", "minus": "-00:00"}.get(style, "Z")
    sign = "-" if off < 0 else "+"
    off = abs(off)
    return f"{sign}{off // 3600:02d}:{off % 3600 // 60:02d}"


def frac(us):
    return ("." + f"{us:06d}".rstrip("0")) if us else ""


def literal(leaf, style=""):
    """canonical form of a typed value (aasgen.canon_leaf) -> XSD literal, written from XML Schema Part 2 only.
    style: '' canonical-ish | 'plus' | 'zeros' | 'exp' | 'num' (numeric booleans) | 'tzplus' | 'tzminus' | 'frac0'"""
    tag = leaf[0]
    if tag == "duration":
        y, mo, d, h, mi, s, us = leaf[1:]
        neg = any(x < 0 for x in leaf[1:])
        y, mo, d, h, mi, s, us = (abs(x) for x in (y, mo, d, h, mi, s, us))
        if style == "coarse":            # the same duration with fewer, un-normalised fields: P14M, PT5430.5S
            mo, y = 12 * y + mo, 0
            s, h, mi = 3600 * h + 60 * mi + s, 0, 0
        z = "0" if style == "zeros" else ""
        date = (f"{z}{y}Y" if y else "") + (f"{z}{mo}M" if mo else "") + (f"{z}{d}D" if d else "")
        sec = f"{z}{s}{frac(us)}{'00' if z and us else ''}S" if (s or us) else ""
        if z:
            h, mi = (f"0{h}" if h else 0), (f"0{mi}" if mi else 0)
        tm = (f"{h}H" if h else "") + (f"{mi}M" if mi else "") + sec
        if not date and not tm:
            tm = "0S"
        return ("-" if neg else "") + "P" + date + ("T" + tm if tm else "")
    tzs = {"tzplus": "plus", "tzminus": "minus"}.get(style, "")
    if tag == "dateTime":
        y, mo, d, h, mi, s, us, tz = leaf[1:]
        f = frac(us) + ("000" if style == "frac0" and us else "")
        return f"{y:04d}-{mo:02d}-{d:02d}T{h:02d}:{mi:02d}:{s:02d}{f}{tz_text(tz, tzs)}"
    if tag == "date":
        return f"{leaf[1]:04d}-{leaf[2]:02d}-{leaf[3]:02d}{tz_text(leaf[4], tzs)}"
    if tag == "time":
        h, mi, s, us, tz = leaf[1:]
        return f"{h:02d}:{mi:02d}:{s:02d}{frac(us)}{tz_text(tz, tzs)}"
    if tag == "gYearMonth":
        return f"{leaf[1]:04d}-{leaf[2]:02d}{tz_text(leaf[3], tzs)}"
    if tag == "gYear":
        return f"{leaf[1]:04d}{tz_text(leaf[2], tzs)}"
    if tag == "gMonthDay":
        return f"--{leaf[1]:02d}-{leaf[2]:02d}{tz_text(leaf[3], tzs)}"
    if tag == "gMonth":
        return f"--{leaf[1]:02d}{tz_text(leaf[2], tzs)}"
    if tag == "gDay":
        return f"---{leaf[1]:02d}{tz_text(leaf[2], tzs)}"
    if tag == "boolean":
        if style == "num":
            return "1" if leaf[1] else "0"
        return "true" if leaf[1] else "false"
    if tag == "Base64Binary":
        return base64.b64encode(bytes.fromhex(leaf[1])).decode()
    if tag == "HexBinary":
        return leaf[1].upper() if style != "lower" else leaf[1].lower()
    if tag in ("float", "Float"):
        if leaf[1] == "nan":
            return "NaN"
        f = float.fromhex(leaf[1])
        if f in (float("inf"), float("-inf")):
            return "INF" if f > 0 else "-INF"
        r = repr(f)
        if style == "exp":
            r = (r.replace("e", "E") if "e" in r else r + "E0")
        if style == "plus" and f >= 0 and not r.startswith("-"):
            r = "+" + r
        return r
    if tag == "decimal":
        r = leaf[1]
        if "E" in r or "e" in r:
            import decimal
            r = format(decimal.Decimal(r), "f")
        if style == "plus" and not r.startswith("-"):
            r = "+" + r
        if style == "zeros":
            r = ("-0" + r[1:]) if r.startswith("-") else "0" + r
        return r
    if isinstance(leaf[1], int) and not isinstance(leaf[1], bool):
        n = leaf[1]
        r = str(n)
        if style == "plus" and n >= 0 and tag not in ("NonPositiveInteger", "NegativeInteger"):
            r = "+" + r
        if style == "zeros":
            r = ("-00" + r[1:]) if n < 0 else "00" + r
        return r
    if isinstance(leaf[1], str):
        return leaf[1]
    raise KeyError(tag)


LITERAL_STYLES = {  # styles that change the spelling but not the value, per canonical tag
    "int": ["plus", "zeros"], "Long": ["plus", "zeros"], "Int": ["plus", "zeros"], "Short": ["plus", "zeros"],
    "Byte": ["plus", "zeros"], "NonNegativeInteger": ["plus", "zeros"], "PositiveInteger": ["plus", "zeros"],
    "UnsignedLong": ["plus", "zeros"], "UnsignedInt": ["plus", "zeros"], "UnsignedShort": ["plus", "zeros"],
    "UnsignedByte": ["plus", "zeros"], "NonPositiveInteger": ["zeros"], "NegativeInteger": ["zeros"],
    "boolean": ["num"], "float": ["exp", "plus"], "Float": ["exp", "plus"], "decimal": ["plus", "zeros"],
    "duration": ["coarse", "zeros"], "dateTime": ["tzplus", "tzminus", "frac0"], "date": ["tzplus"], "time": ["tzplus"], "HexBinary": ["lower"],
    "gYearMonth": ["tzplus"], "gYear": ["tzplus"], "gMonthDay": ["tzplus"], "gMonth": ["tzplus"], "gDay": ["tzplus"],
}


class IndependentWriter:
    """canonical form -> documents.  Driven by: the flattened schema tables (member order, names, nesting, wrapper
    objects / elements, enum literal lists), aasgen.META (attribute kinds) and schemas.MEMBER (attribute -> name).
    knobs (dict): explicit_defaults_for ((class, attribute) or None), literal_style (tag -> style), shuffle (rng or None), xml_ws ('xs:boolean' | 'xs:base64Binary'),
    xml_bool_num (bool), xml_prefix (None = default namespace, or a prefix),
    xml_noise (rng or None: comments / processing instructions between children and inside character data)."""

    def __init__(self, t, knobs=None):
        self.t = t
        self.k = knobs or {}
        self.jc = {c: rows for c, rows in t["json"]["classes"].items()}
        self.xc = t["xsd"]["classes"]
        self.xch = {c: [(tag, ty[1]) for tag, ty in alts] for c, alts in t["xsd"]["choices"].items()}

    # ---- helpers
    @staticmethod
    def rows_of(cls):
        if cls in aasgen.META:
            return dict(aasgen.META[cls])
        raise KeyError(cls)

    @staticmethod
    def attr_of(cls, member):
        for a, _ in aasgen.META[cls]:
            if schemas.MEMBER.get(a) == member:
                return a
        return None

    @staticmethod
    def enum_literal(member_name, lits):
        norm = member_name.replace("_", "").lower()
        hits = [l for l in lits if l.replace("_", "").lower() == norm]
        if len(hits) != 1:
            raise KeyError(f"enum member {member_name} has {len(hits)} literals in {lits[:4]}...")
        return hits[0]

    def absent(self, cls, attr, kind, v):
        if v is None or v == []:
            return True
        d = schemas.DEFAULTS.get((cls, attr))
        if d is not None and d[1] == v and self.k.get("explicit_defaults_for") != (cls, attr):
            return True
        return False

    def lit(self, leaf):
        return literal(leaf, self.k.get("literal_style", {}).get(leaf[0], ""))

    def leaf_of(self, kind, v):
        if kind == "obytes":
            return base64.b64encode(bytes.fromhex(v)).decode()
        return self.lit(v)

    # ---- JSON
    def jobj(self, c, scls):
        cls = c["_class"]
        out = {}
        for m, req, ty in self.jc[scls]:
            if m == "modelType":
                if ty[0] != "enum" or len(ty[1]) != 1:
                    raise KeyError(f"modelType of {scls} is not a constant")
                out[m] = ty[1][0]
                continue
            if cls in ("ExternalReference", "ModelReference") and m == "type":
                out[m] = cls
                continue
            attr = self.attr_of(cls, m)
            if attr is None:
                continue
            kind = self.rows_of(cls)[attr]
            v = c[attr]
            if self.absent(cls, attr, kind, v):
                if req:
                    raise KeyError(f"required member {scls}.{m} has no value")
                continue
            out[m] = self.jval(kind, v, ty)
        if self.k.get("shuffle"):
            items = list(out.items())
            self.k["shuffle"].shuffle(items)
            out = dict(items)
        return out

    def jval(self, kind, v, ty):
        k = ty[0]
        if kind.startswith("olang:") or kind.startswith("lang:"):
            return [{"language": lg, "text": tx} for lg, tx in v["items"]]
        if kind == "set:enum:IEC61360LevelType":
            return {l: any(self.enum_literal(x, LEVELS) == l for x in v) for l in LEVELS}
        if kind.startswith("oset:") and k == "obj":          # value list: wrapper object around the only member
            (m, _, ity), = [r for r in self.jc[ty[1]]]
            return {m: [self.jany(x, ity[1]) for x in v]}
        if k == "arr":
            if ty[1][0] == "obj" and [r[0] for r in self.jc[ty[1][1]]] == ["value"] and kind.endswith("SubmodelElement") \
                    and ty[1][1] == "OperationVariable":
                vt = self.jc[ty[1][1]][0][2]
                return [{"value": self.jany(x, vt)} for x in v]
            return [self.jany(x, ty[1]) for x in v]
        if k in ("obj", "one"):
            return self.jany(v, ty)
        if k == "bool":
            return bool(v)
        if k == "enum":
            if kind in ("xsdtype", "oxsdtype"):
                return xsd_name(v)
            if kind == "keytypeclass":
                return v
            return self.enum_literal(v, ty[1])
        if k == "str":
            if kind in ("leaf", "odatetime", "oduration", "obytes"):
                return self.leaf_of(kind, v)
            return v
        raise KeyError((kind, k))

    def jany(self, c, ty):
        if ty[0] == "obj":
            return self.jobj(c, ty[1])
        if ty[0] == "one":
            want = CLASSMAP.get(c["_class"], c["_class"])
            if want not in ty[1]:
                raise KeyError(f"{want} is no alternative of {ty[1]}")
            return self.jobj(c, want)
        raise KeyError(ty)

    def json_env(self, canons):
        env = {}
        for m, req, ty in self.jc[self.t["json"]["root"]]:
            scls = ty[1][1]
            mine = [c for c in canons if CLASSMAP.get(c["_class"], c["_class"]) == scls]
            if mine:
                env[m] = [self.jobj(c, scls) for c in mine]
        return env

    # ---- XML
    def E(self, tag, text=None):
        from lxml import etree
        e = etree.Element(NS + tag)
        if text is not None:
            e.text = text
        return e

    def ws(self, s, ty):
        return f" {s}\n" if self.k.get("xml_ws") == ty else s

    def xobj(self, c, group, tag):
        cls = c["_class"]
        e = self.E(tag)
        for name, opt, ty in self.xc[group]:
            if cls in ("ExternalReference", "ModelReference") and name == "type":
                e.append(self.E(name, cls))
                continue
            attr = self.attr_of(cls, name)
            if attr is None:
                continue
            kind = self.rows_of(cls)[attr]
            v = c[attr]
            if self.absent(cls, attr, kind, v):
                if not opt:
                    raise KeyError(f"required element {group}/{name} has no value")
                continue
            e.append(self.xval(name, kind, v, ty))
        return e

    def xalt(self, c, choice):
        want = lower_first(CLASSMAP.get(c["_class"], c["_class"]))
        for tag, group in self.xch[choice]:
            if group == want:
                return self.xobj(c, group, tag)
        raise KeyError(f"{want} is no alternative of {choice}")

    def xval(self, name, kind, v, ty):
        k = ty[0]
        if kind.startswith("olang:") or kind.startswith("lang:"):
            e = self.E(name)
            for lg, tx in v["items"]:
                it = self.E(ty[1])
                it.append(self.E("language", lg))
                it.append(self.E("text", tx))
                e.append(it)
            return e
        if kind == "set:enum:IEC61360LevelType":
            e = self.E(name)
            for pname, _, _ in self.xc[ty[1]]:
                on = any(self.enum_literal(x, LEVELS) == pname for x in v)
                e.append(self.E(pname, self.ws(("1" if on else "0") if self.k.get("xml_bool_num")
                                               else ("true" if on else "false"), "xs:boolean")))
            return e
        if kind.startswith("oset:") and k == "cls":          # value list
            e = self.E(name)
            (wn, _, wty), = self.xc[ty[1]]
            w = self.E(wn)
            for x in v:
                w.append(self.xobj(x, wty[2][1], wty[1]))
            e.append(w)
            return e
        if k == "list":
            e = self.E(name)
            for x in v:
                if ty[2][0] != "cls":
                    raise KeyError(ty)
                if ty[2][1] == "operationVariable":
                    (vn, _, vty), = self.xc["operationVariable"]
                    ov = self.E(ty[1])
                    w = self.E(vn)
                    w.append(self.xalt(x, vty[1]))
                    ov.append(w)
                    e.append(ov)
                else:
                    e.append(self.xobj(x, ty[2][1], ty[1]))
            return e
        if k == "many":
            e = self.E(name)
            for x in v:
                e.append(self.xalt(x, ty[1]))
            return e
        if k == "one":
            e = self.E(name)
            e.append(self.xalt(v, ty[1]))
            return e
        if k == "cls":
            return self.xobj(v, ty[1], name)
        if k == "bool":
            s = ("1" if v else "0") if self.k.get("xml_bool_num") else ("true" if v else "false")
            return self.E(name, self.ws(s, "xs:boolean"))
        if k == "enum":
            if kind in ("xsdtype", "oxsdtype"):
                return self.E(name, xsd_name(v))
            if kind == "keytypeclass":
                return self.E(name, v)
            return self.E(name, self.enum_literal(v, ty[1]))
        if k == "b64":
            return self.E(name, self.ws(base64.b64encode(bytes.fromhex(v)).decode(), "xs:base64Binary"))
        if k == "str":
            if kind in ("leaf", "odatetime", "oduration"):
                return self.E(name, self.lit(v))
            return self.E(name, v)
        raise KeyError((kind, k))

    @staticmethod
    def add_noise(root, rng):
        """XML comments and processing instructions are no part of the content model: put some between the children
        of elements with element content (the root included) and inside character data, at any position (a blank-only
        part next to a comment is character data, too)."""
        from lxml import etree

        def node():
            if rng.random() < 0.7:
                return etree.Comment(rng.choice([" generated by another tool ", "x", " a < b & c "]))
            return etree.ProcessingInstruction("editor", 'fold="documents"')

        n = 0
        els = [e for e in root.iter() if isinstance(e.tag, str)]
        for e in els:
            kids = [k for k in e if isinstance(k.tag, str)]
            if kids:
                if e is root or rng.random() < 0.2:
                    e.insert(rng.randint(0, len(kids)), node())
                    n += 1
            elif e.text and rng.random() < 0.12:
                cuts = list(range(len(e.text) + 1))      # any position, blank-only parts next to the comment included
                if cuts:
                    i = rng.choice(cuts)
                    c = node()
                    c.tail = e.text[i:] or None
                    e.text = e.text[:i] or None
                    e.append(c)
                    n += 1
        return n

    def xml_env(self, canons):
        rt, rg = self.t["xsd"]["root"]
        from lxml import etree
        root = etree.Element(NS + rt, nsmap={self.k.get("xml_prefix", "aas"): schemas.AAS_NS})
        for name, opt, ty in self.xc[rg]:
            mine = [c for c in canons if lower_first(CLASSMAP.get(c["_class"], c["_class"])) == ty[2][1]]
            if mine:
                w = self.E(name)
                for c in mine:
                    w.append(self.xobj(c, ty[2][1], ty[1]))
                root.append(w)
        if self.k.get("xml_noise"):
            self.add_noise(root, self.k["xml_noise"])
        return root


# ------------------------------------------------------------------------------------------------- canonical forms
def norm(c):
    """aasgen.canon output without the Python typing aid ModelReference._type, unordered collections re-sorted
    afterwards (canon sorts them with _type still inside)"""
    import json as _json
    if isinstance(c, (list, tuple)):
        return [norm(x) for x in c]
    if not isinstance(c, dict):
        return c
    cls = c.get("_class")
    out = {}
    kinds = dict(aasgen.META[cls]) if cls in aasgen.META else {}
    for k, v in c.items():
        if k == "_type":
            continue
        v = norm(v)
        kind = kinds.get(k, "")
        if isinstance(v, list) and (kind.startswith("set:") or kind.startswith("oset:") or kind == "refset") \
                and kind != "set:enum:IEC61360LevelType":
            v = sorted(v, key=lambda x: _json.dumps(x, sort_keys=True, default=str))
        out[k] = v
    return out


def canon_of_store(store):
    return {o.id: norm(aasgen.canon(o)) for o in store}


# ------------------------------------------------------------------------------------------------- reference sweep
# The key chains of References that the metamodel admits (Part 1 V3.0, constraints AASd-121 ... AASd-128), written from
# the specification's enumerations only - no SDK constructor is involved, so the sweep exists whatever the SDK's own
# constraint checks say:
#   AasIdentifiables            first key of a model reference (AASd-123)
#   AasSubmodelElements         = AasReferableNonIdentifiables, concrete and abstract classes alike; together with
#                               FragmentReference these are the FragmentKeyElements allowed after the first key (AASd-125)
#   FragmentReference           only as the last key (AASd-126) and only after File or Blob (AASd-127)
#   key after SubmodelElementList has an integer value (AASd-128)
#   external reference: first key GlobalReference (AASd-122), last key GlobalReference or FragmentReference (AASd-124)
def _enum_name(literal):
    return re.sub(r"(?<=[a-z0-9])(?=[A-Z])", "_", literal).upper()


AAS_IDENTIFIABLES = ["ASSET_ADMINISTRATION_SHELL", "CONCEPT_DESCRIPTION", "SUBMODEL"]
AAS_SUBMODEL_ELEMENTS = [_enum_name(x) for x in schemas.SME_CLASS_LITERALS]


def reference_chains():
    """[(class, [key type, ...])]: every key type at every position the constraints allow it at (chains up to 4 keys)"""
    sme = AAS_SUBMODEL_ELEMENTS
    out = [("ModelReference", [f]) for f in AAS_IDENTIFIABLES]
    out += [("ModelReference", [f, x]) for f in AAS_IDENTIFIABLES for x in sme]
    out += [("ModelReference", ["SUBMODEL", x, sme[(3 * i + 1) % len(sme)]]) for i, x in enumerate(sme)]
    out += [("ModelReference", ["SUBMODEL", "SUBMODEL_ELEMENT_COLLECTION", x]) for x in sme]
    out += [("ModelReference", ["SUBMODEL", "SUBMODEL_ELEMENT_LIST", "SUBMODEL_ELEMENT_LIST", x]) for x in sme[::4]]
    out += [("ModelReference", ["SUBMODEL"] + mid + [fb, "FRAGMENT_REFERENCE"])
            for fb in ("FILE", "BLOB") for mid in ([], ["ENTITY"], ["SUBMODEL_ELEMENT_LIST"])]
    out += [("ExternalReference", ch) for ch in (["GLOBAL_REFERENCE"], ["GLOBAL_REFERENCE", "GLOBAL_REFERENCE"],
                                                 ["GLOBAL_REFERENCE", "FRAGMENT_REFERENCE"],
                                                 ["GLOBAL_REFERENCE", "FRAGMENT_REFERENCE", "FRAGMENT_REFERENCE"],
                                                 ["GLOBAL_REFERENCE", "GLOBAL_REFERENCE", "FRAGMENT_REFERENCE"])]
    return out


def blank(cls, **kw):
    """canonical form (aasgen.canon / norm) of an object of class cls with every optional attribute absent"""
    out = {"_class": cls}
    for attr, kind in aasgen.META[cls]:
        out[attr] = [] if kind.startswith(("list:", "set:")) or kind in ("reflist", "refset") else None
    d = {a: v[1] for (c, a), v in schemas.DEFAULTS.items() if c == cls}
    out.update(d)
    out.update(kw)
    return out


def chain_reference(cls, chain, n=0):
    keys = []
    for i, kt in enumerate(chain):
        if i == 0:
            value = f"https://example.org/ref/{n}" if cls == "ModelReference" else f"0173-1#02-AAO{n:03d}#002"
        elif chain[i - 1] == "SUBMODEL_ELEMENT_LIST":
            value = str((n + i) % 7)
        else:
            value = f"target{n}_{i}"
        keys.append({"_class": "Key", "type": kt, "value": value})
    return blank(cls, key=keys)


REFERENCE_SITES = ["ReferenceElement.value", "RelationshipElement.first", "RelationshipElement.second",
                   "Capability.semantic_id", "Property.value_id", "Capability.supplemental_semantic_id",
                   "Extension.refers_to", "BasicEventElement.observed", "SubmodelElementList.semantic_id_list_element"]


def reference_sweep():
    """[(canons of one store, class, chain, site)]: one small store per admissible key chain, the reference placed at
    the attributes that hold references in turn (attributes typed ModelReference only get model references)"""
    out = []
    for n, (cls, chain) in enumerate(reference_chains()):
        ref = chain_reference(cls, chain, n)
        site = REFERENCE_SITES[n % len(REFERENCE_SITES)]
        if cls != "ModelReference" and site in ("Extension.refers_to", "BasicEventElement.observed"):
            site = "ReferenceElement.value"
        holder, attr = site.split(".")
        other = chain_reference("ExternalReference", ["GLOBAL_REFERENCE"], n + 500)
        if holder == "RelationshipElement":
            el = blank(holder, id_short=f"el{n}", first=other, second=other)
            el[attr] = ref
        elif attr == "supplemental_semantic_id":
            el = blank(holder, id_short=f"el{n}", semantic_id=other, supplemental_semantic_id=[other, ref])
        elif holder == "Extension":
            el = blank("Capability", id_short=f"el{n}", extension=[blank("Extension", name=f"ext{n}", refers_to=[ref])])
        elif holder == "Property":
            el = blank(holder, id_short=f"el{n}", value_type="str", value_id=ref)
        elif holder == "BasicEventElement":
            el = blank(holder, id_short=f"el{n}", observed=ref, direction="OUTPUT", state="ON")
        elif holder == "SubmodelElementList":
            el = blank(holder, id_short=f"el{n}", type_value_list_element="Capability", semantic_id_list_element=ref)
        else:
            el = blank(holder, id_short=f"el{n}")
            el[attr] = ref
        out.append(([norm(blank("Submodel", id=f"https://example.org/sm/refsweep/{n}", submodel_element=[el]))],
                    cls, chain, site))
    return out


# ------------------------------------------------------------------------------------------------- mapping skeletons
# The document the mapping prescribes for a store (IndependentWriter) and the document the SDK wrote must agree in every
# member / element name, nesting position and string, except (a) the spelling of typed literals (judged separately
# against the XSD lexical spaces) and (b) attributes holding their metamodel default, which may be written or left out.
LITERAL_MEMBERS = {"value", "min", "max", "lastUpdate", "minInterval", "maxInterval"}
# member -> the spellings of its metamodel default: only a member holding its default is the same as an absent one
DEFAULT_VALUES = {"kind": ("Instance", "ConceptQualifier"), "orderRelevant": (True, "true", "1")}


def _is_default(member, v):
    if isinstance(v, str):
        v = v.strip(" \t\r\n")
    return member in DEFAULT_VALUES and any(v is d or (type(v) is type(d) and v == d) for d in DEFAULT_VALUES[member])


def _key(x):
    import json as _json
    return _json.dumps(x, sort_keys=True, ensure_ascii=True)


def jskel(d, member=""):
    if isinstance(d, dict):
        return {k: jskel(v, k) for k, v in d.items() if not _is_default(k, v)}
    if isinstance(d, list):
        return sorted((jskel(x, member) for x in d), key=_key)
    if isinstance(d, str):
        return "<literal>" if member in LITERAL_MEMBERS else d
    return d


def xskel(e):
    kids = [k for k in e if isinstance(k.tag, str)]
    tag = Twin.tag(e)
    if kids:
        return {"tag": tag, "kids": sorted((xskel(k) for k in kids
                                            if not (len(k) == 0 and _is_default(Twin.tag(k), k.text or ""))), key=_key)}
    return {"tag": tag, "text": "<literal>" if tag in LITERAL_MEMBERS else (e.text or "")}


def xskel_diff(a, b, path=""):
    """first difference between two XML skeletons as '<tag path>: <what>' (None: equal); a = prescribed, b = written"""
    here = f"{path}/{a['tag']}"
    if a["tag"] != b["tag"]:
        return f"{here}: element {a['tag']} != {b['tag']}"
    if ("kids" in a) != ("kids" in b):
        return f"{here}: {'children' if 'kids' in a else 'text'} prescribed, {'children' if 'kids' in b else 'text'} written"
    if "kids" not in a:
        return None if a["text"] == b["text"] else f"{here}: text {a['text']!r} != {b['text']!r}"
    ka, kb = [_key(k) for k in a["kids"]], [_key(k) for k in b["kids"]]
    if ka == kb:
        return None
    ta, tb = sorted(k["tag"] for k in a["kids"]), sorted(k["tag"] for k in b["kids"])
    if ta != tb:
        missing = [x for x in set(ta) if ta.count(x) > tb.count(x)]
        extra = [x for x in set(tb) if tb.count(x) > ta.count(x)]
        return f"{here}: missing {sorted(missing)} extra {sorted(extra)}"
    rest = [k for k in b["kids"]]
    unmatched = []
    for k in a["kids"]:
        kk = _key(k)
        hit = next((r for r in rest if _key(r) == kk), None)
        if hit is not None:
            rest.remove(hit)
        else:
            unmatched.append(k)
    for k in unmatched:          # pair each unmatched prescribed child with a written child of the same tag
        cand = next((r for r in rest if r["tag"] == k["tag"]), None)
        if cand is not None:
            rest.remove(cand)
            d = xskel_diff(k, cand, here)
            if d:
                return d
    return f"{here}: children differ"
