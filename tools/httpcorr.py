"""Request specifications -> (real HTTP request, Coq request term); the SDK driver and the C11 oracle.

A request spec is a dict:
  rule    : route pattern below the mount point (as in Gen_HttpRoutes.routes) or an unknown one
  method  : GET HEAD POST PUT DELETE PATCH OPTIONS FOO
  accept  : (header value | None, class) with class in json xml textxml none
  aas, sm, cd, qt : None | raw URL segment (str)       - decoded by the harness itself (decode_label)
  path    : None | raw segment text ("a.b.c")
  query   : list of (key, raw value) pairs
  body    : ("none",) | ("raw", content_type, bytes, class) with class in noctype bad
            | ("val", fmt in json xml textxml, abstract value) | ("upload", fileName|None, (mime, content idx)|None)
  cls     : label of the input class (used for oracle signatures only)
"""
import base64
import binascii
import io
import json
import re
import sys
import urllib.parse

import httpgen as G

METH = {"GET": "MGet", "HEAD": "MHead", "POST": "MPost", "PUT": "MPut", "DELETE": "MDelete", "PATCH": "MPatch",
        "OPTIONS": "MOptions", "FOO": "MOther"}
ACCC = {"json": "AccJson", "xml": "AccXml", "textxml": "AccTextXml", "none": "AccNone"}
ARGS = {"aas_id": "aas", "submodel_id": "sm", "concept_id": "cd", "qualifier_type": "qt", "handleId": "qt"}
FMT_CT = {"json": "application/json", "xml": "application/xml", "textxml": "text/xml"}


def decode_label(raw):
    """what Base64URLConverter yields for the raw URL segment: ('ok', identifier), ('bad',) or ('nonascii',)"""
    if any(ord(c) > 127 for c in raw):
        return ("nonascii",)        # urlsafe_b64decode(str) refuses non-ASCII text with a plain ValueError
    try:
        return ("ok", base64.urlsafe_b64decode(raw + "==").decode("utf-8"))
    except (binascii.Error, UnicodeDecodeError):
        return ("bad",)


IDSHORT_RE = re.compile(r"[a-zA-Z][a-zA-Z0-9_]*\Z")


def path_label(raw):
    segs = raw.split(".")
    if all(IDSHORT_RE.match(s) and len(s) <= 128 for s in segs):
        return ("ok", segs)
    return ("bad",)


def int_label(raw):
    try:
        n = int(raw)
    except ValueError:
        return ("bad",)
    if n < 0:
        return ("bad",)
    if n > sys.maxsize // 2:
        return ("huge",)
    return ("nat", n)


def url_of(req):
    def rep(m):
        conv, name = m.group(1), m.group(2)
        if name == "id_shorts":
            return urllib.parse.quote(req["path"], safe="")
        if name == "path":
            return urllib.parse.quote(req.get("tail", "x"), safe="/")
        return urllib.parse.quote(req[ARGS[name]], safe="=*!")
    url = G.BASE + re.sub(r"<(?:(\w+):)?(\w+)>", rep, req["rule"])
    if req.get("query"):
        url += "?" + "&".join(f"{k}={urllib.parse.quote(v, safe='=')}" for k, v in req["query"])
    return url


def http_of(req):
    """-> kwargs for werkzeug.test.Client.open"""
    kw = {"method": req["method"], "headers": {}}
    if req.get("host"):
        kw["headers"]["Host"] = req["host"]
    if req["accept"][0] is not None:
        kw["headers"]["Accept"] = req["accept"][0]
    b = req["body"]
    if b[0] == "raw":
        kw["data"], kw["content_type"] = b[2], b[1]
    elif b[0] == "val":
        obj = G.mk_obj(b[2])
        kw["data"] = G.to_json_bytes(obj) if b[1] == "json" else G.to_xml_bytes(obj)
        kw["content_type"] = FMT_CT[b[1]] + (b[3] if len(b) > 3 else "")     # b[3]: Content-Type parameters
    elif b[0] == "upload":
        data = {}
        if b[1] is not None:
            data["fileName"] = b[1]
        if b[2] is not None:
            data["file"] = (io.BytesIO(G.CONTENTS[b[2][1]]), "upload.bin", G.CTYPES[b[2][0]])
        kw["data"] = data
        kw["content_type"] = "multipart/form-data"
    return url_of(req), kw


PATH_RE = re.compile("[\t\n\r\x20-\ud7ff\ue000-\ufffd\U00010000-\U0010ffff]{1,2000}\\Z")


def fname_ok(name):
    """does the proposed file name satisfy the PathType constraints (length, AASd-130 characters)?"""
    return bool(PATH_RE.match(name))


def cid(sym, raw):
    if raw is None:
        return "IdAbsent"
    lab = decode_label(raw)
    return f"(IdOk {sym(lab[1])})" if lab[0] == "ok" else ("IdNonAscii" if lab[0] == "nonascii" else "IdBad")


def cqint(raw):
    if raw is None:
        return "QAbsent"
    lab = int_label(raw)
    return {"bad": "QBad", "huge": "QHuge"}.get(lab[0]) or f"(QNat {lab[1]}%nat)"


def coq_request(sym, req):
    q = {}
    for k, v in req.get("query", []):
        q.setdefault(k, []).append(v)
    qd = lambda lab: {"ok": "QdOk", "bad400": "QdBad400", "bad422": "QdBad422"}[lab]
    labels = req.get("qlabels", {})
    query = (f"(mkq {cqint(q.get('limit', [None])[0])} {cqint(q.get('cursor', [None])[0])} "
             f"{'true' if q.get('level', [None])[0] == 'core' else 'false'} "
             f"{G.con(sym, q.get('idShort', [None])[0])} "
             f"[{'; '.join(qd(l) for l in labels.get('assetIds', []))}] "
             f"{'(Some ' + qd(labels['semanticId']) + ')' if 'semanticId' in labels else 'None'})")
    if req.get("path") is None:
        path = "PathAbsent"
    else:
        lab = path_label(req["path"])
        path = "(PathOk [" + "; ".join(str(sym(s)) for s in lab[1]) + "])" if lab[0] == "ok" else "PathBad"
    b = req["body"]
    if b[0] == "none":
        body = "BNoCtype"
    elif b[0] == "raw":
        body = {"noctype": "BNoCtype", "bad": "BBad"}[b[3]]
    elif b[0] == "val":
        body = f"(BVal {'false' if b[1] == 'json' else 'true'} {G.cvalue(sym, b[2])})"
    else:
        ok = b[1] is None or fname_ok(b[1])
        printable = b[1] is not None and len(b[1]) <= 2100 and all(32 <= ord(c) < 127 for c in b[1])
        fn = "None" if b[1] is None else f"(Some {G.cstr(b[1] if printable else ('/' if b[1].startswith('/') else '') + 'unprintable')})"
        fl = "None" if b[2] is None else f"(Some ({b[2][0]}%nat, {b[2][1]}%nat))"
        body = f"(BUpload {fn} {'true' if ok else 'false'} {fl})"
    flags = (1 if req.get("sorted") else 0) + (2 if req["method"] == "HEAD" else 0)
    return (f"(mkr {G.cstr(req['rule'])} {METH[req['method']]} {ACCC[req['accept'][1]]} {cid(sym, req.get('aas'))} "
            f"{cid(sym, req.get('sm'))} {cid(sym, req.get('cd'))} {cid(sym, req.get('qt'))} {path} {query} {body} {'true' if req.get('host') else 'false'}, {flags})")


# ------------------------------------------------------------------ Location -> row

LOC_PATTERNS = [
    (re.compile(r"/shells/([^/]+)\Z"), 1), (re.compile(r"/submodels/([^/]+)\Z"), 2),
    (re.compile(r"/concept-descriptions/([^/]+)\Z"), 3),
    (re.compile(r"/submodels/([^/]+)/submodel-elements/([^/]+)/qualifiers/([^/]+)\Z"), 5),
    (re.compile(r"/submodels/([^/]+)/qualifiers/([^/]+)\Z"), 50),
    (re.compile(r"/submodels/([^/]+)/submodel-elements/([^/]+)\Z"), 4),
]


def enc_loc(sym, loc, status):
    if loc is None:
        return [0]
    u = urllib.parse.urlsplit(loc)
    path = urllib.parse.unquote(u.path)
    if not path.startswith(G.BASE):
        return [-5]
    path = path[len(G.BASE):]
    if status == 307:
        m = re.match(r"/submodels/([^/]+)", path)
        lab = decode_label(m.group(1)) if m else ("bad",)
        return [6, sym(lab[1])] if lab[0] == "ok" else [-5]
    for rx, code in LOC_PATTERNS:
        m = rx.match(path)
        if not m:
            continue
        lab = decode_label(m.group(1))
        if lab[0] != "ok":
            return [-5]
        i = sym(lab[1])
        if code in (1, 2, 3):
            return [code, i]
        if code == 4:
            segs = m.group(2).split(".")
            out = [4, i, len(segs)]
            for s in segs:
                out += [0] if s.startswith("generated_submodel_list_hack_") else [1, sym(s)]
            return out
        t = decode_label(m.group(3 if code == 5 else 2))
        if t[0] != "ok":
            return [-5]
        segs = m.group(2).split(".") if code == 5 else []
        return [5, i, sym(t[1]), len(segs)] + [sym(s) for s in segs]
    return [-5]


HINTS = {  # endpoint -> how a flattened single-object XML response is to be read
    "get_aas": "shell", "post_aas": "shell", "get_aas_reference": "ref", "get_aas_asset_information": "ai",
    "post_aas_submodel_refs": "ref", "post_submodel": "sm", "get_submodel": "sm", "get_submodels_metadata": "sm",
    "get_submodels_reference": "ref", "get_submodel_submodel_elements_id_short_path": "elem",
    "get_submodel_submodel_elements_id_short_path_metadata": "elem",
    "get_submodel_submodel_elements_id_short_path_reference": "ref",
    "post_submodel_submodel_elements_id_short_path": "elem", "get_submodel_submodel_element_qualifiers": "qual",
    "post_submodel_submodel_element_qualifiers": "qual", "put_submodel_submodel_element_qualifiers": "qual",
    "post_concept_description": "cd", "get_concept_description": "cd",
}


def parse_api_body(resp, hint):
    ct = (resp.content_type or "").split(";")[0]
    if not resp.data:
        return None
    if ct == "application/json":
        return G.abs_json(json.loads(resp.data))
    a = G.abs_xml(resp.data, "list")
    if isinstance(a, list) and hint != "list":
        a = G.abs_xml(resp.data, hint) if hint else {"k": "unknown", "keys": []}
    return a


def enc_response(sym, req, resp, exc, endpoint, backed):
    """row of integers for one real response (mirror of HttpObs.enc_response)"""
    if exc is not None:
        return [500, 0, 6]
    st = resp.status_code
    if req["method"] == "HEAD":
        return [st]
    ct = (resp.content_type or "").split(";")[0]
    loc = enc_loc(sym, resp.headers.get("Location"), st)
    if st == 406 or st == 307:
        return [st] + loc + [5]
    if endpoint == "get_submodel_submodel_element_attachment" and st == 200:
        return [st] + loc + [4, G._idx(G.CTYPES, ct), G._idx(G.CONTENTS, resp.data)]
    acc = G.ACC.get(ct, -1)
    is_list = endpoint is not None and st == 200 and (
        endpoint.endswith("_all") or endpoint.endswith("_all_reference") or endpoint.endswith("_all_metadata")
        or endpoint in ("get_aas_submodel_refs", "get_submodel_submodel_elements",
                        "get_submodel_submodel_elements_metadata", "get_submodel_submodel_elements_reference")
        or (endpoint == "get_submodel_submodel_element_qualifiers" and req.get("qt") is None))
    hint = "list" if is_list else HINTS.get(endpoint)
    try:
        a = parse_api_body(resp, hint)
    except Exception as e:  # unparsable body
        return [st] + loc + [-8]
    if is_list and isinstance(a, dict) and a.get("k") not in ("page", "result"):
        a = [a]
    return [st] + loc + G.enc_payload_api(sym, acc, a, bool(req.get("sorted")) or backed)


# ------------------------------------------------------------------ the SDK driver

class Server:
    """One WSGIApp (building the url_map takes 0.14 s) whose stores are swapped per case."""
    def __init__(self):
        from basyx.aas.adapter.http import WSGIApp
        from basyx.aas.adapter.aasx import DictSupplementaryFileContainer
        from basyx.aas import model
        # two application objects in one process, used in turn: state kept between requests (caches) may live in
        # the instance or in the class
        self.apps = [WSGIApp(model.DictObjectStore(), DictSupplementaryFileContainer()) for _ in range(2)]
        self.turn = 0
        self.app = self.apps[0]
        self.adapter = self.app.url_map.bind("localhost")
        self.tmp = None

    def reset(self, objs, files, backed):
        from werkzeug.test import Client
        from basyx.aas.adapter.aasx import DictSupplementaryFileContainer
        from basyx.aas import model
        self.cleanup()
        self.turn += 1
        self.app = self.apps[self.turn % 2]
        fc = DictSupplementaryFileContainer()
        for (n, c, t) in files:
            fc.add_file(n, io.BytesIO(G.CONTENTS[c]), G.CTYPES[t])
        if backed:
            import tempfile
            from basyx.aas.backend.local_file import LocalFileObjectStore
            self.tmp = tempfile.mkdtemp(prefix="verif-http-", dir=G_TMP)
            store = LocalFileObjectStore(self.tmp)
            store.check_directory(create=True)
        else:
            store = model.DictObjectStore()
        for a in objs:
            store.add(G.mk_obj(a))
        self.app.object_store, self.app.file_store = store, fc
        self.backed = backed
        self.client = Client(self.app)
        return store, fc

    def cleanup(self):
        if self.tmp:
            import shutil
            shutil.rmtree(self.tmp, ignore_errors=True)
            self.tmp = None

    def endpoint_of(self, req, url):
        """which handler werkzeug dispatches to (None: no match / method not allowed / converter error)"""
        try:
            ep, _ = self.adapter.match(urllib.parse.unquote(urllib.parse.urlsplit(url).path), method=req["method"])
            return ep.__name__
        except Exception:
            return None

    def routing_agrees(self, req, url, routes):
        """does werkzeug route the URL to the rule the generator intended?  (a static `$metadata`
        segment also matches the identifier converter of a sibling rule for other methods; such
        requests are run through the oracle only, URL matching is not modelled)"""
        import werkzeug.exceptions as wx
        allowed = [set(ms) | ({"HEAD"} if "GET" in ms else set()) for (r, ms, e) in routes if r == req["rule"]]
        try:
            rule, _ = self.adapter.match(urllib.parse.unquote(urllib.parse.urlsplit(url).path), method=req["method"], return_rule=True)
            return rule.rule == G.BASE + req["rule"]
        except wx.NotFound:
            return not allowed
        except wx.MethodNotAllowed:
            return bool(allowed) and not any((not a) or req["method"] in a for a in allowed)
        except wx.BadRequest:
            return any((not a) or req["method"] in a for a in allowed)
        except Exception:
            return False

    def fire(self, req):
        url, kw = http_of(req)
        try:
            resp = self.client.open(url, **kw)
            _ = resp.data
            return url, resp, None
        except Exception as e:   # the exception left the WSGI callable: a real server answers 500
            return url, None, e


import os
G_TMP = os.path.join(os.path.dirname(os.path.dirname(os.path.abspath(__file__))), "coq", "build")


def result_body_ok(resp):
    """the standard result structure with success=false"""
    try:
        ct = (resp.content_type or "").split(";")[0]
        if ct == "application/json":
            d = json.loads(resp.data)
            return (isinstance(d, dict) and d.get("success") is False and isinstance(d.get("messages"), list)
                    and all(isinstance(m, dict) and {"code", "text", "messageType", "timestamp"} <= set(m) for m in d["messages"]))
        if ct in ("application/xml", "text/xml"):
            a = G.abs_xml(resp.data, "list")
            return isinstance(a, dict) and a.get("k") == "result" and a.get("success") is False
    except Exception:
        return False
    return False


def oracle_c11(req, resp, exc, before, after, unimplemented):
    """property C11 on one real request; returns None or (kind, text)"""
    if exc is not None:
        return ("raises", f"{type(exc).__name__}: {str(exc)[:120]}")
    st = resp.status_code
    if st >= 500 and not (st == 501 and unimplemented):
        return ("5xx", f"status {st}")
    if st < 400 and req.get("must_reject"):
        return ("accepted", f"status {st} for input of class {req['must_reject']}")
    if (400 <= st < 500 or st == 501) and before != after:
        return ("state-changed", f"status {st} but the stored data changed")
    if (400 <= st < 500 or st == 501) and st != 406 and req["method"] != "HEAD" and not result_body_ok(resp):
        return ("body", f"status {st} with a body that is not the result structure: {resp.data[:60]!r}")
    return None


def run_history(server, objs, files, backed, reqs, stop_after_mutation=False, maxlen=10**9, routes=None, repeat_created=False):
    """Runs reqs (a prefix of them if stop_after_mutation: until a POST/PUT/DELETE was answered 2xx)
    on the real server.  -> dict(rows, fails [(index, kind, text, endpoint)], case (Coq term), eps, n, terms)"""
    import common
    sym = G.Sym()
    state_term = G.cstate(sym, objs, files, backed)     # assigns the symbols of the initial state first
    store, fc = server.reset(objs, files, backed)
    rows, fails, terms, eps, deferred, used = [], [], [], [], [], []
    n = 0
    def do(req):
        """one request on the server and into the case; -> (response status or None, did the store change?)"""
        used.append(req)
        terms.append(coq_request(sym, req))
        try:
            before = G.snapshot(store, fc)
        except Exception as e:
            before = "snapshot failed: " + repr(e)
        url, resp, exc = server.fire(req)
        ep = server.endpoint_of(req, url)
        eps.append(ep)
        try:
            after = G.snapshot(store, fc)
            srow = G.enc_state(sym, store, fc, backed)
        except Exception as e:
            after = "snapshot failed: " + repr(e)
            srow = [-99]
        f = oracle_c11(req, resp, exc, before, after, ep == "not_implemented")
        if f:
            fails.append((len(used) - 1, f[0], f[1], ep))
        rows.append(enc_response(sym, req, resp, exc, ep, backed))
        rows.append(srow)
        return (None if resp is None else resp.status_code), before != after

    for k, req in enumerate(reqs):
        if k >= maxlen:
            break
        if req.get("oracle_only") or (routes is not None and not server.routing_agrees(req, url_of(req), routes)):
            deferred.append(req)
            n += 1
            continue
        st, changed = do(req)
        n += 1
        b = req["body"]
        if repeat_created and st == 201 and req["method"] == "POST" \
                and not (b[0] == "val" and b[2].get("k") == "elem" and b[2].get("ids") is None):
            # the same request once more (same URL string, same application object): the resource exists now
            do(dict(req, must_reject="repeated creation of the same resource", cls=str(req.get("cls")) + "|repeated"))
        if stop_after_mutation and changed:
            break
    case = f"({state_term}, [{'; '.join(terms)}], {G.cz(common.zhash_d(rows, 2))})"
    return {"rows": rows, "fails": fails, "case": case, "eps": eps, "n": n, "state_term": state_term, "terms": terms,
            "deferred": deferred, "reqs": used}


PRELUDE = ("From Coq Require Import List ZArith String.\nFrom Basyx Require Import model.Files model.Http model.HttpObs "
           "gen.Gen_HttpRoutes.\nOpen Scope string_scope.")


def model_rows(tag, state_term, terms):
    """evaluate the model's trace for one case (diagnosis of a disagreement)"""
    import common
    import re as _re
    txt = common.coq_eval(tag, PRELUDE, f"trace {state_term} [{'; '.join(terms)}]", timeout=300)
    m = _re.search(r"=\s*(\[.*\])\s*:\s*list \(list Z\)", txt, _re.S)
    if not m:
        return None, txt[-800:]
    body = m.group(1).replace("\n", " ")
    rows = []
    for part in _re.findall(r"\[([^\[\]]*)\]", body):
        rows.append([int(x) for x in part.replace("%Z", "").split(";") if x.strip()])
    return rows, None


def diagnose(tag, res, reqs):
    """first request on which model and server disagree"""
    mrows, err = model_rows(tag, res["state_term"], res["terms"])
    if mrows is None:
        return {"error": err}
    for i, (a, b) in enumerate(zip(res["rows"], mrows)):
        if a != b:
            k = i // 2
            url, kw = http_of(reqs[k])
            return {"request_index": k, "what": "response" if i % 2 == 0 else "store content after the request",
                    "request": {"method": reqs[k]["method"], "url": url, "cls": reqs[k].get("cls"),
                                "body": str(reqs[k]["body"])[:300], "accept": reqs[k]["accept"][0]},
                    "endpoint": res["eps"][k], "sdk_row": a[:60], "model_row": b[:60], "coq_request": res["terms"][k][:600]}
    return {"error": "rows agree but hashes differ", "n_sdk": len(res["rows"]), "n_model": len(mrows)}
